import Csverif.Proofs.Hints
import Csverif.Model.Spec.Mangle
import Csverif.Proofs.Spec
/-
C14 — events are hints: duplicated, delayed, reordered, replayed events change nothing.

Part 1 (model: Model/Hints.lean — one side of an entry as `state.update` and `get_latest` see it, and the
id-less / walk rules of `_process_event`): for ALL states, ALL events, ALL provider truths.
Part 2 (spec: Model/Spec/Mangle.lean — what the trace-refinement layer `monc14` decides on the outcome of a
prompt run A and a mangled run B of the real engine).
-/
namespace CS.Hints
set_option linter.unusedVariables false

variable (ip : Bool) (norm : Path → Path) (T : Truth)

/-- the hash `get_latest` ends with when the provider knows the object: `info.hash`, or `hash_oid` for a
    file whose info carries none (state.py 1387-1400) -/
def Truth.resolved (T : Truth) (o : Oid) (info : Info) : Option Hash :=
  if info.otype = .file ∧ info.hash = none then T.hashOid o else info.hash

/-! ### what an event can and cannot do to an entry -/

theorem aOid_oid (s : Side) (e : Event) (o : Oid) (h : e.oid = some o) : (aOid ip s e).oid = some o := by
  unfold aOid; rw [h]

theorem aOid_ex_ne (s : Side) (e : Event) (h : s.ex ≠ .corrupt) : (aOid ip s e).ex ≠ .corrupt := by
  unfold aOid
  cases e.oid with
  | none => exact h
  | some o =>
    simp only []
    split
    · simp [fresh]
    · exact h

/-- events never make an entry corrupt -/
theorem applyEvent_not_corrupt (s : Side) (e : Event) (t : Nat) (h : s.ex ≠ .corrupt) :
    (applyEvent ip norm s e t).ex ≠ .corrupt := by
  unfold applyEvent
  have h1 : (aType (aOid ip s e) e).ex ≠ .corrupt := by simpa using aOid_ex_ne ip s e h
  simp only []
  split
  · exact h1
  · simp only [aChanged_ex]
    apply aEx_ne
    rw [aHash_ex_of_ne _ _ (by simpa using h1)]
    simpa using h1

theorem applyEvent_oid (s : Side) (e : Event) (t : Nat) (o : Oid) (h : e.oid = some o) :
    (applyEvent ip norm s e t).oid = some o := by
  unfold applyEvent
  simp only []
  split <;> simp [aOid_oid ip s e o h]

/-- whatever happened before, after an event the entry counts as changed at the event's time
    (unless the assertion at state.py 999 aborted the update) -/
theorem applyEvent_changed (s : Side) (e : Event) (t : Nat) (h : e.raises = false) :
    (applyEvent ip norm s e t).changed = t := by
  unfold applyEvent; simp [h]

/-! ### `get_latest` with a provider answer: the truth overrides everything -/

theorem known_path (now : Nat) (o : Oid) (info : Info) (s : Side) :
    (known norm T now o info s).path = some (norm info.path) := by simp [known]

theorem known_otype (now : Nat) (o : Oid) (info : Info) (s : Side) :
    (known norm T now o info s).otype = info.otype := by simp [known]

theorem known_oid (now : Nat) (o : Oid) (info : Info) (s : Side) :
    (known norm T now o info s).oid = s.oid := by simp [known]

theorem known_hash (now : Nat) (o : Oid) (info : Info) (s : Side) :
    (known norm T now o info s).hash = T.resolved o info := by
  simp [known, kFile_hash, Truth.resolved]

theorem known_ex (now : Nat) (o : Oid) (info : Info) (s : Side) (hc : s.ex ≠ .corrupt) :
    (known norm T now o info s).ex = .present := by
  have h1 : (kHash info now s).ex ≠ .corrupt := by rw [kHash_ex_of_ne _ _ _ hc]; exact hc
  have h2 : (kType info (kHash info now s)).ex = .present := by
    simp [setEx_ex_of_ne _ _ h1 (by decide : Ex.present ≠ .corrupt)]
  simp only [known, kPath_ex]
  rw [kFile_ex_of_ne _ _ _ (by rw [h2]; decide), h2]

/-- **truth_overrides_event_fields** (both id styles).  After `update` with an event for id `o` followed by
    `get_latest`, if the provider knows `o` then id, path, hash, existence and type of the entry are functions
    of the provider's truth for `o` alone: not of the path / hash / exists / type fields the event carried, and
    not of what the entry held before (which must not be in the CORRUPT state for the `exists` part, see
    `truth_overrides_needs_not_corrupt`). -/
theorem truth_overrides_event_fields (s : Side) (e : Event) (t now : Nat) (o : Oid) (info : Info)
    (ho : e.oid = some o) (hT : T.info o = some info) (hc : s.ex ≠ .corrupt) :
    let r := getLatest ip norm T now (applyEvent ip norm s e t)
    r.oid = some o ∧ r.path = some (norm info.path) ∧ r.hash = T.resolved o info ∧ r.ex = .present ∧
      r.otype = info.otype := by
  intro r
  have hoid := applyEvent_oid ip norm s e t o ho
  have hr : r = known norm T now o info (applyEvent ip norm s e t) := by
    show getLatest ip norm T now (applyEvent ip norm s e t) = _
    unfold getLatest; rw [hoid]; simp only []; rw [hT]
  rw [hr]
  exact ⟨by rw [known_oid, hoid], known_path norm T now o info _, known_hash norm T now o info _,
         known_ex norm T now o info _ (applyEvent_not_corrupt ip norm s e t hc), known_otype norm T now o info _⟩

/-- the same for a CORRUPT entry, except for `exists` -/
theorem truth_overrides_event_fields_any (s : Side) (e : Event) (t now : Nat) (o : Oid) (info : Info)
    (ho : e.oid = some o) (hT : T.info o = some info) :
    let r := getLatest ip norm T now (applyEvent ip norm s e t)
    r.oid = some o ∧ r.path = some (norm info.path) ∧ r.hash = T.resolved o info ∧ r.otype = info.otype := by
  intro r
  have hoid := applyEvent_oid ip norm s e t o ho
  have hr : r = known norm T now o info (applyEvent ip norm s e t) := by
    show getLatest ip norm T now (applyEvent ip norm s e t) = _
    unfold getLatest; rw [hoid]; simp only []; rw [hT]
  rw [hr]
  exact ⟨by rw [known_oid, hoid], known_path norm T now o info _, known_hash norm T now o info _,
         known_otype norm T now o info _⟩

/-- corollary in the form of the property: two events that touch the same id leave, after `get_latest`, entries
    that agree on id, path, hash, existence and type — whatever path / hash / exists / type each carried, whatever
    the two entries held before -/
theorem event_fields_irrelevant (s₁ s₂ : Side) (e₁ e₂ : Event) (t₁ t₂ n₁ n₂ : Nat) (o : Oid) (info : Info)
    (h₁ : e₁.oid = some o) (h₂ : e₂.oid = some o) (hT : T.info o = some info)
    (c₁ : s₁.ex ≠ .corrupt) (c₂ : s₂.ex ≠ .corrupt) :
    let r₁ := getLatest ip norm T n₁ (applyEvent ip norm s₁ e₁ t₁)
    let r₂ := getLatest ip norm T n₂ (applyEvent ip norm s₂ e₂ t₂)
    r₁.oid = r₂.oid ∧ r₁.path = r₂.path ∧ r₁.hash = r₂.hash ∧ r₁.ex = r₂.ex ∧ r₁.otype = r₂.otype := by
  intro r₁ r₂
  obtain ⟨a1, a2, a3, a4, a5⟩ := truth_overrides_event_fields ip norm T s₁ e₁ t₁ n₁ o info h₁ hT c₁
  obtain ⟨b1, b2, b3, b4, b5⟩ := truth_overrides_event_fields ip norm T s₂ e₂ t₂ n₂ o info h₂ hT c₂
  exact ⟨a1.trans b1.symm, a2.trans b2.symm, a3.trans b3.symm, a4.trans b4.symm, a5.trans b5.symm⟩

/- FALSE for a CORRUPT entry (kept for the record):
theorem truth_overrides_event_fields' … (no hypothesis on s.ex) : … r.ex = .present
   an event that carries a hash different from the entry's un-corrupts it (state.py 131-133); one that carries
   none leaves it CORRUPT, and `get_latest` only records EXISTS in `_saved_exists`. -/
/-- kernel-checked witness: same id, same truth, the two events differ only in the hash they carry -/
theorem truth_overrides_needs_not_corrupt :
    let s : Side := { oid := some "o", path := some "/a", hash := some "h", ex := .corrupt, saved := some .present,
                      otype := .file, changed := 0, lastGotten := 0, ign := .no }
    let T : Truth := { info := fun _ => some { path := "/a", hash := some "h", otype := .file }, hashOid := fun _ => some "h" }
    let e₁ : Event := { otype := .file, oid := some "o", path := none, hash := none, ex := some true }
    let e₂ : Event := { otype := .file, oid := some "o", path := none, hash := some "x", ex := some true }
    (getLatest false id T 5 (applyEvent false id s e₁ 3)).ex = .corrupt ∧
    (getLatest false id T 5 (applyEvent false id s e₂ 3)).ex = .present := by
  decide

/-- any two non-empty delivery sequences (any events, any order, any multiplicity, any times) whose LAST event
    touches `o` end, after `get_latest`, in entries that agree on id, path, hash, existence and type: delay,
    reordering and duplication of the deliveries for one id are invisible once the truth has been re-read -/
theorem applyEvents_not_corrupt (s : Side) (es : List (Event × Nat)) (h : s.ex ≠ .corrupt) :
    (applyEvents ip norm s es).ex ≠ .corrupt := by
  induction es generalizing s with
  | nil => exact h
  | cons x xs ih => exact ih _ (applyEvent_not_corrupt ip norm s x.1 x.2 h)

theorem applyEvents_append (s : Side) (as bs : List (Event × Nat)) :
    applyEvents ip norm s (as ++ bs) = applyEvents ip norm (applyEvents ip norm s as) bs := by
  induction as generalizing s with
  | nil => rfl
  | cons x xs ih => exact ih _

theorem delivery_order_irrelevant (s₁ s₂ : Side) (pre₁ pre₂ : List (Event × Nat)) (e₁ e₂ : Event)
    (t₁ t₂ n₁ n₂ : Nat) (o : Oid) (info : Info)
    (h₁ : e₁.oid = some o) (h₂ : e₂.oid = some o) (hT : T.info o = some info)
    (c₁ : s₁.ex ≠ .corrupt) (c₂ : s₂.ex ≠ .corrupt) :
    let r₁ := getLatest ip norm T n₁ (applyEvents ip norm s₁ (pre₁ ++ [(e₁, t₁)]))
    let r₂ := getLatest ip norm T n₂ (applyEvents ip norm s₂ (pre₂ ++ [(e₂, t₂)]))
    r₁.oid = r₂.oid ∧ r₁.path = r₂.path ∧ r₁.hash = r₂.hash ∧ r₁.ex = r₂.ex ∧ r₁.otype = r₂.otype := by
  intro r₁ r₂
  have e1 : applyEvents ip norm s₁ (pre₁ ++ [(e₁, t₁)]) = applyEvent ip norm (applyEvents ip norm s₁ pre₁) e₁ t₁ := by
    rw [applyEvents_append]; rfl
  have e2 : applyEvents ip norm s₂ (pre₂ ++ [(e₂, t₂)]) = applyEvent ip norm (applyEvents ip norm s₂ pre₂) e₂ t₂ := by
    rw [applyEvents_append]; rfl
  simp only [r₁, r₂, e1, e2]
  exact event_fields_irrelevant ip norm T _ _ e₁ e₂ t₁ t₂ n₁ n₂ o info h₁ h₂ hT
    (applyEvents_not_corrupt ip norm s₁ pre₁ c₁) (applyEvents_not_corrupt ip norm s₂ pre₂ c₂)


/-! ### an id the provider no longer knows: tombstone only -/

theorem noInfo_oid (s : Side) : (noInfo ip s).oid = s.oid := by unfold noInfo; simp only []; (repeat' split) <;> simp
theorem noInfo_path (s : Side) : (noInfo ip s).path = s.path := by unfold noInfo; simp only []; (repeat' split) <;> simp
theorem noInfo_hash (s : Side) : (noInfo ip s).hash = s.hash := by unfold noInfo; simp only []; (repeat' split) <;> simp

/-- on a non-corrupt entry `unconditionally_get_no_info` computes exactly this -/
theorem noInfo_ex (s : Side) (hc : s.ex ≠ .corrupt) :
    (noInfo ip s).ex = (if ip then (if s.ex = .trashed ∨ s.ex = .likely then .trashed else .missing) else .trashed) := by
  obtain ⟨oid, path, hash, ex, saved, otype, changed, lg, ign⟩ := s
  cases ip <;> cases ex <;> simp_all [noInfo, setEx]

/-- in any state (CORRUPT included) the result is never EXISTS, UNKNOWN or LIKELY_TRASHED -/
theorem noInfo_ex_any (s : Side) :
    (noInfo ip s).ex = .trashed ∨ (noInfo ip s).ex = .missing ∨ (noInfo ip s).ex = .corrupt := by
  obtain ⟨oid, path, hash, ex, saved, otype, changed, lg, ign⟩ := s
  cases ip <;> cases ex <;> simp [noInfo, setEx]

/-- **vanished_object_event_is_tombstone_only.**  An event (whatever it claims: exists, a path, a hash, a type)
    for an id the provider does not know leaves, after `get_latest`, a TRASHED / MISSING tombstone (a CORRUPT entry
    stays CORRUPT) and never a creation: `is_creation` is false whatever the other side looks like. -/
theorem vanished_object_event_is_tombstone_only (s : Side) (e : Event) (t now : Nat) (o : Oid)
    (ho : e.oid = some o) (hT : T.info o = none) (syncHash : Option Hash) (pathsDiffer otherGone : Bool) :
    let r := getLatest ip norm T now (applyEvent ip norm s e t)
    (r.ex = .trashed ∨ r.ex = .missing ∨ r.ex = .corrupt) ∧ (s.ex ≠ .corrupt → r.ex ≠ .corrupt) ∧
      isCreation r syncHash pathsDiffer otherGone = false := by
  intro r
  have hoid := applyEvent_oid ip norm s e t o ho
  have hr : r = noInfo ip (applyEvent ip norm s e t) := by
    show getLatest ip norm T now (applyEvent ip norm s e t) = _
    unfold getLatest; rw [hoid]; simp only []; rw [hT]
  have h3 := noInfo_ex_any ip (applyEvent ip norm s e t)
  rw [← hr] at h3
  refine ⟨h3, ?_, ?_⟩
  · intro hc
    rw [hr, noInfo_ex ip _ (applyEvent_not_corrupt ip norm s e t hc)]
    cases ip <;> simp <;> split <;> simp
  · unfold isCreation
    rcases h3 with h | h | h <;> simp [h]

/-- for an id-stable provider the tombstone is TRASHED, whatever the event said and whatever the entry held -/
theorem vanished_object_is_trashed_id_stable (s : Side) (e : Event) (t now : Nat) (o : Oid)
    (ho : e.oid = some o) (hT : T.info o = none) (hc : s.ex ≠ .corrupt) :
    (getLatest false norm T now (applyEvent false norm s e t)).ex = .trashed := by
  have hoid := applyEvent_oid false norm s e t o ho
  have hr : getLatest false norm T now (applyEvent false norm s e t) = noInfo false (applyEvent false norm s e t) := by
    unfold getLatest; rw [hoid]; simp only []; rw [hT]
  rw [hr, noInfo_ex false _ (applyEvent_not_corrupt false norm s e t hc)]
  simp

/-! ### delivering the same event twice -/

/-- the entry just before the `exists` rule of `update_entry` is applied -/
def pre (s : Side) (e : Event) : Side := aHash (aPath norm (aType (aOid ip s e) e) e) e

theorem applyEvent_eq (s : Side) (e : Event) (t : Nat) (h : e.raises = false) :
    applyEvent ip norm s e t = aChanged (aEx (pre ip norm s e) e) e t := by
  unfold applyEvent pre; simp [h]

theorem applyEvent_raises (s : Side) (e : Event) (t : Nat) (h : e.raises = true) :
    applyEvent ip norm s e t = aType (aOid ip s e) e := by
  unfold applyEvent; simp [h]

/-- the id block of `update_entry` does nothing the second time -/
theorem aOid_again (r : Side) (e : Event) (h1 : ∀ o, e.oid = some o → r.oid = some o)
    (h2 : (r.ign.isDiscarded && ip && truthy e.path) = false) : aOid ip r e = r := by
  unfold aOid
  cases ho : e.oid with
  | none => rfl
  | some o =>
    have h3 := h1 o ho
    simp only [h2, Bool.false_eq_true, if_false]
    obtain ⟨oid, path, hash, ex, saved, otype, changed, lg, ign⟩ := r
    simp_all

theorem aType_again (r : Side) (e : Event) (h : r.otype = e.otype) : aType r e = r := by
  unfold aType; simp [h]

theorem aPath_again (r : Side) (e : Event) (h : ∀ p, e.path = some p → r.path = some (norm p)) :
    aPath norm r e = r := by
  unfold aPath
  cases hp : e.path with
  | none => rfl
  | some p => simp [h p hp]

theorem aHash_again (r : Side) (e : Event) (h : ∀ x, e.hash = some x → r.hash = some x) : aHash r e = r := by
  unfold aHash
  cases hp : e.hash with
  | none => rfl
  | some x => simp [h x hp]

theorem aOid_ign (s : Side) (e : Event) (o : Oid) (ho : e.oid = some o) :
    (aOid ip s e).ign = (if (s.ign.isDiscarded && ip && truthy e.path) = true then Ign.no else s.ign) := by
  unfold aOid; rw [ho]; simp only []
  split <;> simp [fresh]

theorem aOid_ign_cond (s : Side) (e : Event) :
    ((aOid ip s e).ign.isDiscarded && ip && truthy e.path) = false ∨ e.oid = none := by
  cases ho : e.oid with
  | none => right; rfl
  | some o =>
    left
    rw [aOid_ign ip s e o ho]
    cases hc : (s.ign.isDiscarded && ip && truthy e.path) with
    | true => simp [Ign.isDiscarded]
    | false => simpa using hc

theorem pre_again (s : Side) (e : Event) (t : Nat) (x : Side)
    (hoid : x.oid = (pre ip norm s e).oid) (hpath : x.path = (pre ip norm s e).path)
    (hhash : x.hash = (pre ip norm s e).hash) (hot : x.otype = (pre ip norm s e).otype)
    (hign : x.ign = (pre ip norm s e).ign) : pre ip norm x e = x := by
  have e1 : aOid ip x e = x := by
    cases ho : e.oid with
    | none => unfold aOid; rw [ho]
    | some o =>
      apply aOid_again
      · intro o' ho'
        rw [hoid]; simp [pre, aOid_oid ip s e o' ho']
      · rw [hign]
        rcases aOid_ign_cond ip s e with h | h
        · simpa [pre] using h
        · rw [ho] at h; cases h
  have e2 : aType x e = x := aType_again x e (by rw [hot]; simp [pre])
  have e3 : aPath norm x e = x := by
    apply aPath_again
    intro p hp
    rw [hpath]; simp [pre, aPath_path, hp]
  have e4 : aHash x e = x := by
    apply aHash_again
    intro h hh
    rw [hhash]; simp [pre, aHash_hash, hh]
  unfold pre
  rw [e1, e2, e3, e4]

theorem aChanged_aEx_aChanged (x : Side) (e : Event) (t₁ t₂ : Nat) :
    aChanged (aEx (aChanged x e t₁) e) e t₂ = aChanged (aEx x e) e t₂ := by
  obtain ⟨oid, path, hash, ex, saved, otype, changed, lg, ign⟩ := x
  cases hacc : e.accurate <;> simp [aChanged, aEx, setEx, hacc] <;> (repeat' split) <;> simp_all

/-- `aEx` is idempotent (since fix `pathid-tombstone-erased-by-stale-event`: a tombstone stays LIKELY_TRASHED
    under repeated "exists" events; before the fix the second delivery turned LIKELY_TRASHED into EXISTS) -/
theorem aEx_twice (m : Side) (e : Event) : aEx (aEx m e) e = aEx m e := by
  obtain ⟨oid, path, hash, ex, saved, otype, changed, lg, ign⟩ := m
  obtain ⟨eot, eoid, epath, ehash, eex, eacc⟩ := e
  rcases eex with _ | _ | _ <;> cases ex <;> simp [aEx, setEx, translate]

/-- **duplicate_event_same_state** (the full DESIGN statement; every provider, no re-read needed): delivering the
    same event a second time leaves exactly the state of delivering it once (at the later time). -/
theorem duplicate_event_same_state (s : Side) (e : Event) (t₁ t₂ : Nat) :
    applyEvent ip norm (applyEvent ip norm s e t₁) e t₂ = applyEvent ip norm s e t₂ := by
  cases hr : e.raises with
  | true =>
    rw [applyEvent_raises ip norm s e t₁ hr, applyEvent_raises ip norm s e t₂ hr, applyEvent_raises ip norm _ e t₂ hr]
    have e1 : aOid ip (aType (aOid ip s e) e) e = aType (aOid ip s e) e := by
      cases ho : e.oid with
      | none => unfold aOid; rw [ho]
      | some o =>
        apply aOid_again
        · intro o' ho'; simp [aOid_oid ip s e o' ho']
        · rcases aOid_ign_cond ip s e with h | h
          · simpa using h
          · rw [ho] at h; cases h
    rw [e1]
    exact aType_again _ _ (by simp)
  | false =>
    rw [applyEvent_eq ip norm s e t₁ hr, applyEvent_eq ip norm s e t₂ hr, applyEvent_eq ip norm _ e t₂ hr]
    have hp : pre ip norm (aChanged (aEx (pre ip norm s e) e) e t₁) e = aChanged (aEx (pre ip norm s e) e) e t₁ :=
      pre_again ip norm s e t₁ _ (by simp) (by simp) (by simp) (by simp) (by simp)
    rw [hp, aChanged_aEx_aChanged, aEx_twice]

/-- any number of further deliveries of the same event -/
theorem duplicate_event_same_state_n (s : Side) (e : Event) (t : Nat) (ts : List Nat) (tl : Nat) :
    applyEvents ip norm (applyEvent ip norm s e t) ((ts ++ [tl]).map (fun x => (e, x))) = applyEvent ip norm s e tl := by
  induction ts generalizing t with
  | nil => simp [applyEvents, duplicate_event_same_state]
  | cons x xs ih =>
    simp only [List.cons_append, List.map_cons, applyEvents]
    rw [duplicate_event_same_state]
    exact ih x

/-- corollaries in the form the property states them: after the truth is re-read -/
theorem duplicate_event_same_state_partial (s : Side) (e : Event) (t₁ t₂ now : Nat) :
    getLatest false norm T now (applyEvent false norm (applyEvent false norm s e t₁) e t₂) =
      getLatest false norm T now (applyEvent false norm s e t₂) := by
  rw [duplicate_event_same_state]

theorem duplicate_event_same_state_known (s : Side) (e : Event) (t₁ t₂ now : Nat) :
    getLatest ip norm T now (applyEvent ip norm (applyEvent ip norm s e t₁) e t₂) =
      getLatest ip norm T now (applyEvent ip norm s e t₂) := by
  rw [duplicate_event_same_state]

/-! ### a tombstone survives stale events (fix `pathid-tombstone-erased-by-stale-event`) -/

/-- TRASHED or LIKELY_TRASHED -/
def Ex.isTomb (x : Ex) : Bool := x == .trashed || x == .likely

theorem aEx_tomb (m : Side) (e : Event) (h : m.ex.isTomb = true) : (aEx m e).ex.isTomb = true := by
  obtain ⟨oid, path, hash, ex, saved, otype, changed, lg, ign⟩ := m
  obtain ⟨eot, eoid, epath, ehash, eex, eacc⟩ := e
  rcases eex with _ | _ | _ <;> cases ex <;> simp_all [aEx, setEx, translate, Ex.isTomb]

/-- whatever an event says ("exists", "unknown", "deleted", any path, any hash, any type), it leaves a tombstone a
    tombstone — unless the entry is a discarded one of a path-id provider, which `update_entry` replaces by a new
    entry (state.py 986-991) -/
theorem tombstone_survives_event (s : Side) (e : Event) (t : Nat) (h : s.ex.isTomb = true)
    (hd : (s.ign.isDiscarded && ip && truthy e.path) = false) : (applyEvent ip norm s e t).ex.isTomb = true := by
  have h0 : (aOid ip s e).ex = s.ex := by
    unfold aOid
    cases e.oid with
    | none => rfl
    | some o => simp only [hd, Bool.false_eq_true, if_false]
  have hne : s.ex ≠ .corrupt := by intro hc; rw [hc] at h; simp [Ex.isTomb] at h
  cases hr : e.raises with
  | true => rw [applyEvent_raises ip norm s e t hr]; simpa [h0] using h
  | false =>
    rw [applyEvent_eq ip norm s e t hr]
    simp only [aChanged_ex]
    apply aEx_tomb
    unfold pre
    rw [aHash_ex_of_ne _ _ (by simpa [h0] using hne)]
    simpa [h0] using h

theorem tombstone_survives_events (s : Side) (es : List (Event × Nat)) (h : s.ex.isTomb = true)
    (hd : s.ign.isDiscarded = false) : (applyEvents ip norm s es).ex.isTomb = true := by
  induction es generalizing s with
  | nil => exact h
  | cons x xs ih =>
    have hd' : (s.ign.isDiscarded && ip && truthy x.1.path) = false := by simp [hd]
    apply ih _ (tombstone_survives_event ip norm s x.1 x.2 h hd')
    -- the entry stays non-discarded: `applyEvent` keeps `ign` when it does not take the `fresh` branch
    have : (applyEvent ip norm s x.1 x.2).ign = (aOid ip s x.1).ign := by
      cases hr : x.1.raises with
      | true => rw [applyEvent_raises ip norm s x.1 x.2 hr]; simp
      | false => rw [applyEvent_eq ip norm s x.1 x.2 hr]; simp [pre]
    rw [this]
    unfold aOid
    cases x.1.oid with
    | none => exact hd
    | some o => simp only [hd', Bool.false_eq_true, if_false]; exact hd

/-- … and when the provider does not know the id, re-reading the truth turns a tombstone into TRASHED — for BOTH id
    styles, never MISSING (MISSING is what makes the engine re-create the object from the other side) -/
theorem noInfo_of_tomb (s : Side) (h : s.ex.isTomb = true) : (noInfo ip s).ex = .trashed := by
  obtain ⟨oid, path, hash, ex, saved, otype, changed, lg, ign⟩ := s
  cases ip <;> cases ex <;> simp_all [noInfo, setEx, Ex.isTomb]

/-- **stale_events_cannot_erase_tombstone**: a deleted entry, then ANY sequence of stale events for it, then a re-read
    of a provider that does not know the id: TRASHED.  (Before the fix: `duplicate_event_pathid_vanished_differs` —
    two "exists" events, or one "unknown" event, gave MISSING on a path-id provider.) -/
theorem stale_events_cannot_erase_tombstone (s : Side) (es : List (Event × Nat)) (now : Nat) (o : Oid)
    (h : s.ex.isTomb = true) (hd : s.ign.isDiscarded = false)
    (ho : (applyEvents ip norm s es).oid = some o) (hT : T.info o = none) :
    (getLatest ip norm T now (applyEvents ip norm s es)).ex = .trashed := by
  unfold getLatest
  rw [ho]
  simp only [hT]
  exact noInfo_of_tomb ip _ (tombstone_survives_events ip norm s es h hd)

/-! ### `get_latest` is idempotent -/

/-- the provider's `hash_oid` agrees with `info_oid` on files whose info carries no hash -/
def Truth.HashConsistent (T : Truth) : Prop :=
  ∀ o info, T.info o = some info → info.otype = .file → info.hash = none → T.hashOid o = none

theorem setEx_same (s : Side) (v : Ex) (h : s.ex = v) : setEx s v = s := by
  obtain ⟨oid, path, hash, ex, saved, otype, changed, lg, ign⟩ := s
  simp only at h
  subst h
  cases ex <;> simp [setEx]

/-- what `exists` / `_saved_exists` look like after the known branch -/
def Settled (r : Side) : Prop := r.ex = .present ∨ (r.ex = .corrupt ∧ r.saved = some .present)

theorem kType_settled (info : Info) (x : Side) : Settled (kType info x) := by
  obtain ⟨oid, path, hash, ex, saved, otype, changed, lg, ign⟩ := x
  cases ex <;> simp [Settled, kType, setEx]

theorem setHash_settled (x : Side) (h : Option Hash) (hx : Settled x) : Settled (setHash x h) := by
  obtain ⟨oid, path, hash, ex, saved, otype, changed, lg, ign⟩ := x
  rcases hx with hx | ⟨hx, hs⟩
  · simp only at hx; subst hx
    simp [Settled, setHash]
  · simp only at hx hs; subst hx; subst hs
    by_cases hh : hash = h
    · simp [Settled, setHash, hh]
    · simp [Settled, setHash, hh, uncorrupt]

theorem kFile_settled (o : Oid) (x : Side) (hx : Settled x) : Settled (kFile T o x) := by
  unfold kFile
  split
  · split
    · exact setHash_settled x _ hx
    · exact hx
  · exact hx

theorem known_settled (now : Nat) (o : Oid) (info : Info) (s : Side) : Settled (known norm T now o info s) := by
  have h := kFile_settled T o _ (kType_settled info (kHash info now s))
  unfold known Settled
  simpa [Settled] using h

theorem kHash_fix (info : Info) (now : Nat) (r : Side) (h : r.hash = info.hash) : kHash info now r = r := by
  unfold kHash; simp [h]

theorem kType_fix (info : Info) (r : Side) (h1 : r.otype = info.otype) (h2 : Settled r) : kType info r = r := by
  obtain ⟨oid, path, hash, ex, saved, otype, changed, lg, ign⟩ := r
  simp only at h1; subst h1
  rcases h2 with h2 | ⟨h2, h3⟩
  · simp only at h2; subst h2; simp [kType, setEx]
  · simp only at h2 h3; subst h2; subst h3; simp [kType, setEx]

theorem kFile_fix (o : Oid) (r : Side) (h : r.otype = .file → r.hash = none → T.hashOid o = none) :
    kFile T o r = r := by
  unfold kFile
  split
  · split
    · rename_i h1 h2
      have := h h1 h2
      obtain ⟨oid, path, hash, ex, saved, otype, changed, lg, ign⟩ := r
      simp only at h2; subst h2
      simp [this, setHash]
    · rfl
  · rfl

theorem kPath_fix (info : Info) (now : Nat) (r : Side) (h : r.path = some (norm info.path)) :
    kPath norm info now r = r := by
  unfold kPath; simp [h]

theorem known_idempotent (hT : T.HashConsistent) (o : Oid) (info : Info) (hi : T.info o = some info)
    (s : Side) (n₁ n₂ : Nat) :
    known norm T n₂ o info (known norm T n₁ o info s) = known norm T n₁ o info s := by
  generalize hr : known norm T n₁ o info s = r
  have hpath : r.path = some (norm info.path) := by rw [← hr]; exact known_path norm T n₁ o info s
  have hot : r.otype = info.otype := by rw [← hr]; exact known_otype norm T n₁ o info s
  have hset : Settled r := by rw [← hr]; exact known_settled norm T n₁ o info s
  have hhash : r.hash = info.hash := by
    rw [← hr, known_hash]
    unfold Truth.resolved
    split
    · rename_i h; rw [hT o info hi h.1 h.2, h.2]
    · rfl
  unfold known
  rw [kHash_fix info n₂ r hhash, kType_fix info r hot hset]
  rw [kFile_fix T o r (by
    intro h1 h2
    exact hT o info hi (by rw [← hot]; exact h1) (by rw [← hhash]; exact h2))]
  exact kPath_fix norm info n₂ r hpath

theorem known_keeps_oid (now : Nat) (o : Oid) (info : Info) (s : Side) (h : s.oid = some o) :
    (known norm T now o info s).oid = some o := by rw [known_oid]; exact h

/-- **getLatest_idempotent**: re-reading the truth twice is re-reading it once — every field, every state, both id
    styles — for a provider whose `hash_oid` agrees with `info_oid` (`HashConsistent`; the mock, and every provider
    whose `info_oid` carries the hash) -/
theorem getLatest_idempotent (hT : T.HashConsistent) (s : Side) (n₁ n₂ : Nat) :
    getLatest ip norm T n₂ (getLatest ip norm T n₁ s) = getLatest ip norm T n₁ s := by
  cases ho : s.oid with
  | none =>
    obtain ⟨oid, path, hash, ex, saved, otype, changed, lg, ign⟩ := s
    simp only at ho; subst ho
    cases ex <;> simp [getLatest, setEx]
  | some o =>
    cases hi : T.info o with
    | none =>
      obtain ⟨oid, path, hash, ex, saved, otype, changed, lg, ign⟩ := s
      simp only at ho; subst ho
      cases ip <;> cases ex <;> simp [getLatest, hi, noInfo, setEx]
    | some info =>
      have e1 : getLatest ip norm T n₁ s = known norm T n₁ o info s := by
        unfold getLatest; rw [ho]; simp only [hi]
      rw [e1]
      have e2 : getLatest ip norm T n₂ (known norm T n₁ o info s) =
          known norm T n₂ o info (known norm T n₁ o info s) := by
        unfold getLatest; rw [known_keeps_oid norm T n₁ o info s ho]; simp only [hi]
      rw [e2]
      exact known_idempotent norm T hT o info hi s n₁ n₂

/- FALSE without `HashConsistent` (kept for the record): `getLatest_idempotent` for every truth -/
/-- kernel-checked witness: `info_oid` reports no hash, `hash_oid` does: the second `get_latest` sees a "new" hash
    (None) and marks an unchanged, synced entry as changed -/
theorem getLatest_not_idempotent_when_hashes_disagree :
    let s : Side := { oid := some "o", path := some "/a", hash := none, ex := .present, saved := none,
                      otype := .file, changed := 0, lastGotten := 0, ign := .no }
    let T : Truth := { info := fun _ => some { path := "/a", hash := none, otype := .file }, hashOid := fun _ => some "h" }
    (getLatest false id T 5 s).changed = 0 ∧ (getLatest false id T 7 (getLatest false id T 5 s)).changed = 7 := by
  decide

/-! ### an event makes the entry stale: `pre_sync`'s plain `get_latest()` re-reads the truth -/

theorem applyEvent_lastGotten (s : Side) (e : Event) (t : Nat) (h : e.raises = false) (ha : e.accurate = false) :
    (applyEvent ip norm s e t).lastGotten = (aOid ip s e).lastGotten := by
  rw [applyEvent_eq ip norm s e t h]
  simp [aChanged, ha, pre]

theorem aOid_lastGotten_le (s : Side) (e : Event) : (aOid ip s e).lastGotten ≤ s.lastGotten := by
  unfold aOid
  cases e.oid with
  | none => exact Nat.le_refl _
  | some o => simp only []; split <;> simp [fresh]

/-- **event_forces_reread**: after any event that is not flagged `accurate`, delivered at a time later than the last
    read, the non-forced `get_latest()` of `pre_sync` (manager.py 369) does re-read the provider, whatever the
    other side's change time is -/
theorem event_forces_reread (s : Side) (e : Event) (t now oc : Nat) (h : e.raises = false)
    (ha : e.accurate = false) (hlt : s.lastGotten < t) :
    getLatestMaybe ip norm T now false oc (applyEvent ip norm s e t) =
      { getLatest ip norm T now (applyEvent ip norm s e t) with lastGotten := max t oc } := by
  unfold getLatestMaybe
  have h1 := applyEvent_changed ip norm s e t h
  have h2 := applyEvent_lastGotten ip norm s e t h ha
  have h3 := aOid_lastGotten_le ip s e
  simp only [h1]
  rw [if_pos]
  right
  rw [h2]
  omega

/-! ### the event layer: `_process_event` (event.py 283-313) -/

/-- **idless_event_dropped**: an event without id is dropped — `state.update` is not called — unless it is a folder
    delete whose path is known -/
theorem idless_event_dropped (idx : List Side) (e : Event) (fw : Bool) (ho : e.oid = none)
    (h : ¬ (e.ex = some false ∧ truthy e.path = true ∧ e.otype = .dir) ∨ lookupPath idx (e.path.getD "") = []) :
    processEvent idx e fw = .dropped := by
  have hf : fillOid idx e = e := by
    unfold fillOid
    rw [ho]
    rcases h with h | h
    · simp only [if_neg h]
    · simp only [h]; split <;> rfl
  unfold processEvent
  simp [hf, ho]

/-- a known path whose first entry has no id is dropped too -/
theorem idless_event_dropped_idless_entry (idx : List Side) (e : Event) (fw : Bool) (ho : e.oid = none)
    (k : Side) (ks : List Side) (hk : lookupPath idx (e.path.getD "") = k :: ks) (hko : k.oid = none) :
    processEvent idx e fw = .dropped := by
  have hf : (fillOid idx e).oid = none := by
    unfold fillOid
    rw [ho]
    simp only [hk]
    split <;> simp [hko, ho]
  unfold processEvent
  simp [hf]

/-- **folder_delete_matched_by_path**: an id-less delete of a folder whose path the state knows is given the id of the
    first live entry at that path and passed on to `state.update` (as a delete of THAT id, with the path it carried) -/
theorem folder_delete_matched_by_path (idx : List Side) (e : Event) (p : Path) (k : Side) (ks : List Side) (o : Oid)
    (ho : e.oid = none) (hx : e.ex = some false) (hp : e.path = some p) (hpt : p ≠ "") (hd : e.otype = .dir)
    (hk : lookupPath idx p = k :: ks) (hko : k.oid = some o) :
    processEvent idx e false = .update { e with oid := some o } := by
  have ht : truthy e.path = true := by simp [hp, truthy, hpt]
  have hc : e.ex = some false ∧ truthy e.path = true ∧ e.otype = OT.dir := ⟨hx, ht, hd⟩
  have hf : fillOid idx e = { e with oid := some o } := by
    unfold fillOid
    rw [ho]
    simp only []
    rw [if_pos hc]
    simp only [hp, Option.getD_some, hk, hko]
  unfold processEvent
  simp [hf, walkNoop, fillPath, ht]

/-- **walk_event_noop_when_nothing_differs**: a walk event for an id the state knows, with the hash and the path the
    state has, does not reach `state.update` at all -/
theorem walk_event_noop_when_nothing_differs (idx : List Side) (e : Event) (o : Oid) (a : Side)
    (ho : e.oid = some o) (ha : lookupOid idx o = some a) (hh : a.hash = e.hash) (hp : a.path = e.path) :
    processEvent idx e true = .walkNoop := by
  have hf : fillOid idx e = e := by unfold fillOid; rw [ho]
  unfold processEvent
  simp [hf, ho, walkNoop, ha, hh, hp]

/-- … and conversely every other walk event, and every ordinary event with an id, is passed on with its id, hash,
    exists flag and type (and its path, if it carries one) -/
theorem event_with_id_is_passed_on (idx : List Side) (e : Event) (fw : Bool) (o : Oid) (ho : e.oid = some o)
    (h : fw = false ∨ lookupOid idx o = none ∨ ∃ a, lookupOid idx o = some a ∧ (a.hash ≠ e.hash ∨ a.path ≠ e.path)) :
    ∃ e', processEvent idx e fw = .update e' ∧ e'.oid = some o ∧ e'.hash = e.hash ∧ e'.ex = e.ex ∧
      e'.otype = e.otype ∧ (truthy e.path = true → e'.path = e.path) := by
  have hf : fillOid idx e = e := by unfold fillOid; rw [ho]
  have hn : walkNoop idx e o fw = false := by
    unfold walkNoop
    rcases h with h | h | ⟨a, h, h'⟩
    · simp [h]
    · simp [h]
    · rcases h' with h' | h' <;> simp [h, h']
  refine ⟨fillPath idx e o, ?_, ?_, ?_, ?_, ?_, ?_⟩
  · unfold processEvent; simp [hf, ho, hn]
  all_goals (unfold fillPath; split)
  all_goals (try split)
  all_goals simp_all

/-- non-vacuity: concrete states satisfying the hypotheses of the theorems above -/
example :
    let s : Side := { oid := some "o1", path := some "/r/a", hash := some "h1", ex := .trashed, saved := none,
                      otype := .file, changed := 0, lastGotten := 2, ign := .no }
    let e : Event := { otype := .file, oid := some "o1", path := some "/r/zzz", hash := some "bogus", ex := some true }
    let T : Truth := { info := fun o => if o = "o1" then some { path := "/r/b", hash := some "h2", otype := .file } else none,
                       hashOid := fun _ => none }
    let r := getLatest false id T 9 (applyEvent false id s e 5)
    s.ex ≠ .corrupt ∧ T.HashConsistent ∧ (applyEvent false id s e 5).ex = .likely ∧
    (applyEvent false id (applyEvent false id s e 5) e 6).ex = .likely ∧ s.ex.isTomb = true ∧
    r.path = some "/r/b" ∧ r.hash = some "h2" ∧ r.ex = .present ∧
    processEvent [s] { e with oid := none } false = .dropped ∧
    processEvent [s] { e with hash := some "h1", path := some "/r/a" } true = .walkNoop := by
  refine ⟨by decide, ?_, by decide, by decide, by decide, by decide, by decide, by decide, by decide, by decide⟩
  intro o info h1 h2 h3
  rfl

/-! ### tombstones are invisible to live lookups and to the missing-parent recovery -/

theorem lookupPathS_false (idx : List Side) (p : Path) : lookupPathS idx p false = lookupPath idx p := by
  unfold lookupPathS lookupPath
  congr 1
  funext s
  simp [Bool.and_assoc]

/-- **live_lookup_never_returns_tombstone**: `lookup_path` without `stale` never returns a discarded (or conflicted) entry -/
theorem live_lookup_never_returns_tombstone (idx : List Side) (p : Path) (s : Side) (h : s ∈ lookupPathS idx p false) :
    s.ign.isDiscarded = false ∧ s.ign.isConflicted = false ∧ s.path = some p ∧ s ∈ idx := by
  unfold lookupPathS at h
  rw [List.mem_filter] at h
  obtain ⟨hm, hc⟩ := h
  simp at hc
  exact ⟨hc.2.1, hc.2.2, hc.1, hm⟩

/-- the stale lookup returns every entry indexed under the path, tombstones included -/
theorem stale_lookup_returns_tombstones (idx : List Side) (p : Path) (s : Side) (hm : s ∈ idx) (hp : s.path = some p) :
    s ∈ lookupPathS idx p true := by
  unfold lookupPathS
  rw [List.mem_filter]
  exact ⟨hm, by simp [hp]⟩

/-- the live lookup only depends on the live entries of the index -/
theorem live_lookup_depends_on_live_only (idx : List Side) (p : Path) :
    lookupPathS idx p false = lookupPathS (idx.filter Side.live) p false := by
  unfold lookupPathS Side.live
  rw [List.filter_filter]
  congr 1
  funext s
  cases s.ign <;> simp [Ign.isDiscarded, Ign.isConflicted]

/-- **fnf_parent_decision_depends_on_live_only**: the "parent known?" decision of the handler is a function of the LIVE
    entries: two indexes with the same live entries (whatever tombstones they hold, wherever) decide alike -/
theorem fnf_parent_decision_depends_on_live_only (idx idx' : List Side) (parent : Path) (prio : Nat) (has : Bool)
    (h : idx.filter Side.live = idx'.filter Side.live) :
    fnfParent false idx parent prio has = fnfParent false idx' parent prio has := by
  unfold fnfParent
  rw [live_lookup_depends_on_live_only idx, live_lookup_depends_on_live_only idx', h]

/-- adding or removing tombstones anywhere in the index changes nothing -/
theorem fnf_ignores_tombstones (pre post : List Side) (tomb : Side) (parent : Path) (prio : Nat) (has : Bool)
    (ht : tomb.live = false) :
    fnfParent false (pre ++ tomb :: post) parent prio has = fnfParent false (pre ++ post) parent prio has := by
  apply fnf_parent_decision_depends_on_live_only
  simp [List.filter_append, List.filter_cons, ht]

/-- **fnf_injects_parent_when_no_live_entry**: no live entry for the parent path, the provider has the folder, the child
    has not been punted out: the synthetic parent event is injected — however many tombstones the path has -/
theorem fnf_injects_parent_when_no_live_entry (idx : List Side) (parent : Path) (prio : Nat)
    (hp : prio ≤ 5) (hl : ∀ s ∈ idx, s.path = some parent → s.live = false) :
    fnfParent false idx parent prio true = .injectParent := by
  unfold fnfParent
  have h5 : ¬ prio > 5 := by omega
  have : lookupPathS idx parent false = [] := by
    unfold lookupPathS
    rw [List.filter_eq_nil_iff]
    intro s hs
    by_cases hpath : s.path = some parent
    · have := hl s hs hpath
      unfold Side.live at this
      simp [hpath]
      intro h1
      cases hd : s.ign.isDiscarded <;> simp_all
    · simp [hpath]
  simp [h5, this]

/-- decision table of the first step, complete -/
theorem fnf_decision_table (idx : List Side) (parent : Path) (prio : Nat) (has : Bool) :
    fnfParent false idx parent prio has =
      (if prio > 5 then .tooManyRetries
       else match lookupPath idx parent with
         | [] => if has then .injectParent else .noInfo
         | k :: _ => .useEntry k) := by
  unfold fnfParent
  rw [lookupPathS_false]
  split
  · rfl
  · rfl

/- FALSE for the stale lookup (kept for the record): `fnf_injects_parent_when_no_live_entry` with `fnfParent true` -/
/-- kernel-checked witness: ONE tombstone of an earlier, deleted folder on the parent path: the stale variant takes the dead
    entry for the parent and never injects the parent event; the live variant injects it -/
theorem stale_lookup_blocks_parent_injection :
    let tomb : Side := { oid := some "o1", path := some "/r/d", hash := none, ex := .trashed, saved := none,
                         otype := .dir, changed := 0, lastGotten := 0, ign := .discarded }
    fnfParent false [tomb] "/r/d" 0 true = .injectParent ∧ fnfParent true [tomb] "/r/d" 0 true = .useEntry tomb ∧
    tomb.live = false := by
  decide

end CS.Hints

/-! ## Part 2 — the outcome relation the trace-refinement layer decides (Model/Spec/Mangle.lean) -/
namespace CS.Spec
set_option linter.unusedVariables false

theorem countOf_nil (x : String) : countOf x [] = 0 := rfl

theorem countOf_cons (x y : String) (l : List String) :
    countOf x (y :: l) = (if y = x then 1 else 0) + countOf x l := by
  unfold countOf
  by_cases h : y = x
  · simp [h]; omega
  · have : (y == x) = false := by simpa using h
    simp [this, h]

theorem countOf_pos_iff (x : String) (l : List String) : 0 < countOf x l ↔ x ∈ l := by
  induction l with
  | nil => simp [countOf]
  | cons y ys ih =>
    rw [countOf_cons]
    by_cases h : y = x
    · subst h; simp; omega
    · have h' : ¬ x = y := fun e => h e.symm
      simp [h, h', ih]

/-- `msub b a` is multiset inclusion: no key occurs more often in `b` than in `a` -/
theorem msub_iff (b a : List String) : msub b a = true ↔ ∀ x, countOf x b ≤ countOf x a := by
  unfold msub
  rw [List.all_eq_true]
  constructor
  · intro h x
    by_cases hx : x ∈ b
    · simpa using h x hx
    · have : countOf x b = 0 := by
        have h0 : ¬ 0 < countOf x b := fun h0 => hx ((countOf_pos_iff x b).mp h0)
        omega
      omega
  · intro h x _
    simpa using h x

theorem msub_refl (a : List String) : msub a a = true := (msub_iff a a).mpr (fun _ => Nat.le_refl _)

theorem msub_trans (c b a : List String) (h1 : msub c b = true) (h2 : msub b a = true) : msub c a = true :=
  (msub_iff c a).mpr (fun x => Nat.le_trans ((msub_iff c b).mp h1 x) ((msub_iff b a).mp h2 x))

/-- every write of the mangled run is a write of the prompt run -/
theorem msub_mem (b a : List String) (h : msub b a = true) (x : String) (hx : x ∈ b) : x ∈ a := by
  have h1 := (countOf_pos_iff x b).mpr hx
  have h2 := (msub_iff b a).mp h x
  exact (countOf_pos_iff x a).mp (by omega)

/-- **what a verdict "ok" of the layer `monc14` means**: the mangled run B is converged; on every path both of its
    sides hold exactly what the prompt run A holds; every `.conflicted` artefact of B exists in A; and B issued no
    effective write (transfer, deletion, move, mkdir — as keyed by the harness) more often than A. -/
theorem mangledOk_sound (A B : MangleOutcome) (h : mangledOk A B = true) :
    converged B.l B.r = true ∧ (∀ p, B.l.get p = A.l.get p) ∧ (∀ p, B.r.get p = A.r.get p) ∧
    (∀ p ∈ B.l.conflicts, A.l.has p = true) ∧ (∀ p ∈ B.r.conflicts, A.r.has p = true) ∧
    (∀ x, countOf x B.calls ≤ countOf x A.calls) ∧ (∀ x ∈ B.calls, x ∈ A.calls) := by
  unfold mangledOk at h
  simp only [Bool.and_eq_true] at h
  obtain ⟨⟨⟨⟨⟨h1, h2⟩, h3⟩, h4⟩, h5⟩, h6⟩ := h
  refine ⟨h1, fun p => Tree.get_eq_of_sameAs h2 p, fun p => Tree.get_eq_of_sameAs h3 p, ?_, ?_,
          (msub_iff _ _).mp h6, msub_mem _ _ h6⟩
  · intro p hp; exact (List.all_eq_true.mp h4) p hp
  · intro p hp; exact (List.all_eq_true.mp h5) p hp

theorem noNewConflicts_refl (t : Tree) : noNewConflicts t t = true := by
  unfold noNewConflicts Tree.conflicts
  rw [List.all_eq_true]
  intro p hp
  rw [List.mem_map] at hp
  obtain ⟨e, he, rfl⟩ := hp
  rw [List.mem_filter] at he
  unfold Tree.has
  rw [List.any_eq_true]
  exact ⟨e, he.1, by simp⟩

/-- a run compared with itself is accepted (the relation is not vacuous, and an unmangled "mangled" run passes) -/
theorem mangledOk_refl (A : MangleOutcome) (hl : A.l.WF) (hr : A.r.WF) (hc : converged A.l A.r = true) :
    mangledOk A A = true := by
  unfold mangledOk
  simp [hc, Tree.sameAs_refl hl, Tree.sameAs_refl hr, noNewConflicts_refl, msub_refl]

theorem noNewConflicts_trans (a b c : Tree) (hab : b.sameAs a = true)
    (h1 : noNewConflicts a b = true) (h2 : noNewConflicts b c = true) : noNewConflicts a c = true := by
  unfold noNewConflicts at *
  rw [List.all_eq_true] at *
  intro p hp
  have hb := h2 p hp
  rw [Tree.has_eq_isSome] at hb ⊢
  rw [← Tree.get_eq_of_sameAs hab p]
  exact hb

/-- mangling a mangled run: acceptance composes (so the kinds of mangling may be combined and iterated) -/
theorem mangledOk_trans (A B C : MangleOutcome) (h1 : mangledOk A B = true) (h2 : mangledOk B C = true) :
    mangledOk A C = true := by
  unfold mangledOk at *
  simp only [Bool.and_eq_true] at *
  obtain ⟨⟨⟨⟨⟨a1, a2⟩, a3⟩, a4⟩, a5⟩, a6⟩ := h1
  obtain ⟨⟨⟨⟨⟨b1, b2⟩, b3⟩, b4⟩, b5⟩, b6⟩ := h2
  exact ⟨⟨⟨⟨⟨b1, Tree.sameAs_trans b2 a2⟩, Tree.sameAs_trans b3 a3⟩,
    noNewConflicts_trans _ _ _ a2 a4 b4⟩, noNewConflicts_trans _ _ _ a3 a5 b5⟩, msub_trans _ _ _ b6 a6⟩

/-- a deletion (any write) the prompt run does not have is rejected -/
theorem mangledOk_rejects_extra_write (A B : MangleOutcome) (x : String) (hx : x ∈ B.calls) (hn : x ∉ A.calls) :
    mangledOk A B = false := by
  cases h : mangledOk A B with
  | false => rfl
  | true => exact absurd ((mangledOk_sound A B h).2.2.2.2.2.2 x hx) hn

/-- replaying the tree as walk events: accepted only if nothing was written and no path changed -/
theorem replayQuiet_sound (lb rb la ra : Tree) (n : Nat) (h : replayQuiet lb rb la ra n = true) :
    n = 0 ∧ (∀ p, lb.get p = la.get p) ∧ (∀ p, rb.get p = ra.get p) := by
  unfold replayQuiet at h
  simp only [Bool.and_eq_true, beq_iff_eq] at h
  exact ⟨h.2, fun p => Tree.get_eq_of_sameAs h.1.1 p, fun p => Tree.get_eq_of_sameAs h.1.2 p⟩

/-- non-vacuity: an accepted pair, and the three kinds of rejection -/
example :
    let A : MangleOutcome := { l := [(["a"], .file 1), (["d"], .dir)], r := [(["d"], .dir), (["a"], .file 1)], calls := ["1:put:F1", "1:mkdir:/d"] }
    mangledOk A { A with calls := ["1:mkdir:/d"] } = true ∧
    mangledOk A { A with calls := ["1:put:F1", "1:put:F1", "1:mkdir:/d"] } = false ∧
    mangledOk A { A with l := [(["a"], .file 1)], r := [(["a"], .file 1)] } = false ∧
    mangledOk A { A with l := A.l ++ [(["a.conflicted"], .file 2)] } = false := by
  decide

end CS.Spec

