import Csverif.Proofs.Storage
import Csverif.Proofs.StoragePaged
import Csverif.Proofs.StorageConn
/-
C09 — storage backends behave as a tag-isolated map of rows.
Model: Model/Storage.lean (SqliteStorage statement semantics; MockStorage fixture).
-/
namespace CS.Storage
open Sqlite
set_option linter.unusedSectionVars false
set_option linter.unusedVariables false
variable {V : Type} [DecidableEq V]

/-- Refinement, one step: from any table satisfying the primary-key invariant, every interface
    operation returns what the reference map returns and moves the abstraction exactly as the
    reference map moves (create returns an id no live row of *any* tag uses). -/
theorem sqlite_step_refines (t : Table V) (h : Inv t) (op : Op V) :
    Spec.stepOk (abs t) op (step t op).2 (abs (step t op).1) := by
  cases op with
  | create tag v =>
    refine ⟨maxId t + 1, rfl, ?_, abs_create t tag v⟩
    intro tg
    simp only [abs, Option.map_eq_none_iff]
    exact find_none_of_fresh t tg _ (by omega)
  | update tag v eid =>
    cases eid with
    | none =>
      have : t.filter (hits tag none) = [] := by
        rw [List.filter_eq_nil_iff]; intro r _; simp [hits_none]
      simp [Spec.stepOk, step, this]
    | some n =>
      simp only [Spec.stepOk, step, filter_hits_length t h tag n]
      by_cases hn : abs t tag n = none
      · left; simp [hn]
      · right
        refine ⟨hn, ?_, ?_⟩
        · simp [hn]
        · simp only [hn, if_false]
          exact abs_update t tag n v hn
  | delete tag eid =>
    cases eid with
    | none =>
      refine ⟨rfl, ?_⟩
      simp only [step]
      congr 1
      rw [List.filter_eq_self]
      intro r _; simp [hits_none]
    | some n => exact ⟨rfl, abs_delete t tag n⟩
  | read tag eid =>
    cases eid with
    | none =>
      refine ⟨?_, rfl⟩
      simp only [step]
      have : t.find? (hits tag none) = none := by
        rw [List.find?_eq_none]; intro r _; simp [hits_none]
      simp [this]
    | some n => exact ⟨rfl, rfl⟩
  | readAll o =>
    cases o with
    | none =>
      refine ⟨rfl, _, rfl, ?_⟩
      intro tg n v
      rw [abs_eq_some_iff t h]
      simp only [List.mem_map]
      constructor
      · rintro ⟨r, hr, he⟩
        obtain ⟨a, b, c⟩ := r
        simp at he
        obtain ⟨h1, h2, h3⟩ := he
        subst h1; subst h2; subst h3
        exact hr
      · intro hm; exact ⟨_, hm, rfl⟩
    | some tag =>
      refine ⟨rfl, _, rfl, ?_⟩
      intro tg n v
      simp only [List.mem_map, List.mem_filter, beq_iff_eq]
      constructor
      · rintro ⟨r, ⟨hr, ht⟩, he⟩
        obtain ⟨a, b, c⟩ := r
        simp at he ht
        obtain ⟨h1, h2, h3⟩ := he
        subst h1; subst h2; subst h3
        exact ⟨ht, (abs_eq_some_iff t h _ _ _).2 hr⟩
      · rintro ⟨ht, hm⟩
        subst ht
        exact ⟨_, ⟨(abs_eq_some_iff t h _ _ _).1 hm, rfl⟩, rfl⟩
  | reopen => exact ⟨rfl, rfl⟩

/-- The invariant holds in every reachable table (induction over the operation sequence). -/
theorem sqlite_inv_run (ops : List (Op V)) (t : Table V) (h : Inv t) : Inv (run t ops).1 := by
  induction ops generalizing t with
  | nil => exact h
  | cons op ops ih => simp only [run]; exact ih _ (inv_step t op h)

/-- Refinement for every operation sequence: the backend's results are exactly those of the
    reference map, whatever the history (no bound on its length). -/
def SpecRun : Spec.M V → List (Op V) → List (Res V) → Spec.M V → Prop
  | m, [], [], m' => m' = m
  | m, op :: ops, r :: rs, m' => ∃ m1, Spec.stepOk m op r m1 ∧ SpecRun m1 ops rs m'
  | _, _, _, _ => False

theorem sqlite_refines_map (ops : List (Op V)) (t : Table V) (h : Inv t) :
    SpecRun (abs t) ops (run t ops).2 (abs (run t ops).1) := by
  induction ops generalizing t with
  | nil => simp [run, SpecRun]
  | cons op ops ih =>
    simp only [run, SpecRun]
    exact ⟨_, sqlite_step_refines t h op, ih _ (inv_step t op h)⟩

theorem sqlite_init_inv : Sqlite.Inv ([] : Table V) := by simp [Sqlite.Inv]

/-! Corollaries in the property's own words -/

/-- create returns an id that no live row (of any tag) is using -/
theorem create_fresh (t : Table V) (tag : Tag) (v : V) (n : Nat)
    (hr : (step t (.create tag v)).2 = .id n) : ∀ tg, abs t tg n = none := by
  simp only [step, Res.id.injEq] at hr
  subst hr
  intro tg
  simp only [abs, Option.map_eq_none_iff]
  exact find_none_of_fresh t tg _ (by omega)

/-- read returns exactly the bytes last written for that tag and id -/
theorem read_your_write (t : Table V) (h : Inv t) (tag : Tag) (v : V) :
    ∃ n, (step t (.create tag v)).2 = .id n ∧
      (step (step t (.create tag v)).1 (.read tag (some n))).2 = .val (some v) := by
  refine ⟨maxId t + 1, rfl, ?_⟩
  have := abs_create t tag v
  simp only [step]
  change Res.val (abs (t ++ [{ id := maxId t + 1, tag := tag, val := v }]) tag (maxId t + 1)) = _
  rw [this]; simp [Spec.set]

theorem read_after_update (t : Table V) (tag : Tag) (n : Nat) (v : V) (hf : abs t tag n ≠ none) :
    (step (step t (.update tag v (some n))).1 (.read tag (some n))).2 = .val (some v) := by
  have hne : ((t.filter (hits tag (some n))).length == 0) = false := by
    simp only [beq_eq_false_iff_ne, ne_eq, List.length_eq_zero_iff, List.filter_eq_nil_iff]
    intro hall
    apply hf
    simp only [abs, Option.map_eq_none_iff]
    rw [List.find?_eq_none]; exact hall
  have hst : (step t (.update tag v (some n))).1 =
      t.map (fun r => if hits tag (some n) r then { r with val := v } else r) := by
    simp only [step, hne]; rfl
  rw [hst]
  change Res.val (abs _ tag n) = _
  rw [abs_update t tag n v hf]; simp [Spec.set]

/-- update of a missing row is an error and changes nothing -/
theorem update_missing_is_error (t : Table V) (h : Inv t) (tag : Tag) (n : Nat) (v : V)
    (hm : abs t tag n = none) : step t (.update tag v (some n)) = (t, .valueError) := by
  have := filter_hits_length t h tag n
  simp only [hm, if_true] at this
  simp [step, this]

/-- delete is idempotent -/
theorem delete_idempotent (t : Table V) (tag : Tag) (eid : Option Nat) :
    (step (step t (.delete tag eid)).1 (.delete tag eid)).1 = (step t (.delete tag eid)).1 := by
  simp only [step, List.filter_filter]
  congr 1
  funext r; simp

/-- an operation on one tag never affects another tag, even when ids coincide -/
theorem tag_isolation (t : Table V) (h : Inv t) (op : Op V) (tag other : Tag) (hne : other ≠ tag)
    (hop : match op with
      | .create tg _ => tg = tag | .update tg _ _ => tg = tag | .delete tg _ => tg = tag
      | _ => True) (n : Nat) (hlive : abs t other n ≠ none) :
    abs (step t op).1 other n = abs t other n := by
  have hs := sqlite_step_refines t h op
  cases op with
  | create tg v =>
    obtain ⟨k, _, hfresh, he⟩ := hs
    rw [he]; simp only [Spec.set]
    rw [if_neg]; intro ⟨h1, _⟩; exact hne (h1.trans hop)
  | update tg v eid =>
    cases eid with
    | none => exact congrFun (congrFun hs.2 other) n
    | some k =>
      rcases hs with ⟨_, _, he⟩ | ⟨_, _, he⟩
      · rw [he]
      · rw [he]; simp only [Spec.set]; rw [if_neg]; intro ⟨h1, _⟩; exact hne (h1.trans hop)
  | delete tg eid =>
    cases eid with
    | none => exact congrFun (congrFun hs.2 other) n
    | some k => rw [hs.2]; simp only [Spec.set]; rw [if_neg]; intro ⟨h1, _⟩; exact hne (h1.trans hop)
  | read tg eid => rfl
  | readAll o => cases o <;> rfl
  | reopen => rfl

/-- closing and reopening the file is the identity on the model (durability itself is SQLite's) -/
theorem reopen_identity (t : Table V) : (step t .reopen).1 = t := rfl

/-- no lost write under concurrency, given statement atomicity (the class holds a mutex around every
    `execute`): any interleaving of the callers' operations is some operation sequence, and for every
    operation sequence without deletes each created row is still live at the end. -/
theorem creates_survive (ops : List (Op V)) (t : Table V) (h : Inv t)
    (hnd : ∀ op ∈ ops, ∀ tg e, op ≠ .delete tg e) (tag : Tag) (n : Nat) (hl : abs t tag n ≠ none) :
    abs (run t ops).1 tag n ≠ none := by
  induction ops generalizing t with
  | nil => exact hl
  | cons op ops ih =>
    simp only [run]
    apply ih _ (inv_step t op h) (fun o ho => hnd o (List.mem_cons_of_mem _ ho))
    have hs := sqlite_step_refines t h op
    cases op with
    | create tg v =>
      obtain ⟨k, _, hfresh, he⟩ := hs
      rw [he]; simp only [Spec.set]; split
      · simp
      · exact hl
    | update tg v eid =>
      cases eid with
      | none => rw [hs.2]; exact hl
      | some k =>
        rcases hs with ⟨_, _, he⟩ | ⟨_, _, he⟩
        · rw [he]; exact hl
        · rw [he]; simp only [Spec.set]; split
          · simp
          · exact hl
    | delete tg e => exact absurd rfl (hnd _ (List.mem_cons_self) tg e)
    | read tg e => exact hl
    | readAll o => cases o <;> exact hl
    | reopen => exact hl

/-! ### Size independence of `read_all`

Nothing above bounds the number of rows.  The statements below make the `read_all` clause explicit for every reachable
table of any size: the result is exactly the live rows of the tag (or of all tags) in strictly increasing id order, this
determines the result uniquely, and a keyset-paged reader with the correct cursor rule returns the very same rows for
EVERY page size `p ≥ 1` — paging must be invisible.  The off-by-one cursor rule (`pos = last id + 1` with a strict
`id > pos`) is not: it loses the row after a full page, for every page size (`paged_off_by_one_loses_row`). -/

/-- id order and ids ≥ 1 hold in every table reachable from the empty one (induction over the operation list) -/
theorem sqlite_inv2_run (ops : List (Op V)) (t : Table V) (h : Inv2 t) : Inv2 (run t ops).1 := inv2_run ops t h

theorem sqlite_init_inv2 : Inv2 ([] : Table V) := inv2_nil

/-- `read_all` returns exactly the live rows of the tag (all tags for `none`), in strictly increasing id order,
    for every table with the id-order invariant -/
theorem read_all_exact_inv (t : Table V) (h : Inv2 t) (tag : Option Tag) :
    ∃ rs, (step t (.readAll tag)).2 = .rows rs ∧ rs.Pairwise (fun a b => a.2.1 < b.2.1) ∧
      ∀ tg n v, (tg, n, v) ∈ rs ↔ ((tag = none ∨ tag = some tg) ∧ abs t tg n = some v) := by
  have hinv : Inv t := h.1.inv
  have hs := sqlite_step_refines t hinv (.readAll tag)
  cases tag with
  | none =>
    obtain ⟨_, rs, hrs, hmem⟩ := hs
    refine ⟨rs, hrs, ?_, fun tg n v => by rw [hmem]; simp⟩
    simp only [step, Res.rows.injEq] at hrs
    subst hrs
    rw [List.pairwise_map]
    exact h.1
  | some tag =>
    obtain ⟨_, rs, hrs, hmem⟩ := hs
    refine ⟨rs, hrs, ?_, fun tg n v => ?_⟩
    · simp only [step, Res.rows.injEq] at hrs
      subst hrs
      rw [List.pairwise_map]
      exact sorted_filter h.1 _
    · rw [hmem]
      constructor
      · rintro ⟨a, b⟩; exact ⟨Or.inr (by rw [a]), b⟩
      · rintro ⟨a | a, b⟩
        · cases a
        · exact ⟨(Option.some.inj a).symm, b⟩

/-- … in particular after every operation sequence, whatever its length and however many rows it leaves -/
theorem read_all_exact (ops : List (Op V)) (tag : Option Tag) :
    ∃ rs, (step (run ([] : Table V) ops).1 (.readAll tag)).2 = .rows rs ∧ rs.Pairwise (fun a b => a.2.1 < b.2.1) ∧
      ∀ tg n v, (tg, n, v) ∈ rs ↔ ((tag = none ∨ tag = some tg) ∧ abs (run ([] : Table V) ops).1 tg n = some v) :=
  read_all_exact_inv _ (inv2_run ops [] inv2_nil) tag

/-- "the live rows in id order" is one list: two strictly id-ordered lists with the same members are equal -/
theorem read_all_unique (rs rs' : List (Tag × Nat × V))
    (h : rs.Pairwise (fun a b => a.2.1 < b.2.1)) (h' : rs'.Pairwise (fun a b => a.2.1 < b.2.1))
    (hm : ∀ x, x ∈ rs ↔ x ∈ rs') : rs = rs' := by
  induction rs generalizing rs' with
  | nil =>
    cases rs' with
    | nil => rfl
    | cons y ys => exact absurd ((hm y).2 List.mem_cons_self) (by simp)
  | cons x xs ih =>
    cases rs' with
    | nil => exact absurd ((hm x).1 List.mem_cons_self) (by simp)
    | cons y ys =>
      obtain ⟨hx, hxs⟩ := List.pairwise_cons.1 h
      obtain ⟨hy, hys⟩ := List.pairwise_cons.1 h'
      have hxy : x = y := by
        rcases List.mem_cons.1 ((hm x).1 List.mem_cons_self) with e | hxin
        · exact e
        · rcases List.mem_cons.1 ((hm y).2 List.mem_cons_self) with e | hyin
          · exact e.symm
          · have := hx y hyin
            have := hy x hxin
            omega
      subst hxy
      congr 1
      apply ih ys hxs hys
      intro z
      constructor
      · intro hz
        rcases List.mem_cons.1 ((hm z).1 (List.mem_cons_of_mem _ hz)) with e | hz'
        · subst e; exact absurd (hx z hz) (Nat.lt_irrefl _)
        · exact hz'
      · intro hz
        rcases List.mem_cons.1 ((hm z).2 (List.mem_cons_of_mem _ hz)) with e | hz'
        · subst e; exact absurd (hy z hz) (Nat.lt_irrefl _)
        · exact hz'

/-- paging is invisible: a keyset-paged reader with the correct cursor rule (`pos := last id` for `id > pos`)
    returns exactly what the single `SELECT` returns, for every page size `p ≥ 1` and every table in id order -/
theorem paged_read_all_eq (t : Table V) (h : Inv2 t) (tag : Option Tag) (p : Nat) (hp : 1 ≤ p) :
    pagedReadAll t tag p 0 = (step t (.readAll tag)).2 := by
  unfold pagedReadAll
  rw [pagedRows_correct t h tag p hp]
  cases tag with
  | none =>
    simp only [step]
    congr 2
    rw [List.filter_eq_self]; intro _ _; rfl
  | some tg => rfl

/-- … hence for every reachable table of any size -/
theorem paged_read_all_invisible (ops : List (Op V)) (tag : Option Tag) (p : Nat) (hp : 1 ≤ p) :
    pagedReadAll (run ([] : Table V) ops).1 tag p 0 = (step (run ([] : Table V) ops).1 (.readAll tag)).2 :=
  paged_read_all_eq _ (inv2_run ops [] inv2_nil) tag p hp

/-! the off-by-one cursor rule -/

/-- `n` rows of one tag with the contiguous ids `1..n` -/
def contig (tag : Tag) (v : V) (n : Nat) : Table V := (List.range n).map (fun i => ⟨i + 1, tag, v⟩)

theorem run_append (t : Table V) (a b : List (Op V)) :
    (run t (a ++ b)).1 = (run (run t a).1 b).1 := by
  induction a generalizing t with
  | nil => rfl
  | cons op a ih => simp only [List.cons_append, run]; exact ih _

theorem maxId_append_single (t : Table V) (r : Row V) : maxId (t ++ [r]) = max (maxId t) r.id := by
  induction t with
  | nil => simp [maxId]
  | cons x xs ih => simp only [List.cons_append, maxId, ih]; omega

theorem maxId_contig (tag : Tag) (v : V) (n : Nat) : maxId (contig tag v n) = n := by
  induction n with
  | zero => rfl
  | succ n ih =>
    have : contig tag v (n + 1) = contig tag v n ++ [⟨n + 1, tag, v⟩] := by
      simp [contig, List.range_succ]
    rw [this, maxId_append_single, ih]; simp

/-- the contiguous table is what `n` creates on a fresh file leave -/
theorem contig_reachable (tag : Tag) (v : V) (n : Nat) :
    (run ([] : Table V) (List.replicate n (.create tag v))).1 = contig tag v n := by
  induction n with
  | zero => rfl
  | succ n ih =>
    rw [List.replicate_succ', run_append, ih]
    simp only [run, step, maxId_contig]
    simp [contig, List.range_succ]

theorem contig_sorted (tag : Tag) (v : V) (n : Nat) : Sorted (contig tag v n) := by
  rw [← contig_reachable]
  exact (inv2_run _ [] inv2_nil).1

theorem contig_filter_sel (tag : Tag) (v : V) (n : Nat) :
    (contig tag v n).filter (sel (some tag)) = contig tag v n := by
  rw [List.filter_eq_self]
  intro a ha
  obtain ⟨i, _, rfl⟩ := List.mem_map.1 ha
  simp [sel]

/-- the off-by-one rule loses a row for EVERY page size: on `p + 1` contiguous rows the paged reader with
    `pos := last id + 1` returns the first `p` rows only; the row with id `p + 1` is live and missing -/
theorem paged_off_by_one_loses_row (tag : Tag) (v : V) (p : Nat) (hp : 1 ≤ p) :
    pagedRows (contig tag v (p + 1)) (some tag) p 1 = contig tag v p ∧
    abs (contig tag v (p + 1)) tag (p + 1) = some v ∧
    (⟨p + 1, tag, v⟩ : Row V) ∉ pagedRows (contig tag v (p + 1)) (some tag) p 1 := by
  have hrows : pagedRows (contig tag v (p + 1)) (some tag) p 1 = contig tag v p := by
    unfold pagedRows
    rw [pagedGo_eq_goL _ (contig_sorted tag v (p + 1)), contig_filter_sel]
    have hlen : (contig tag v (p + 1)).length + 1 = (p + 1) + 1 := by simp [contig]
    rw [hlen]
    have hf0 : (contig tag v (p + 1)).filter (fun r => decide (0 < r.id)) = contig tag v (p + 1) := by
      rw [List.filter_eq_self]
      intro a ha
      obtain ⟨i, _, rfl⟩ := List.mem_map.1 ha
      simp
    have htake : (contig tag v (p + 1)).take p = contig tag v p := by
      simp only [contig, ← List.map_take, List.take_range]
      congr 2
      omega
    have hlast : (contig tag v p).getLast? = some ⟨p, tag, v⟩ := by
      obtain ⟨q, rfl⟩ : ∃ q, p = q + 1 := ⟨p - 1, by omega⟩
      simp [contig, List.range_succ]
    have hfp : (contig tag v (p + 1)).filter (fun r => decide (p + 1 < r.id)) = [] := by
      rw [List.filter_eq_nil_iff]
      intro a ha
      obtain ⟨i, hi, rfl⟩ := List.mem_map.1 ha
      have := List.mem_range.1 hi
      simp only [decide_eq_true_eq]; omega
    have hlenp : (contig tag v p).length = p := by simp [contig]
    simp only [goL, hf0, htake, hlenp, Nat.lt_irrefl, if_false, hlast, hfp, List.take_nil, List.length_nil]
    rw [if_pos (by omega)]
    simp
  refine ⟨hrows, ?_, ?_⟩
  · rw [abs_eq_some_iff _ (contig_sorted tag v (p + 1)).inv]
    exact List.mem_map.2 ⟨p, List.mem_range.2 (by omega), rfl⟩
  · rw [hrows]
    intro hmem
    obtain ⟨i, hi, he⟩ := List.mem_map.1 hmem
    have := List.mem_range.1 hi
    simp only [Row.mk.injEq] at he
    omega

/-- kernel-checked witness: three creates on a fresh file, page size 2 — the off-by-one reader returns two rows,
    `read_all` (and the correct paged reader) three -/
theorem paged_off_by_one_differs :
    let t := (run ([] : Table Nat) [.create "t" 10, .create "t" 20, .create "t" 30]).1
    pagedReadAll t (some "t") 2 1 = .rows [("t", 1, 10), ("t", 2, 20)] ∧
    pagedReadAll t (some "t") 2 0 = .rows [("t", 1, 10), ("t", 2, 20), ("t", 3, 30)] ∧
    (step t (.readAll (some "t"))).2 = .rows [("t", 1, 10), ("t", 2, 20), ("t", 3, 30)] := by
  decide

/-- the off-by-one reader is only wrong when the id after a full page is a live row of the tag: with a gap
    there (a row of another tag) it agrees — why small or gappy tables cannot expose it -/
theorem paged_off_by_one_hidden_by_gap :
    let t := (run ([] : Table Nat) [.create "t" 10, .create "t" 20, .create "u" 99, .create "t" 30]).1
    pagedReadAll t (some "t") 2 1 = (step t (.readAll (some "t"))).2 := by
  decide

/-! ### Durability across reconnects (connection-level refinement, Model/Storage.lean `namespace Conn`)

The object replaces its connection whenever `execute` raises `OperationalError`.  If EVERY connection it can ever use is in
autocommit mode (`Conn.Good`: Props/C09Sql.lean `code_cfg_autocommit` derives this from the connection-configuration sites of
the code), then - for every sequence of calls, faults (transient, persistent, during fetch), lock windows of another
connection and reopens - each acknowledged call has moved the COMMITTED table exactly as `Sqlite.step` says, at once; a failed
call has not touched it; and the object's own connection, a fresh connection and the reopened file all read that one table.
So every theorem above (stated for `Sqlite.step` / `Sqlite.run`) speaks about what is durably in the file.
If only the first connection is configured (`reconnAuto = false`) acknowledged writes are lost: `non_autocommit_reconnect_loses_writes`. -/
section ConnLevel
open Conn

theorem conn_init_inv (cfg : Cfg) (hc : Good cfg) : CInv (Conn.init cfg : Conn.St V) := ⟨hc.1, rfl, rfl⟩

/-- what `Conn.step` does on a call that is not `reopen` -/
theorem conn_step_call (cfg : Cfg) (s : Conn.St V) (o : Op V) (n : Nat) (ff : Bool) (ho : o ≠ .reopen) :
    Conn.step cfg s (.call o n ff) =
      (match (attempt cfg s o n).2 with
       | none => ((attempt cfg s o n).1, .operationalError)
       | some r => if ff && usesFetch o then ((attempt cfg s o n).1, .operationalError) else ((attempt cfg s o n).1, .ok r)) := by
  cases o <;> first | rfl | exact absurd rfl ho

/-- the connection invariant (autocommit, no open transaction, view = committed file) survives every step -/
theorem conn_inv_step (cfg : Cfg) (hc : Good cfg) (s : Conn.St V) (h : CInv s) (cop : COp V) :
    CInv (Conn.step cfg s cop).1 := by
  cases cop with
  | call o n ff =>
    have ha := (attempt_good cfg hc s h o n).1
    by_cases ho : o = .reopen
    · subst ho
      simp only [Conn.step]
      refine ⟨?_, rfl, rfl⟩
      show (if n = 0 then cfg.initAuto else cfg.reconnAuto) = true
      split
      · exact hc.1
      · exact hc.2
    · rw [conn_step_call cfg s o n ff ho]
      split
      · exact ha
      · split <;> exact ha
  | fresh tag => exact h
  | lock =>
    simp only [Conn.step]
    split
    · exact h
    · exact h
  | unlock => exact h

/-- an ACKNOWLEDGED call returned what the single-table model returns on the committed table and moved the committed table
    exactly as the model moves it - at once, whatever faults and reconnects happened inside the call -/
theorem conn_call_acknowledged (cfg : Cfg) (hc : Good cfg) (s : Conn.St V) (h : CInv s) (o : Op V) (n : Nat) (ff : Bool)
    (r : Res V) (hr : (Conn.step cfg s (.call o n ff)).2 = .ok r) :
    r = (Sqlite.step s.committed o).2 ∧ (Conn.step cfg s (.call o n ff)).1.committed = (Sqlite.step s.committed o).1 := by
  by_cases ho : o = .reopen
  · subst ho
    simp only [Conn.step, CRes.ok.injEq] at hr
    exact ⟨hr.symm, rfl⟩
  · rw [conn_step_call cfg s o n ff ho] at hr ⊢
    rcases (attempt_good cfg hc s h o n).2.2 with ⟨h2, h3⟩ | ⟨h2, h3⟩
    · rw [h2] at hr ⊢
      simp only at hr ⊢
      split at hr
      · cases hr
      · simp only [CRes.ok.injEq] at hr
        rename_i hff
        rw [if_neg hff]
        exact ⟨hr.symm, h3⟩
    · rw [h2] at hr
      cases hr

/-- a call that raised `OperationalError` left the committed table untouched (no partial effect) -/
theorem conn_call_failed (cfg : Cfg) (hc : Good cfg) (s : Conn.St V) (h : CInv s) (o : Op V) (n : Nat) (ff : Bool)
    (hr : (Conn.step cfg s (.call o n ff)).2 = .operationalError) :
    (Conn.step cfg s (.call o n ff)).1.committed = s.committed := by
  by_cases ho : o = .reopen
  · subst ho
    simp only [Conn.step] at hr
    cases hr
  · rw [conn_step_call cfg s o n ff ho] at hr ⊢
    rcases (attempt_good cfg hc s h o n).2.2 with ⟨h2, h3⟩ | ⟨h2, h3⟩
    · rw [h2] at hr ⊢
      simp only at hr ⊢
      split at hr
      · rename_i hff
        rw [if_pos hff]
        -- only reads fetch: the statement that ran did not change the table
        have hw : isWrite o = false := by
          have : usesFetch o = true := by
            simp only [Bool.and_eq_true] at hff; exact hff.2
          cases o <;> simp_all [usesFetch, isWrite]
        show (attempt cfg s o n).1.committed = s.committed
        rw [h3, step_nonwrite _ o hw]
      · cases hr
    · rw [h2]
      exact h3

/-- a fresh connection reads the committed table; `lock` / `unlock` / `fresh` never change it -/
theorem conn_fresh_reads_committed (cfg : Cfg) (s : Conn.St V) (tag : Option Tag) :
    Conn.step cfg s (.fresh tag) = (s, .ok (Sqlite.step s.committed (.readAll tag)).2) := rfl

theorem conn_lock_keeps_committed (cfg : Cfg) (s : Conn.St V) :
    (Conn.step cfg s .lock).1.committed = s.committed ∧ (Conn.step cfg s .unlock).1.committed = s.committed := by
  refine ⟨?_, rfl⟩
  simp only [Conn.step]
  split <;> rfl

/-- Refinement for every sequence of calls, faults, lock windows and reopens (induction, no bound): the committed table is
    the single-table model run over exactly the acknowledged calls, and the connection invariant holds at the end. -/
theorem conn_run_refines (cfg : Cfg) (hc : Good cfg) (cops : List (COp V)) (s : Conn.St V) (h : CInv s) :
    CInv (Conn.run cfg s cops).1 ∧
    (Conn.run cfg s cops).1.committed = (Sqlite.run s.committed (acked cops (Conn.run cfg s cops).2)).1 := by
  induction cops generalizing s with
  | nil => exact ⟨h, rfl⟩
  | cons cop cops ih =>
    have hi := conn_inv_step cfg hc s h cop
    have ih' := ih (Conn.step cfg s cop).1 hi
    simp only [Conn.run]
    refine ⟨ih'.1, ?_⟩
    rw [ih'.2]
    cases cop with
    | call o n ff =>
      cases hres : (Conn.step cfg s (.call o n ff)).2 with
      | ok r =>
        simp only [acked, Sqlite.run]
        rw [(conn_call_acknowledged cfg hc s h o n ff r hres).2]
      | operationalError =>
        simp only [acked]
        rw [conn_call_failed cfg hc s h o n ff hres]
      | busy =>
        exfalso
        by_cases ho : o = .reopen
        · subst ho; simp only [Conn.step] at hres; cases hres
        · rw [conn_step_call cfg s o n ff ho] at hres
          split at hres
          · cases hres
          · split at hres <;> cases hres
    | fresh tag =>
      cases hres : (Conn.step cfg s (.fresh tag)).2 <;> simp only [acked] <;> rfl
    | lock =>
      cases hres : (Conn.step cfg s .lock).2 <;> simp only [acked] <;> rw [(conn_lock_keeps_committed cfg s).1]
    | unlock =>
      cases hres : (Conn.step cfg s .unlock).2 <;> simp only [acked] <;> rfl

/-- Every acknowledged write is visible everywhere at once: after ANY history (from a fresh file), the object's own
    `read_all`, a fresh connection, and `read_all` after close + reopen (also a reopen whose set-up hit a fault) all return the
    rows of the single-table model run over the acknowledged calls. -/
theorem acknowledged_visible_everywhere (cfg : Cfg) (hc : Good cfg) (cops : List (COp V)) (tag : Option Tag) :
    let s := (Conn.run cfg (Conn.init cfg : Conn.St V) cops).1
    let T := (Sqlite.run ([] : Table V) (acked cops (Conn.run cfg (Conn.init cfg : Conn.St V) cops).2)).1
    let want : CRes V := .ok (Sqlite.step T (.readAll tag)).2
    (Conn.step cfg s (.fresh tag)).2 = want ∧
    (Conn.step cfg s (.call (.readAll tag) 0 false)).2 = want ∧
    (∀ n, (Conn.step cfg (Conn.step cfg s (.call .reopen n false)).1 (.call (.readAll tag) 0 false)).2 = want) := by
  intro s T want
  have hrun := conn_run_refines cfg hc cops (Conn.init cfg : Conn.St V) (conn_init_inv cfg hc)
  have hT : s.committed = T := hrun.2
  have hs : CInv s := hrun.1
  -- a plain read_all on a state with the invariant
  have hread : ∀ (s' : Conn.St V), CInv s' → s'.committed = T →
      (Conn.step cfg s' (.call (.readAll tag) 0 false)).2 = want := by
    intro s' hs' hc'
    cases hres : (Conn.step cfg s' (.call (.readAll tag) 0 false)).2 with
    | ok r =>
      have := (conn_call_acknowledged cfg hc s' hs' (.readAll tag) 0 false r hres).1
      rw [this, hc']
    | operationalError =>
      exfalso
      rw [conn_step_call cfg s' (.readAll tag) 0 false (by intro hh; cases hh)] at hres
      have hat : (attempt cfg s' (.readAll tag) 0).2 = some (exec s' (.readAll tag)).2 := by
        simp [attempt, isWrite]
      rw [hat] at hres
      simp at hres
    | busy =>
      exfalso
      rw [conn_step_call cfg s' (.readAll tag) 0 false (by intro hh; cases hh)] at hres
      split at hres
      · cases hres
      · split at hres <;> cases hres
  refine ⟨?_, hread s hs hT, ?_⟩
  · show CRes.ok (Sqlite.step s.committed (.readAll tag)).2 = want
    rw [hT]
  · intro n
    apply hread
    · exact conn_inv_step cfg hc s hs _
    · show s.committed = T
      exact hT

/-- kernel-checked witness (the R4-C09 defect): autocommit configured for the first connection only.  A transient fault in
    an update makes the object reconnect; the update and a later create are acknowledged and visible through the object,
    but a fresh connection and the reopened file still hold the old row only -/
theorem non_autocommit_reconnect_loses_writes :
    let cfg : Cfg := { initAuto := true, reconnAuto := false }
    (Conn.run cfg (Conn.init cfg : Conn.St Nat)
      [ .call (.create "t" 10) 0 false, .call (.update "t" 11 (some 1)) 1 false, .call (.create "t" 20) 0 false,
        .call (.readAll (some "t")) 0 false, .fresh (some "t"), .lock,
        .call .reopen 0 false, .call (.readAll (some "t")) 0 false ]).2 =
      [ .ok (.id 1), .ok (.count 1), .ok (.id 2),
        .ok (.rows [("t", 1, 11), ("t", 2, 20)]), .ok (.rows [("t", 1, 10)]), .busy,
        .ok .unit, .ok (.rows [("t", 1, 10)]) ] := by
  decide

/-- the same history with every connection in autocommit mode: nothing is lost (and the other connection gets its lock) -/
theorem autocommit_reconnect_keeps_writes :
    let cfg : Cfg := { initAuto := true, reconnAuto := true }
    (Conn.run cfg (Conn.init cfg : Conn.St Nat)
      [ .call (.create "t" 10) 0 false, .call (.update "t" 11 (some 1)) 1 false, .call (.create "t" 20) 0 false,
        .call (.readAll (some "t")) 0 false, .fresh (some "t"), .lock, .call (.update "t" 12 (some 1)) 0 false, .unlock,
        .call .reopen 1 false, .call (.readAll (some "t")) 0 true, .call (.readAll (some "t")) 2 false,
        .call (.readAll (some "t")) 0 false ]).2 =
      [ .ok (.id 1), .ok (.count 1), .ok (.id 2),
        .ok (.rows [("t", 1, 11), ("t", 2, 20)]), .ok (.rows [("t", 1, 11), ("t", 2, 20)]), .ok .unit, .operationalError,
        .ok .unit, .ok .unit, .operationalError, .operationalError, .ok (.rows [("t", 1, 11), ("t", 2, 20)]) ] := by
  decide

end ConnLevel

/-! Known findings about the `MockStorage` fixture (not editable: it is part of the test suite),
    as kernel-checked witnesses on the model; both are replayed on the real class on every run. -/

/-- a second instance over the same dict hands out an id that is in use -/
theorem mock_create_not_fresh_after_reopen :
    let s0 : Mock.St Nat := { rows := [], cursor := 0 }
    let s1 := (Mock.step s0 (.create "t" 7)).1
    let s2 := (Mock.step s1 .reopen).1
    (Mock.step s2 (.create "t" 8)).2 = .id 0 ∧ (Mock.step s1 (.read "t" (some 0))).2 = .val (some 7) := by
  decide

/-- read of a missing id raises instead of returning nothing -/
theorem mock_read_missing_raises :
    (Mock.step ({ rows := [], cursor := 0 } : Mock.St Nat) (.read "t" (some 3))).2 = .valueError := by
  decide

/-- non-vacuity: a concrete non-empty table with coinciding ids across tags is impossible (ids are
    table-wide), and a two-tag table satisfies the invariant -/
example : Sqlite.Inv ([⟨1, "a", 10⟩, ⟨2, "b", 20⟩, ⟨3, "a", 30⟩] : Table Nat) := by
  simp [Sqlite.Inv]

/-- … and the id-order invariant of the size-independence theorems, on a table with a gap (id 3 deleted) -/
example : Sqlite.Inv2 ([⟨1, "a", 10⟩, ⟨2, "b", 20⟩, ⟨4, "a", 30⟩] : Table Nat) := by
  simp [Sqlite.Inv2, Sqlite.Sorted]

end CS.Storage
