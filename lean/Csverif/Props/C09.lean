import Csverif.Proofs.Storage
/-
C09 — storage backends behave as a tag-isolated map of rows.
Model: Model/Storage.lean (SqliteStorage statement semantics; MockStorage fixture).
-/
namespace CS.Storage
open Sqlite
set_option linter.unusedSectionVars false
set_option linter.unusedVariables false
variable {V : Type} [DecidableEq V]

/-- Refinement, one step: from any table satisfying the primary-key invariant, every interface
    operation returns what the reference map returns and moves the abstraction exactly as the
    reference map moves (create returns an id no live row of *any* tag uses). -/
theorem sqlite_step_refines (t : Table V) (h : Inv t) (op : Op V) :
    Spec.stepOk (abs t) op (step t op).2 (abs (step t op).1) := by
  cases op with
  | create tag v =>
    refine ⟨maxId t + 1, rfl, ?_, abs_create t tag v⟩
    intro tg
    simp only [abs, Option.map_eq_none_iff]
    exact find_none_of_fresh t tg _ (by omega)
  | update tag v eid =>
    cases eid with
    | none =>
      have : t.filter (hits tag none) = [] := by
        rw [List.filter_eq_nil_iff]; intro r _; simp [hits_none]
      simp [Spec.stepOk, step, this]
    | some n =>
      simp only [Spec.stepOk, step, filter_hits_length t h tag n]
      by_cases hn : abs t tag n = none
      · left; simp [hn]
      · right
        refine ⟨hn, ?_, ?_⟩
        · simp [hn]
        · simp only [hn, if_false]
          exact abs_update t tag n v hn
  | delete tag eid =>
    cases eid with
    | none =>
      refine ⟨rfl, ?_⟩
      simp only [step]
      congr 1
      rw [List.filter_eq_self]
      intro r _; simp [hits_none]
    | some n => exact ⟨rfl, abs_delete t tag n⟩
  | read tag eid =>
    cases eid with
    | none =>
      refine ⟨?_, rfl⟩
      simp only [step]
      have : t.find? (hits tag none) = none := by
        rw [List.find?_eq_none]; intro r _; simp [hits_none]
      simp [this]
    | some n => exact ⟨rfl, rfl⟩
  | readAll o =>
    cases o with
    | none =>
      refine ⟨rfl, _, rfl, ?_⟩
      intro tg n v
      rw [abs_eq_some_iff t h]
      simp only [List.mem_map]
      constructor
      · rintro ⟨r, hr, he⟩
        obtain ⟨a, b, c⟩ := r
        simp at he
        obtain ⟨h1, h2, h3⟩ := he
        subst h1; subst h2; subst h3
        exact hr
      · intro hm; exact ⟨_, hm, rfl⟩
    | some tag =>
      refine ⟨rfl, _, rfl, ?_⟩
      intro tg n v
      simp only [List.mem_map, List.mem_filter, beq_iff_eq]
      constructor
      · rintro ⟨r, ⟨hr, ht⟩, he⟩
        obtain ⟨a, b, c⟩ := r
        simp at he ht
        obtain ⟨h1, h2, h3⟩ := he
        subst h1; subst h2; subst h3
        exact ⟨ht, (abs_eq_some_iff t h _ _ _).2 hr⟩
      · rintro ⟨ht, hm⟩
        subst ht
        exact ⟨_, ⟨(abs_eq_some_iff t h _ _ _).1 hm, rfl⟩, rfl⟩
  | reopen => exact ⟨rfl, rfl⟩

/-- The invariant holds in every reachable table (induction over the operation sequence). -/
theorem sqlite_inv_run (ops : List (Op V)) (t : Table V) (h : Inv t) : Inv (run t ops).1 := by
  induction ops generalizing t with
  | nil => exact h
  | cons op ops ih => simp only [run]; exact ih _ (inv_step t op h)

/-- Refinement for every operation sequence: the backend's results are exactly those of the
    reference map, whatever the history (no bound on its length). -/
def SpecRun : Spec.M V → List (Op V) → List (Res V) → Spec.M V → Prop
  | m, [], [], m' => m' = m
  | m, op :: ops, r :: rs, m' => ∃ m1, Spec.stepOk m op r m1 ∧ SpecRun m1 ops rs m'
  | _, _, _, _ => False

theorem sqlite_refines_map (ops : List (Op V)) (t : Table V) (h : Inv t) :
    SpecRun (abs t) ops (run t ops).2 (abs (run t ops).1) := by
  induction ops generalizing t with
  | nil => simp [run, SpecRun]
  | cons op ops ih =>
    simp only [run, SpecRun]
    exact ⟨_, sqlite_step_refines t h op, ih _ (inv_step t op h)⟩

theorem sqlite_init_inv : Sqlite.Inv ([] : Table V) := by simp [Sqlite.Inv]

/-! Corollaries in the property's own words -/

/-- create returns an id that no live row (of any tag) is using -/
theorem create_fresh (t : Table V) (tag : Tag) (v : V) (n : Nat)
    (hr : (step t (.create tag v)).2 = .id n) : ∀ tg, abs t tg n = none := by
  simp only [step, Res.id.injEq] at hr
  subst hr
  intro tg
  simp only [abs, Option.map_eq_none_iff]
  exact find_none_of_fresh t tg _ (by omega)

/-- read returns exactly the bytes last written for that tag and id -/
theorem read_your_write (t : Table V) (h : Inv t) (tag : Tag) (v : V) :
    ∃ n, (step t (.create tag v)).2 = .id n ∧
      (step (step t (.create tag v)).1 (.read tag (some n))).2 = .val (some v) := by
  refine ⟨maxId t + 1, rfl, ?_⟩
  have := abs_create t tag v
  simp only [step]
  change Res.val (abs (t ++ [{ id := maxId t + 1, tag := tag, val := v }]) tag (maxId t + 1)) = _
  rw [this]; simp [Spec.set]

theorem read_after_update (t : Table V) (tag : Tag) (n : Nat) (v : V) (hf : abs t tag n ≠ none) :
    (step (step t (.update tag v (some n))).1 (.read tag (some n))).2 = .val (some v) := by
  have hne : ((t.filter (hits tag (some n))).length == 0) = false := by
    simp only [beq_eq_false_iff_ne, ne_eq, List.length_eq_zero_iff, List.filter_eq_nil_iff]
    intro hall
    apply hf
    simp only [abs, Option.map_eq_none_iff]
    rw [List.find?_eq_none]; exact hall
  have hst : (step t (.update tag v (some n))).1 =
      t.map (fun r => if hits tag (some n) r then { r with val := v } else r) := by
    simp only [step, hne]; rfl
  rw [hst]
  change Res.val (abs _ tag n) = _
  rw [abs_update t tag n v hf]; simp [Spec.set]

/-- update of a missing row is an error and changes nothing -/
theorem update_missing_is_error (t : Table V) (h : Inv t) (tag : Tag) (n : Nat) (v : V)
    (hm : abs t tag n = none) : step t (.update tag v (some n)) = (t, .valueError) := by
  have := filter_hits_length t h tag n
  simp only [hm, if_true] at this
  simp [step, this]

/-- delete is idempotent -/
theorem delete_idempotent (t : Table V) (tag : Tag) (eid : Option Nat) :
    (step (step t (.delete tag eid)).1 (.delete tag eid)).1 = (step t (.delete tag eid)).1 := by
  simp only [step, List.filter_filter]
  congr 1
  funext r; simp

/-- an operation on one tag never affects another tag, even when ids coincide -/
theorem tag_isolation (t : Table V) (h : Inv t) (op : Op V) (tag other : Tag) (hne : other ≠ tag)
    (hop : match op with
      | .create tg _ => tg = tag | .update tg _ _ => tg = tag | .delete tg _ => tg = tag
      | _ => True) (n : Nat) (hlive : abs t other n ≠ none) :
    abs (step t op).1 other n = abs t other n := by
  have hs := sqlite_step_refines t h op
  cases op with
  | create tg v =>
    obtain ⟨k, _, hfresh, he⟩ := hs
    rw [he]; simp only [Spec.set]
    rw [if_neg]; intro ⟨h1, _⟩; exact hne (h1.trans hop)
  | update tg v eid =>
    cases eid with
    | none => exact congrFun (congrFun hs.2 other) n
    | some k =>
      rcases hs with ⟨_, _, he⟩ | ⟨_, _, he⟩
      · rw [he]
      · rw [he]; simp only [Spec.set]; rw [if_neg]; intro ⟨h1, _⟩; exact hne (h1.trans hop)
  | delete tg eid =>
    cases eid with
    | none => exact congrFun (congrFun hs.2 other) n
    | some k => rw [hs.2]; simp only [Spec.set]; rw [if_neg]; intro ⟨h1, _⟩; exact hne (h1.trans hop)
  | read tg eid => rfl
  | readAll o => cases o <;> rfl
  | reopen => rfl

/-- closing and reopening the file is the identity on the model (durability itself is SQLite's) -/
theorem reopen_identity (t : Table V) : (step t .reopen).1 = t := rfl

/-- no lost write under concurrency, given statement atomicity (the class holds a mutex around every
    `execute`): any interleaving of the callers' operations is some operation sequence, and for every
    operation sequence without deletes each created row is still live at the end. -/
theorem creates_survive (ops : List (Op V)) (t : Table V) (h : Inv t)
    (hnd : ∀ op ∈ ops, ∀ tg e, op ≠ .delete tg e) (tag : Tag) (n : Nat) (hl : abs t tag n ≠ none) :
    abs (run t ops).1 tag n ≠ none := by
  induction ops generalizing t with
  | nil => exact hl
  | cons op ops ih =>
    simp only [run]
    apply ih _ (inv_step t op h) (fun o ho => hnd o (List.mem_cons_of_mem _ ho))
    have hs := sqlite_step_refines t h op
    cases op with
    | create tg v =>
      obtain ⟨k, _, hfresh, he⟩ := hs
      rw [he]; simp only [Spec.set]; split
      · simp
      · exact hl
    | update tg v eid =>
      cases eid with
      | none => rw [hs.2]; exact hl
      | some k =>
        rcases hs with ⟨_, _, he⟩ | ⟨_, _, he⟩
        · rw [he]; exact hl
        · rw [he]; simp only [Spec.set]; split
          · simp
          · exact hl
    | delete tg e => exact absurd rfl (hnd _ (List.mem_cons_self) tg e)
    | read tg e => exact hl
    | readAll o => cases o <;> exact hl
    | reopen => exact hl

/-! Known findings about the `MockStorage` fixture (not editable: it is part of the test suite),
    as kernel-checked witnesses on the model; both are replayed on the real class on every run. -/

/-- a second instance over the same dict hands out an id that is in use -/
theorem mock_create_not_fresh_after_reopen :
    let s0 : Mock.St Nat := { rows := [], cursor := 0 }
    let s1 := (Mock.step s0 (.create "t" 7)).1
    let s2 := (Mock.step s1 .reopen).1
    (Mock.step s2 (.create "t" 8)).2 = .id 0 ∧ (Mock.step s1 (.read "t" (some 0))).2 = .val (some 7) := by
  decide

/-- read of a missing id raises instead of returning nothing -/
theorem mock_read_missing_raises :
    (Mock.step ({ rows := [], cursor := 0 } : Mock.St Nat) (.read "t" (some 3))).2 = .valueError := by
  decide

/-- non-vacuity: a concrete non-empty table with coinciding ids across tags is impossible (ids are
    table-wide), and a two-tag table satisfies the invariant -/
example : Sqlite.Inv ([⟨1, "a", 10⟩, ⟨2, "b", 20⟩, ⟨3, "a", 30⟩] : Table Nat) := by
  simp [Sqlite.Inv]

end CS.Storage
