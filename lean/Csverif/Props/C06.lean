import Csverif.Proofs.EventRun
import Csverif.Props.C06Durable
import Csverif.Model.Spec.Restart
import Csverif.Props.C01
/-
C06 — restart resumes from persisted state; offline changes are synchronised.

Part A: theorems about the EventManager model (Model/Event.lean), for every sequence of actions from a fresh
world - user operations, engine effects one at a time, a stop between any two of them, restarts, storage rows
corrupted or deleted while the engine is down, provider cursors expiring, new provider objects:

  cursor_never_ahead          the stored cursor never passes an event whose effect is not committed
  no_event_skipped_in_memory  (the in-memory half: between first-init and the provider's position nothing is dropped)
  restart_replays_suffix      a new engine over the same storage delivers every event after the stored cursor again
  walk_when_cursor_missing    no stored cursor => need_walk, and the first do() completes a walk before anything else
  walk_when_cursor_rejected   stored cursor rejected => need_walk in memory, cursor reset; the next do() walks
  walk_precedes_events        while need_walk is set no feed event is processed (unless a final stop was requested)
  do_returns                  every do() terminates

  walk_survives_restart       a walk that became due (cursor re-seeded from the provider, or the entries dropped) is never
                              forgotten, wherever the engine is stopped - at full strength, for the code as repaired by
                              `fix: … need_walk did not survive a restart` (the stored walk marker is deleted before a
                              re-seeded cursor is persisted).  On the code before that fix the statement was false (two
                              kernel-checked counterexamples, known findings need-walk-not-persisted/*, now `fixed:`); the
                              same two action sequences are kept here as regression witnesses: they now end in a walk.
  former_window_unreachable   the state {need_walk in memory, walk marker and integer cursor stored} cannot be reached any more

Part B: the end-to-end verdicts the engine-level monitor (Driver/MonC06.lean) computes (Model/Spec/Restart.lean).
-/
namespace CS.Event
set_option linter.unusedVariables false

/-- reachable from a fresh world by any sequence of actions -/
def Reachable (s : St) : Prop :=
  ∃ cfg n p objs r acts, s = run (init cfg n p objs r) acts

theorem reachable_inv {s : St} (h : Reachable s) : Inv s := by
  obtain ⟨cfg, n, p, objs, r, acts, rfl⟩ := h
  exact inv_run _ _ (inv_init cfg n p objs r)

theorem reachable_apply {s : St} (h : Reachable s) (a : Act) : Reachable (apply s a) := by
  obtain ⟨cfg, n, p, objs, r, acts, rfl⟩ := h
  exact ⟨cfg, n, p, objs, r, acts ++ [a], by simp [run]⟩

/-- **cursor_never_ahead.**  Whatever happened (any interleaving of user operations, engine effects, stops at any
    point, restarts, …): every feed event at or below the stored cursor - and above the position the cursor was
    last *seeded* at from the provider, below which a walk is responsible - has its effect committed. -/
theorem cursor_never_ahead (s : St) (hs : Reachable s) (c i : Int)
    (hc : s.store.cursor = some (.int c)) (hseed : s.ghost.seed < i) (hi : i ≤ c) : i ∈ s.store.log :=
  (reachable_inv hs).g1 c i hc hseed hi

/-- the in-memory half: once `_do_first_init` has positioned the provider (at `base`), every event the provider
    has handed out since is delivered, or waits in the queue, or is the one just fetched - unless the object
    was told to stop for good and has returned (it is dead then, a new engine starts from storage). -/
theorem no_event_skipped_in_memory (s : St) (hs : Reachable s) (m : Mem) (hm : s.mem = some m)
    (hfd : m.firstDo = false) (hlive : ¬ (m.stopping = true ∧ m.pc = .idle)) (i : Int)
    (hb : s.ghost.base < i) (hi : i ≤ s.prov.cur) :
    Tr.ev i ∈ s.ghost.fresh ∨ i ∈ m.queue ∨ m.pc = .fetched i := by
  rcases ((reachable_inv hs).up m hm).u4 hfd with h | h
  · exact absurd h hlive
  · exact h i hb hi

/-- the in-memory cursor (what `_save_current_cursor` compares with) never runs ahead of the provider -/
theorem memory_cursor_le_position (s : St) (hs : Reachable s) (m : Mem) (hm : s.mem = some m)
    (hfd : m.firstDo = false) : ∃ c, m.cursor = some (.int c) ∧ s.ghost.base ≤ c ∧ c ≤ s.prov.cur :=
  ((reachable_inv hs).up m hm).u2 hfd

/-- **restart_replays_suffix** (at-least-once).  The engine is down, storage holds the integer cursor `c`, the
    provider accepts it.  A new engine over the same storage, on its first do(), delivers *again* every event
    after `c` that the feed holds, and the do() returns. -/
theorem restart_replays_suffix (s : St) (hs : Reachable s) (c : Int) (hdown : s.mem = none)
    (hc : s.store.cursor = some (.int c)) (hacc : s.prov.minValid ≤ c) (hv : validatesAtStart s) :
    (doAll (apply s .start)).pcIdle = true ∧
    ∀ i, c < i → i ≤ s.prov.latest →
      Tr.ev i ∈ (doAll (apply s .start)).ghost.fresh ∧ i ∈ (doAll (apply s .start)).store.log := by
  obtain ⟨m0, h0, hval, hcur, hfd, hq, hpc, hst, _, _⟩ := start_mem s hdown hv
  have hinv0 : Inv (apply s .start) := inv_apply s .start (reachable_inv hs)
  generalize apply s .start = S at h0 hinv0 ⊢
  have hmS : S.mem = some m0 := by rw [h0]
  have hpS : S.prov = s.prov := by rw [h0]
  obtain ⟨m', h1, h2, h3, h4, h5, h6, h7, h8, h9, _⟩ :=
    doAll_accepted S m0 c hinv0 hmS hval hpc hst hfd (by rw [hcur, hc]) (by rw [hpS]; exact hacc) (fun _ => True)
      (fun _ _ _ _ _ _ => trivial) trivial
  refine ⟨by simp [St.pcIdle, h1, h2], ?_⟩
  intro i hci hil
  have hmem : Tr.ev i ∈ (doAll S).ghost.fresh := by
    rcases (h9.up m' h1).u4 h5 with h | h
    · simp [h4] at h
    · rcases h i (by rw [h8]; exact hci) (by rw [hpS] at h7; omega) with h | h | h
      · exact h
      · simp [h3] at h
      · simp [h2] at h
  exact ⟨hmem, h9.g2 i hmem⟩

/-- **walk_when_cursor_missing** (1).  Whenever an EventManager with a root validates it and finds no stored
    cursor, `need_walk` is set - in the constructor or in a later do(), whatever else storage holds. -/
theorem walk_when_cursor_missing (p : Prov) (st : Store) (m : Mem) (hv : m.validated = false)
    (hc : st.cursor = none) (hval : (validateRoot p st m).validated = true)
    (hroot : (validateRoot p st m).rootOid = true) : (validateRoot p st m).needWalk = true := by
  simp only [validateRoot, hv] at hval hroot ⊢
  cases h1 : (p.rootSet || m.rootPath) <;> cases h2 : (p.rootSet || m.rootOid) <;> simp_all

/-- **walk_when_cursor_missing** (2).  The engine is down and the cursor row is missing (never written, or
    deleted).  The new engine's first do() persists the provider's position, then completes a full walk and
    writes the walk marker before it returns; afterwards no walk is due. -/
theorem walk_when_cursor_missing_walks (s : St) (hs : Reachable s) (hcfg : s.cfg ≠ .noRoot)
    (hdown : s.mem = none) (hc : s.store.cursor = none) (hv : validatesAtStart s) :
    (∃ m, (apply s .start).mem = some m ∧ m.needWalk = true) ∧
    (doAll (apply s .start)).pcIdle = true ∧
    (doAll (apply s .start)).store.walked = true ∧ (doAll (apply s .start)).ghost.walkDue = false ∧
    (∀ m, (doAll (apply s .start)).mem = some m → m.needWalk = false) := by
  obtain ⟨m0, h0, hval, hcur, hfd, hq, hpc, hst, hnw, hro⟩ := start_mem s hdown hv
  have hro := hro hcfg
  have hnw : m0.needWalk = true := by rw [hnw hro, hc]; rfl
  have hinv0 : Inv (apply s .start) := inv_apply s .start (reachable_inv hs)
  generalize apply s .start = S at h0 hinv0 ⊢
  have hmS : S.mem = some m0 := by rw [h0]
  refine ⟨⟨m0, hmS, hnw⟩, ?_⟩
  obtain ⟨m', h1, h2, h3, h4, h5, h6, h7, h8, h9, h10⟩ :=
    doAll_seed S m0 hinv0 hmS hval hpc hst hfd (by rw [hcur, hc]) WalkDone walkDone_step
      (Or.inl ⟨_, S.prov.objs, rfl, by simp [afterInit, hnw, hro]⟩)
  refine ⟨by simp [St.pcIdle, h1, h2], ?_⟩
  rcases h10 with ⟨m1, k, hm1, hk⟩ | ⟨hw, hd, hn⟩
  · rw [h1] at hm1
    simp only [Option.some.injEq] at hm1
    subst hm1
    simp [h2] at hk
  · exact ⟨hw, hd, hn⟩

/-- **walk_when_cursor_rejected.**  The engine is down, storage holds a cursor the provider rejects (not an
    integer, or expired).  The new engine's first do() delivers nothing, resets the provider to its newest
    position, deletes the stored walk marker, persists that position and sets `need_walk`; its second do() completes a full walk (marker
    written, no walk due any more) and drains the feed. -/
theorem walk_when_cursor_rejected (s : St) (hs : Reachable s) (hcfg : s.cfg ≠ .noRoot) (v : CVal)
    (hdown : s.mem = none) (hc : s.store.cursor = some v) (hrej : s.prov.accept? v = none)
    (hv : validatesAtStart s) :
    let s1 := doAll (apply s .start)
    let s2 := doAll s1
    (∃ m1, s1.mem = some m1 ∧ m1.needWalk = true ∧ m1.pc = .idle) ∧
    s1.store.cursor = some (.int s.prov.latest) ∧ s1.store.walked = false ∧ s1.ghost.fresh = [] ∧
    s2.pcIdle = true ∧ s2.store.walked = true ∧ s2.ghost.walkDue = false ∧
    (∀ m2, s2.mem = some m2 → m2.needWalk = false) ∧ s.prov.latest ≤ s2.prov.cur := by
  intro s1 s2
  obtain ⟨m0, h0, hval, hcur, hfd, hq, hpc, hst, hnw, hro⟩ := start_mem s hdown hv
  have hro := hro hcfg
  have hinv := reachable_inv hs
  have hinv0 : Inv (apply s .start) := inv_apply s .start hinv
  have hne : some (CVal.int s.prov.latest) ≠ m0.cursor := by
    rw [hcur, hc]
    intro h
    simp only [Option.some.injEq] at h
    subst h
    have := hinv.g3
    simp [Prov.accept?] at hrej
    omega
  have hs1 : s1 = _ := doAll_rejected (apply s .start) m0 v (by rw [h0]) hval hpc hst hfd (by rw [hcur, hc])
    (by rw [h0]; exact hrej) (by rw [h0]; exact hne)
  have hinv1 : Inv s1 := finish_inv _ _ (inv_apply _ .callDo hinv0)
  rw [h0] at hs1
  simp only at hs1
  have hm1 : s1.mem = some { m0 with cursor := some (.int s.prov.latest), needWalk := true, pc := .idle } := by rw [hs1]
  have hp1 : s1.prov = { s.prov with cur := s.prov.latest } := by rw [hs1]
  obtain ⟨m', h1, h2, h3, h4, h5, h6, h7, h8, h9, h10⟩ :=
    doAll_accepted s1 _ s.prov.latest hinv1 hm1 hval rfl hst hfd rfl (by rw [hp1]; exact hinv.g3) WalkDone
      walkDone_step (Or.inl ⟨_, s1.prov.objs, rfl, by simp [afterInit, hro]⟩)
  refine ⟨⟨_, hm1, rfl, rfl⟩, by rw [hs1], by rw [hs1]; simp [hro], by rw [hs1], by simp [s2, St.pcIdle, h1, h2], ?_⟩
  rcases h10 with ⟨m1, k, hm1', hk⟩ | ⟨hw, hd, hn⟩
  · rw [h1] at hm1'
    simp only [Option.some.injEq] at hm1'
    subst hm1'
    simp [h2] at hk
  · exact ⟨hw, hd, hn, by rw [hp1] at h7; exact h7⟩

/-- **walk_precedes_events.**  While `need_walk` is set (and a root is known) the engine is never in the queue /
    event-loop / cursor-save part of do(): no feed event is processed and no cursor is saved before the walk has
    completed - unless a final stop was requested (then the walk loop is left and the object dies). -/
theorem walk_precedes_events (s : St) (hs : Reachable s) (m : Mem) (hm : s.mem = some m)
    (hro : m.rootOid = true) (hnw : m.needWalk = true) (hst : m.stopping = false) :
    m.pc = .idle ∨ m.pc = .firstInit ∨ m.pc = .seedSave ∨ (∃ k, m.pc = .walkItem k) ∨ m.pc = .errReset ∨
      m.pc = .errForget ∨ m.pc = .errSave := by
  have h := ((reachable_inv hs).up m hm).u9 hro hnw hst
  cases hpc : m.pc <;> simp_all [PC.preWalk]

/-- **do_returns.**  Every do() returns: running the effects of the current do() one after the other reaches
    the end of the call within `measure s` effects. -/
theorem do_returns (s : St) : (doAll s).pcIdle = true := by
  simp only [doAll]
  exact finish_idle _ _ (Nat.le_refl _)

/-! ### walk_survives_restart -/

/-- decidable form of "a due walk has been forgotten" -/
def lostB (s : St) : Bool :=
  s.ghost.walkDue &&
  !(match s.mem with
    | some m =>
      if m.validated then m.needWalk || (m.firstDo && m.cursor == some .bad)
      else s.store.cursor == none || s.store.cursor == some .bad || !s.store.walked
    | none => s.store.cursor == none || s.store.cursor == some .bad || !s.store.walked)

theorem lostB_iff (s : St) : lostB s = true ↔ ¬ NoLost s := by
  unfold lostB NoLost WalkPending
  cases hd : s.ghost.walkDue <;> cases hm : s.mem with
  | none => cases hc : s.store.cursor <;> cases hw : s.store.walked <;> simp
  | some m =>
    cases hv : m.validated <;> cases hc : s.store.cursor <;> cases hw : s.store.walked <;>
      cases hn : m.needWalk <;> cases hf : m.firstDo <;> simp_all

theorem nolost_run (s : St) (acts : List Act) (hinv : Inv s) (hcfg : s.cfg ≠ .noRoot) (hn : NoLost s) :
    NoLost (run s acts) := by
  induction acts generalizing s with
  | nil => exact hn
  | cons a as ih =>
    exact ih (apply s a) (inv_apply s a hinv) (by rw [apply_cfg]; exact hcfg) (nolost_apply s a hinv hcfg hn)

/-- **walk_survives_restart.**  For every sequence of actions - stops between any two effects included: whenever a
    walk is due (the stored cursor was re-seeded from the provider, or the entries were dropped, and no walk has
    completed since), something will trigger it: `need_walk` of the running engine, a cursor it will see rejected on
    its first do(), or - with the engine down or its root not validated yet - a missing cursor row, a non-integer
    cursor, or a missing walk marker. -/
theorem walk_survives_restart (cfg : RootCfg) (hcfg : cfg ≠ .noRoot) (n : Nat) (p : Int) (objs : Nat)
    (r : Bool) (acts : List Act) : NoLost (run (init cfg n p objs r) acts) :=
  nolost_run _ acts (inv_init cfg n p objs r) hcfg (by simp [NoLost, init])

/-- the same for reachable states, with the consequence spelled out for an engine that is down: if a walk is due,
    the next engine will set `need_walk` or meet a rejected cursor -/
theorem walk_due_is_on_disk (s : St) (hs : Reachable s) (hcfg : s.cfg ≠ .noRoot) (hdown : s.mem = none)
    (hd : s.ghost.walkDue = true) :
    s.store.cursor = none ∨ s.store.cursor = some .bad ∨ s.store.walked = false := by
  obtain ⟨cfg, n, p, objs, r, acts, rfl⟩ := hs
  have hc : cfg ≠ .noRoot := by simpa [run_cfg, init] using hcfg
  have h := walk_survives_restart cfg hc n p objs r acts hd
  simpa [WalkPending, hdown] using h

/-- **former_window_unreachable.**  The window of the former finding - `need_walk` only in memory while storage
    holds a walk marker and an integer cursor - is empty for the repaired code. -/
theorem former_window_unreachable (s : St) (hs : Reachable s) : ¬ FormerWindow s := by
  rintro ⟨m, hm, hv, hro, hnw, hw, c, hc⟩
  have hu := (reachable_inv hs).up m hm
  rcases hu.u13 hv hro hnw with h | h
  · simp [hw] at h
  · rcases hu.u7 hv with h7 | h7
    · simp [hc] at h7
    · rw [h7, h] at hc
      simp at hc

/-- the first run: new engine, root validated, first do() (position taken, cursor persisted, walk of one object,
    marker, the one feed event, cursor saved), engine stopped -/
def firstRun : List Act :=
  [.start, .setRoot, .callDo, .step, .step, .step, .step, .step, .step, .step, .step, .step, .stop]

/-- the replay of the former finding need-walk-not-persisted/rejected-cursor: synced, engine down, a user
    operation, the stored cursor becomes unacceptable, new engine, one do() (the CloudCursorError path), engine
    stopped again -/
def formerRejected : List Act :=
  firstRun ++ [.user 2, .corrupt, .start, .callDo, .step, .step, .step, .step, .stop]

/-- … and of need-walk-not-persisted/missing-cursor-stop-in-walk: the cursor row is deleted, a new provider object
    stands at the newest position, the new engine's first do() is stopped after it persisted the position and
    before the walk completed -/
def formerMissing : List Act :=
  firstRun ++ [.user 2, .delCursor, .provCur 1, .start, .callDo, .step, .step, .stop]

/-- regression witness 1 (kernel-checked): after the former counterexample the walk marker is gone, and the next
    engine walks (both objects offered) before it goes idle -/
theorem former_rejected_now_walks :
    let s := run (init .pathOnly 1 (-1) 1 false) formerRejected
    let s' := doAll (apply s .start)
    lostB s = false ∧ s.store.walked = false ∧ s.store.cursor = some (.int 1) ∧
      s'.pcIdle = true ∧ s'.store.walked = true ∧ s'.ghost.walkDue = false ∧ s'.ghost.fresh = [.w, .w] := by
  decide

/-- regression witness 2 (kernel-checked) -/
theorem former_missing_now_walks :
    let s := run (init .pathOnly 1 (-1) 1 false) formerMissing
    let s' := doAll (apply s .start)
    lostB s = false ∧ s.store.walked = false ∧ s.store.cursor = some (.int 1) ∧
      s'.pcIdle = true ∧ s'.store.walked = true ∧ s'.ghost.walkDue = false ∧ s'.ghost.fresh = [.w, .w] := by
  decide

instance (s : St) : Decidable (validatesAtStart s) := by unfold validatesAtStart; infer_instance

/-- non-vacuity: a run with stops at awkward places - the second engine is stopped after it processed event 1 and
    before it saved the cursor, the third one delivers event 1 again; the hypotheses of the theorems above are
    satisfiable -/
example :
    let w := init .pathOnly 1 (-1) 1 false
    let acts := firstRun ++ [.user 2, .start, .callDo, .step, .step, .step, .step, .step, .stop,
      .start, .callDo, .step, .step, .step, .step, .step, .step, .stop]
    (run w (firstRun ++ [.user 2, .start, .callDo, .step, .step, .step, .step, .step,
        .stop])).store = { cursor := some (.int 0), walked := true, log := [1, 0] } ∧
      (run w acts).store = { cursor := some (.int 1), walked := true, log := [1, 1, 0] } ∧
      (run w acts).mem = none ∧ validatesAtStart (run w acts) ∧ (run w firstRun).prov.accept? .bad = none := by
  refine ⟨by decide, by decide, by decide, by decide, by decide⟩

end CS.Event

/-! ## Part B - the end-to-end verdicts of the restart monitor -/
namespace CS.Spec
set_option linter.unusedVariables false

/-- the verdict `noRetransfer` says exactly: no transferred tag belongs to an already synchronised, untouched file -/
theorem noRetransfer_iff (u t : List Nat) : noRetransfer u t = true ↔ ∀ x ∈ t, x ∉ u := by
  simp [noRetransfer, retransferred, List.filter_eq_nil_iff]

theorem retransferred_sound (u t : List Nat) (x : Nat) : x ∈ retransferred u t ↔ x ∈ t ∧ x ∈ u := by
  simp [retransferred]

/-- nothing to protect, or nothing transferred: accepted -/
theorem noRetransfer_nil_left (t : List Nat) : noRetransfer [] t = true := by
  simp [noRetransfer, retransferred]

theorem noRetransfer_nil_right (u : List Nat) : noRetransfer u [] = true := by
  simp [noRetransfer, retransferred]

/-- fewer transfers or fewer protected files keep the verdict -/
theorem noRetransfer_mono (u u' t t' : List Nat) (hu : ∀ x ∈ u', x ∈ u) (ht : ∀ x ∈ t', x ∈ t)
    (h : noRetransfer u t = true) : noRetransfer u' t' = true := by
  rw [noRetransfer_iff] at h ⊢
  exact fun x hx hxu => h x (ht x hx) (hu x hxu)

theorem noArtefacts_iff (l r : Tree) :
    noArtefacts l r = true ↔ (∀ e ∈ l, isConflicted e.1 = false) ∧ (∀ e ∈ r, isConflicted e.1 = false) := by
  simp [noArtefacts]

/-- without artefacts, C01's convergence is plain equality of the two trees as sets -/
theorem noArtefacts_converged (l r : Tree) (h : noArtefacts l r = true) :
    converged l r = l.sameAs r := by
  rw [noArtefacts_iff] at h
  simp only [converged, Tree.core_eq_self h.1, Tree.core_eq_self h.2]

theorem restartOk_iff (u t : List Nat) (l r : Tree) :
    restartOk u t l r = true ↔
      (∀ x ∈ t, x ∉ u) ∧ ((∀ e ∈ l, isConflicted e.1 = false) ∧ (∀ e ∈ r, isConflicted e.1 = false)) ∧
        l.sameAs r = true := by
  simp only [restartOk, Bool.and_eq_true, noRetransfer_iff, noArtefacts_iff]
  constructor
  · rintro ⟨⟨h1, h2⟩, h3⟩
    exact ⟨h1, h2, by rw [← noArtefacts_converged l r ((noArtefacts_iff l r).mpr h2)]; exact h3⟩
  · rintro ⟨h1, h2, h3⟩
    exact ⟨⟨h1, h2⟩, by rw [noArtefacts_converged l r ((noArtefacts_iff l r).mpr h2)]; exact h3⟩

/-- non-vacuity: an accepted restart, a re-transfer, an artefact -/
example :
    let l : Tree := [(["a"], .file 1), (["b"], .file 2)]
    restartOk [1] [2] l l = true ∧ restartOk [1] [1, 2] l l = false ∧
      restartOk [1] [2] ((["a.conflicted"], .file 3) :: l) l = false := by
  decide

end CS.Spec
