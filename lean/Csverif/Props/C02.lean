import Csverif.Proofs.Spec
/-
C02 — no silent data loss.  `live`/`noLoss` (Model/Spec/Sync.lean) are what the monitor (op `c02`)
evaluates on the user-event history and the final snapshots of a run; `Ledger.check` is the contract
on single engine actions, and `ledger_run_safe` is the universal statement about every engine whose
actions all pass the contract.
-/
namespace CS.Spec
set_option linter.unusedVariables false

/-- a version is user-live iff some user write created it and nothing later killed it -/
theorem mem_live_iff (h : List LEv) (t : Nat) :
    t ∈ live h ↔ ∃ pre k post, h = pre ++ .write t k :: post ∧ ∀ e ∈ post, e.kills ≠ some t := by
  induction h with
  | nil => simp [live]
  | cons e es ih =>
    constructor
    · intro hm
      rcases live_cons_cases e es t hm with ⟨k, rfl, hk⟩ | hm'
      · exact ⟨[], k, es, rfl, hk⟩
      · obtain ⟨pre, k, post, rfl, hp⟩ := ih.1 hm'
        exact ⟨e :: pre, k, post, rfl, hp⟩
    · rintro ⟨pre, k, post, heq, hp⟩
      cases pre with
      | nil =>
        simp only [List.nil_append, List.cons.injEq] at heq
        obtain ⟨rfl, rfl⟩ := heq
        exact live_head t k es hp
      | cons x pre' =>
        simp only [List.cons_append, List.cons.injEq] at heq
        obtain ⟨rfl, rfl⟩ := heq
        exact live_cons_sub _ _ _ (ih.2 ⟨pre', k, post, rfl, hp⟩)

/-- a version that was never written is not live; a killed version stays dead unless rewritten -/
theorem not_live_of_killed_last (h : List LEv) (e : LEv) (t : Nat) (hk : e.kills = some t)
    (hw : ∀ k, e ≠ .write t k) : t ∉ live (h ++ [e]) := by
  rw [mem_live_iff]
  rintro ⟨pre, k, post, heq, hp⟩
  rcases List.eq_nil_or_concat post with rfl | ⟨post', e', rfl⟩
  · have := List.append_inj_right' (t₁ := [e]) (t₂ := [LEv.write t k]) (by simpa using heq) rfl
    simp only [List.cons.injEq, and_true] at this
    exact hw k this
  · have : h ++ [e] = (pre ++ LEv.write t k :: post') ++ [e'] := by simpa using heq
    have h2 := List.append_inj_right' this rfl
    simp only [List.cons.injEq, and_true] at h2
    subst h2
    exact hp e (by simp) hk

/-- the quiescence verdict: every user-live version still sits in a file on at least one side -/
theorem noLoss_iff (h : List LEv) (l r : Tree) :
    noLoss h l r = true ↔ ∀ t ∈ live h, t ∈ l.tags ∨ t ∈ r.tags := by
  simp only [noLoss, List.all_eq_true, Bool.or_eq_true, List.contains_iff_mem]

/-- what `t ∈ tags` means: some file of the tree holds version `t` -/
theorem mem_tags_iff (tr : Tree) (t : Nat) : t ∈ tr.tags ↔ ∃ p, (p, Node.file t) ∈ tr := by
  simp only [Tree.tags, List.mem_filterMap]
  constructor
  · rintro ⟨⟨p, n⟩, hm, hn⟩
    cases n with
    | dir => simp at hn
    | file g => simp only [Option.some.injEq] at hn; subst hn; exact ⟨p, hm⟩
  · rintro ⟨p, hm⟩; exact ⟨(p, .file t), hm, rfl⟩

/- FALSE as first stated (kept for the record): without the invariant "an object carries at most one
   version" the contract looks only at the first carrier entry of the object but removes all of them.
theorem ledger_check_safe' (s s' : Ledger) (a : EAct) (hs : s.safe) (hc : s.check a = some s') : s'.safe
-/
/-- counterexample: object 1 is listed with versions 5 and 7, 7 is live; re-copying 5 onto object 1
    is accepted (the first entry already holds 5) and drops the entry holding 7 -/
theorem ledger_check_not_safe_without_WF :
    let s : Ledger := { liveTags := [7], carriers := [(1, 5), (1, 7)] }
    s.safe ∧ ∃ s', s.check (.copy 1 5) = some s' ∧ ¬ s'.safe := by
  refine ⟨by decide, ⟨_, rfl, by decide⟩⟩

/-- one accepted action preserves: every live version has a carrier; the live set; the invariant -/
theorem ledger_check_safe_partial (s s' : Ledger) (a : EAct) (hw : s.WF) (hs : s.safe)
    (hc : s.check a = some s') : s'.safe ∧ s'.liveTags = s.liveTags ∧ s'.WF := by
  cases a with
  | copy o t =>
    simp only [Ledger.check, Option.ite_none_right_eq_some, Option.some.injEq] at hc
    obtain ⟨hok, rfl⟩ := hc
    · refine ⟨?_, rfl, carriers_replace_nodup hw o t⟩
      intro u hu
      obtain ⟨c, hcm, hcu⟩ := hs u hu
      by_cases hco : c.1 = o
      · subst hco
        rw [find?_carrier hw hcm] at hok
        simp only [Option.map_some, hcu, Bool.or_eq_true, beq_iff_eq, Bool.not_eq_true',
          Ledger.carried, List.any_eq_true, Bool.and_eq_true, bne_iff_ne, ne_eq] at hok
        rcases hok with (hut | hnl) | ⟨c', hc'm, hc'u, hc'o⟩
        · exact ⟨(c.1, t), by simp, hut.symm⟩
        · have : s.liveTags.contains u = true := List.contains_iff_mem.2 hu
          rw [this] at hnl; cases hnl
        · exact ⟨c', by simp [List.mem_filter, hc'm, hc'o], hc'u⟩
      · exact ⟨c, by simp [List.mem_filter, hcm, hco], hcu⟩
  | remove o =>
    simp only [Ledger.check, Option.ite_none_right_eq_some, Option.some.injEq] at hc
    obtain ⟨hok, rfl⟩ := hc
    · refine ⟨?_, rfl, carriers_filter_nodup hw o⟩
      intro u hu
      obtain ⟨c, hcm, hcu⟩ := hs u hu
      by_cases hco : c.1 = o
      · subst hco
        rw [find?_carrier hw hcm] at hok
        simp only [Option.map_some, hcu, Bool.or_eq_true, Bool.not_eq_true',
          Ledger.carried, List.any_eq_true, Bool.and_eq_true, beq_iff_eq, bne_iff_ne, ne_eq] at hok
        rcases hok with hnl | ⟨c', hc'm, hc'u, hc'o⟩
        · have : s.liveTags.contains u = true := List.contains_iff_mem.2 hu
          rw [this] at hnl; cases hnl
        · exact ⟨c', by simp [List.mem_filter, hc'm, hc'o], hc'u⟩
      · exact ⟨c, by simp [List.mem_filter, hcm, hco], hcu⟩

/-- the statement in the property's own words, for a ledger satisfying the object invariant -/
theorem ledger_check_safe (s s' : Ledger) (a : EAct) (hw : s.WF) (hs : s.safe)
    (hc : s.check a = some s') : s'.safe :=
  (ledger_check_safe_partial s s' a hw hs hc).1

theorem ledger_check_liveTags (s s' : Ledger) (a : EAct) (hc : s.check a = some s') :
    s'.liveTags = s.liveTags := by
  cases a <;>
    (simp only [Ledger.check, Option.ite_none_right_eq_some, Option.some.injEq] at hc
     obtain ⟨_, rfl⟩ := hc
     rfl)

/-- universal safety: an engine all of whose actions pass the contract never leaves a user-live
    version without a carrier — for every action sequence, of any length -/
theorem ledger_run_safe (acts : List EAct) (s s' : Ledger) (hw : s.WF) (hs : s.safe)
    (hr : s.run acts = some s') : s'.safe ∧ s'.liveTags = s.liveTags ∧ s'.WF := by
  induction acts generalizing s with
  | nil =>
    simp only [Ledger.run, Option.some.injEq] at hr
    subst hr; exact ⟨hs, rfl, hw⟩
  | cons a as ih =>
    simp only [Ledger.run] at hr
    cases hc : s.check a with
    | none => simp [hc] at hr
    | some s1 =>
      simp only [hc, Option.bind_some] at hr
      obtain ⟨h1, h2, h3⟩ := ledger_check_safe_partial s s1 a hw hs hc
      obtain ⟨g1, g2, g3⟩ := ih s1 h3 h1 hr
      exact ⟨g1, g2.trans h2, g3⟩

/-- … and at every intermediate point of the run, not only at its end -/
theorem ledger_run_safe_prefix (pre post : List EAct) (s s' : Ledger) (hw : s.WF) (hs : s.safe)
    (hr : s.run (pre ++ post) = some s') : ∃ s1, s.run pre = some s1 ∧ s1.safe := by
  induction pre generalizing s with
  | nil => exact ⟨s, rfl, hs⟩
  | cons a as ih =>
    simp only [List.cons_append, Ledger.run] at hr ⊢
    cases hc : s.check a with
    | none => simp [hc] at hr
    | some s1 =>
      simp only [hc, Option.bind_some] at hr ⊢
      obtain ⟨h1, _, h3⟩ := ledger_check_safe_partial s s1 a hw hs hc
      exact ih s1 h3 h1 hr

/-- the empty ledger and every ledger built from distinct objects satisfy the invariant -/
theorem ledger_init_WF (lt : List Nat) : Ledger.WF { liveTags := lt, carriers := [] } := by
  simp [Ledger.WF]

/-- non-vacuity: a concrete safe ledger; moving the live version 7 to a second object and then
    removing the first is accepted; removing its only carrier is rejected; so is overwriting it -/
example :
    let s : Ledger := { liveTags := [7], carriers := [(1, 7), (2, 5)] }
    s.WF ∧ s.safe ∧
    (s.run [.copy 3 7, .remove 1]).isSome = true ∧
    s.check (.remove 1) = none ∧
    s.check (.copy 1 9) = none ∧
    (s.check (.copy 2 9)).isSome = true := by
  decide

/-- non-vacuity for the quiescence verdict: version 2 replaced version 1 (dead), version 3 is live but
    nowhere → rejected; with a carrier on either side → accepted -/
example :
    live [.write 1 none, .write 2 (some 1), .write 3 none, .write 4 none, .delete (some 4)] = [2, 3] ∧
    noLoss [.write 1 none, .write 2 (some 1), .write 3 none] [(["f"], .file 2)] [(["d"], .dir)] = false ∧
    noLoss [.write 1 none, .write 2 (some 1), .write 3 none] [(["f"], .file 2)] [(["g"], .file 3)] = true := by
  decide

end CS.Spec
