import Csverif.Proofs.Spec
/-
C01 — the quiet-state relation `converged` (Model/Spec/Sync.lean) is the intended one:
equality of the two sides as lookup functions on every path that is not parked under a
`.conflicted` name.  The monitor (`Driver/Monitor.lean`, op `c01`) evaluates `converged` on the
snapshots of real runs; these theorems say what a verdict "ok" means.
-/
namespace CS.Spec
set_option linter.unusedVariables false

/-- reflexive on well-formed trees (unique paths — what the harness sends).
    Without `WF` it is false: see `converged_refl_needs_WF`. -/
theorem converged_refl (t : Tree) (hw : t.WF) : converged t t = true :=
  Tree.sameAs_refl hw.core

/- FALSE without well-formedness (kept for the record):
theorem converged_refl' (t : Tree) : converged t t = true
-/
/-- a tree listing one path twice with different nodes is not even converged with itself -/
theorem converged_refl_needs_WF :
    converged [(["a"], .dir), (["a"], .file 1)] [(["a"], .dir), (["a"], .file 1)] = false := by
  decide

theorem converged_symm (l r : Tree) : converged l r = converged r l :=
  Tree.sameAs_comm _ _

/-- transitive, with no side condition at all (the middle tree need not be well-formed) -/
theorem converged_trans (a b c : Tree) (h1 : converged a b = true) (h2 : converged b c = true) :
    converged a c = true :=
  Tree.sameAs_trans h1 h2

/-- `sameAs` on well-formed trees is equality of lookups -/
theorem sameAs_iff (t u : Tree) (ht : t.WF) (hu : u.WF) :
    t.sameAs u = true ↔ ∀ p, t.get p = u.get p :=
  ⟨fun h p => Tree.get_eq_of_sameAs h p, Tree.sameAs_of_get_eq ht hu⟩

/-- the left-to-right half needs no well-formedness: a verdict "ok" always means equal lookups -/
theorem sameAs_sound (t u : Tree) (h : t.sameAs u = true) : ∀ p, t.get p = u.get p :=
  fun p => Tree.get_eq_of_sameAs h p

/-- the meaning of the verdict: both sides agree on every path that is not a `.conflicted` artefact -/
theorem converged_iff (l r : Tree) (hl : l.WF) (hr : r.WF) :
    converged l r = true ↔ ∀ p, isConflicted p = false → l.get p = r.get p := by
  unfold converged
  rw [sameAs_iff _ _ hl.core hr.core]
  constructor
  · intro h p hp
    have := h p
    simpa [Tree.core_get, hp] using this
  · intro h p
    rw [Tree.core_get, Tree.core_get]
    cases hp : isConflicted p with
    | true => simp
    | false => simpa using h p hp

/-- soundness half without well-formedness -/
theorem converged_sound (l r : Tree) (h : converged l r = true) :
    ∀ p, isConflicted p = false → l.get p = r.get p := by
  intro p hp
  have := Tree.get_eq_of_sameAs h p
  simpa [Tree.core_get, hp] using this

/-- an entry under a `.conflicted` name is invisible to `converged`, wherever it sits, on either side -/
theorem converged_ignores_conflicted (pre post other : Tree) (e : RPath × Node)
    (he : isConflicted e.1 = true) :
    converged (pre ++ e :: post) other = converged (pre ++ post) other ∧
    converged other (pre ++ e :: post) = converged other (pre ++ post) := by
  have : Tree.core (pre ++ e :: post) = Tree.core (pre ++ post) := by
    simp [Tree.core, List.filter_append, he]
  simp only [converged, this, and_self]

/-- general form: `converged` only looks at the cores -/
theorem converged_congr_core (l l' r r' : Tree) (hl : l.core = l'.core) (hr : r.core = r'.core) :
    converged l r = converged l' r' := by
  simp only [converged, hl, hr]

/-- trees that are `sameAs` are converged (so C03's and C04's exact verdicts imply C01's) -/
theorem sameAs_implies_converged (l r : Tree) (h : l.sameAs r = true) : converged l r = true := by
  unfold converged
  rw [Tree.sameAs_iff_subsets] at h ⊢
  constructor
  · intro e he
    rw [Tree.mem_core] at he
    rw [Tree.core_get, he.2]
    exact h.1 e he.1
  · intro e he
    rw [Tree.mem_core] at he
    rw [Tree.core_get, he.2]
    exact h.2 e he.1

/-- non-vacuity: two well-formed sides that differ only in a `.conflicted` copy are converged, and
    a real difference is rejected -/
example :
    Tree.WF [(["a"], .dir), (["a", "f"], .file 1), (["a", "f.conflicted"], .file 2)] ∧
    converged [(["a"], .dir), (["a", "f"], .file 1), (["a", "f.conflicted"], .file 2)]
              [(["a", "f"], .file 1), (["a"], .dir)] = true ∧
    converged [(["a"], .dir), (["a", "f"], .file 1)] [(["a", "f"], .file 2), (["a"], .dir)] = false := by
  decide

end CS.Spec
