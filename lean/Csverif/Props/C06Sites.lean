import Csverif.Gen.IntakeOrder
/-
C06 - the tie between the source and the write ORDER the durable-coverage theorems assume (Props/C06Durable.lean).
`Gen/IntakeOrder.lean` is regenerated from cloudsync/event.py by tools/gen_intake_order.py on every run of the check; this module
is deliberately NOT imported by Csverif.lean (a change of the source must break only this obligation).  If `storage_commit`, the
marker write, the cursor write, `state.update` or the loops of `do`, `_do_unsafe`, `_do_first_init`, `_do_walk_if_needed`,
`_process_event`, `_save_current_cursor`, `_forget_walk` are added, removed or reordered, `decide` fails here and the check
searches for a failing input (fault-after-walk family, write-order traces).
-/
namespace CS.IntakeSites
open CS.Gen

def audited : List (String × List String) := [
  ("do", ["unsafe", "forget_walk", "save_cursor"]),
  ("_do_unsafe", ["first_init", "walk", "for[", "process_event", "]", "events", "for[", "process_event", "]", "save_cursor"]),
  ("_do_first_init", ["forget_walk", "cursor"]),
  ("_do_walk_if_needed", ["walk_oid", "for[", "process_event", "]", "marker"]),
  ("_process_event", ["update", "commit"]),
  ("_save_current_cursor", ["cursor"]),
  ("_forget_walk", ["delete_tag"])]

/-- the generated table is exactly the audited one -/
theorem gen_order_eq_audited : IntakeOrder.sites = audited := by decide

def body (t : List (String × List String)) (f : String) : List String :=
  match t.find? (·.1 == f) with
  | some x => x.2
  | none => []

/-- inline the intake step's own functions (bounded depth) -/
def expand (t : List (String × List String)) : Nat → List String → List String
  | 0, l => l
  | n+1, l => l.flatMap (fun tok =>
      match tok with
      | "process_event" => expand t n (body t "_process_event")
      | "first_init" => expand t n (body t "_do_first_init")
      | "walk" => expand t n (body t "_do_walk_if_needed")
      | "save_cursor" => expand t n (body t "_save_current_cursor")
      | "forget_walk" => expand t n (body t "_forget_walk")
      | "unsafe" => expand t n (body t "_do_unsafe")
      | x => [x])

/-- the discipline on a flattened statement order: after an `update` nothing persistent (marker, cursor) is written, and no loop
    iteration ends, before a `commit` -/
def orderOk : Bool → List String → Bool
  | _, [] => true
  | dirty, tok :: rest =>
    match tok with
    | "update" => orderOk true rest
    | "commit" => orderOk false rest
    | "marker" => !dirty && orderOk dirty rest
    | "cursor" => !dirty && orderOk dirty rest
    | "]" => !dirty && orderOk dirty rest
    | _ => orderOk dirty rest

/-- checked on the generated table itself: in `do()` as it is, every `state.update` is written back before the walk marker, before
    the cursor and before the next loop iteration -/
theorem gen_commit_before_marker_and_cursor :
    orderOk false (expand IntakeOrder.sites 4 (body IntakeOrder.sites "do")) = true := by decide

/-- … and the walk marker is written after the walk loop, the cursor after the event loop (positions in the flattened order) -/
theorem gen_flat_order :
    expand IntakeOrder.sites 4 (body IntakeOrder.sites "_do_unsafe") =
      ["delete_tag", "cursor", "walk_oid", "for[", "update", "commit", "]", "marker", "for[", "update", "commit", "]",
       "events", "for[", "update", "commit", "]", "cursor"] := by decide

/-- non-vacuity: the batch-commit order is refused by the same check -/
example : orderOk false ["walk_oid", "for[", "update", "]", "marker", "events", "for[", "update", "]", "commit", "cursor"] = false := by
  decide

end CS.IntakeSites
