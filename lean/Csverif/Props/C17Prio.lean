import Csverif.Proofs.SchedPrio
import Csverif.Props.C17State
/-
C17 — the priority an entry HAS is the application's `prioritize()` of its CURRENT path.
The selection laws (Props/C17.lean, C17State.lean) speak about the priority stored in an entry; this file ties that number
to the application's classes.  Model: Model/Sched.lean (`changePath`, `opUpdateDir`, `Cls`); lemmas: Proofs/SchedPrio.lean.

* `PriorityCurrent cls st`      every entry's priority is `cls side path` for one of its current non-empty paths, plus the punts
                                since (`punt` adds 1), or a punt count after `finished` reset a positive value to 0; an entry
                                without any path carries a punt count (it was never prioritised: class 0).
* `reachable_priority_current`  every state reached from a fresh SyncState by any sequence of the modelled calls that are
                                consistent with `cls` (`Op.okFor`: the `prio` a call carries is `cls` of the path it carries;
                                the provider answers of the fill-in loop likewise; folder events use `cls`) satisfies it —
                                events with or without a path, attaches, marks, punts, finished, the fill-in loop, and
                                **folder renames / moves with all their descendants at any depth** (`changePath_pcx`:
                                induction over the nesting and the kids list; `_update_kids_of` re-enters `_change_path` for
                                every kid, which re-prioritises it from its NEW path).
                                Outside: hand-written priorities (`setprio`; the engine's own parent-first inheritance,
                                manager.py:1465-1471, deliberately gives a parent the child's urgency).
* `stale_negative_impossible`   an entry with a negative priority has a current path in a negative class.
* `nonneg_class_ages`           **an entry all of whose current paths are in non-negative classes is never returned by
                                `change` before a change of it has aged** (its priority cannot be negative).
* `class_order`                 lower classes first: if `change` returns `e` while `e'` is pending and eligible, and both still
                                carry exactly the class of a current path (not punted since), then class(e) ≤ class(e').
* `kids_stale_witness`          kernel-checked: the variant that carries a kid along WITHOUT re-prioritising it (the shape of a
                                seeded regression: early return before `prioritize` while kids are being moved) leaves a kid
                                that violates `Tracks`, and `change` returns it at once although its class is 0.
-/
namespace CS.Sched

/-! ## every call consistent with `cls` preserves PriorityCurrent -/

theorem withE_pc (cls : Cls) (st : St) (id : Nat) (f : Entry → Entry × Acts) (hid : ∀ e, (f e).1.id = e.id)
    (hf : ∀ e, Tracks cls e → Tracks cls (f e).1) (h : PriorityCurrent cls st) : PriorityCurrent cls (st.withE id f) :=
  (pcx_nil cls _).1 (withE_pcx_pres cls [] st id f hid hf ((pcx_nil cls st).2 h))

theorem pc_last (cls : Cls) (st : St) (x : Rat) (h : PriorityCurrent cls st) : PriorityCurrent cls { st with last := x } := h

theorem tracks_fresh (cls : Cls) (n : Nat) (d : Bool) :
    Tracks cls ({ id := n, l := { dir := d }, r := { dir := d } } : Entry) :=
  Or.inr ⟨fun s => by cases s <;> rfl, 0, by simp⟩

theorem pc_append (cls : Cls) (st : St) (e : Entry) (he : Tracks cls e) (h : PriorityCurrent cls st) :
    PriorityCurrent cls { st with ents := st.ents ++ [e] } := by
  intro x hx
  rcases List.mem_append.1 hx with hx | hx
  · exact h x hx
  · simp only [List.mem_singleton] at hx; subst hx; exact he

theorem setChanged_pc (cls : Cls) (st : St) (id : Nat) (s : Bool) (v : Option Rat) (h : PriorityCurrent cls st) :
    PriorityCurrent cls (setChanged st id s v) :=
  withE_pc cls st id _ (fun e => by simp) (fun e he => tracks_setChangedA cls e s v he) h

theorem markChanged_pc (cls : Cls) (st : St) (s : Bool) (id : Nat) (now : Rat) (h : PriorityCurrent cls st) :
    PriorityCurrent cls (markChanged st s id now) := by
  simp only [markChanged]
  split
  · exact h
  · exact pc_last cls _ _ (withE_pc cls st id _ (fun e => by simp) (fun e he => tracks_markA cls _ _ e s he) h)

theorem opPunt_pc (cls : Cls) (st : St) (id : Nat) (h : PriorityCurrent cls st) : PriorityCurrent cls (opPunt st id) :=
  withE_pc cls st id _ (fun e => by simp) (fun e he => tracks_setPriorityA cls _ e _ (tracksAt_succ he)) h

theorem opSyncPath_pc (cls : Cls) (st : St) (s : Bool) (id : Nat) (p : String) (h : PriorityCurrent cls st) :
    PriorityCurrent cls (opSyncPath st s id p) :=
  withE_pc cls st id _ (fun e => by simp) (fun e he => tracks_setSide cls e s _ rfl he) h

theorem opAttach_pc (cls : Cls) (st : St) (s : Bool) (id : Nat) (oid path : String) (prio : Rat)
    (hne : path ≠ "") (hprio : prio = cls s path) (h : PriorityCurrent cls st) :
    PriorityCurrent cls (opAttach st s id oid path prio) := by
  simp only [opAttach]
  apply withE_pc cls _ id _ (fun e => by simp)
  · intro e he
    exact tracks_setPathA cls _ _ s path prio hne hprio (tracks_setOidA cls e s oid he)
  · have : ∀ c : Bool, PriorityCurrent cls (if c then { st with unmodelled := true } else st) := by
      intro c; cases c <;> exact h
    exact this _

theorem opUpdate_pc (cls : Cls) (st : St) (s : Bool) (oid : String) (path : Option String) (prio now : Rat)
    (hok : ∀ pth, path = some pth → pth ≠ "" ∧ prio = cls s pth) (h : PriorityCurrent cls st) :
    PriorityCurrent cls (opUpdate st s oid path prio now).1 := by
  have hf : ∀ e, Tracks cls e → Tracks cls (updateA st.punt st.last now e s oid path prio).1 :=
    fun e he => tracks_updateA cls _ _ _ e s oid path prio hok he
  cases hl : lookupOid st s oid with
  | some e0 =>
    simp only [opUpdate, hl]
    exact pc_last cls _ _ (withE_pc cls _ _ _ (fun e => by simp) hf h)
  | none =>
    simp only [opUpdate, hl]
    exact pc_last cls _ _ (withE_pc cls _ _ _ (fun e => by simp) hf
      (pc_append cls st _ (tracks_fresh cls _ false) h))

theorem opFinished_pc (cls : Cls) (dn : String → String) (st : St) (id : Nat) (h : PriorityCurrent cls st) :
    PriorityCurrent cls (opFinished dn st id) := by
  simp only [opFinished]
  cases hg : st.get? id with
  | none => exact h
  | some ent =>
    simp only
    split
    · exact h
    · intro x hx
      simp only [List.mem_map] at hx
      obtain ⟨y, hy, rfl⟩ := hx
      have hty := h y hy
      split
      · exact tracks_setPriorityA cls _ y 0 (tracksAt_zero hty)
      · exact hty

/-- the provider answers of the fill-in loop are consistent with the application's `prioritize` -/
def OracleOk (cls : Cls) (orc : Oracle) : Prop := ∀ id s pth q, orc id s = some (pth, q) → pth ≠ "" ∧ q = cls s pth

theorem fillIn_pc (cls : Cls) (orc : Oracle) (hok : OracleOk cls orc) (now : Rat) (st : St) (h : PriorityCurrent cls st) :
    PriorityCurrent cls (fillIn orc now st) := by
  have hfold : ∀ (ids : List Nat) (st : St), PriorityCurrent cls st → PriorityCurrent cls (fillFold orc now ids st) := by
    intro ids
    induction ids with
    | nil => exact fun _ h => h
    | cons id ids ih =>
      intro st h
      simp only [fillFold, List.foldl_cons]
      exact ih _ (withE_pc cls st id _ (fun e => fillEntryA_id _ _ _ _ e)
        (fun e he => tracks_fillEntryA cls _ now _ _ e (hok id false) (hok id true) he) h)
  rw [fillIn_eq]
  split
  · exact hfold _ st h
  · exact hfold _ st h

theorem changePath_pc (cls : Cls) (oip : Bool × Bool) (fuel : Nat) (st : St) (id : Nat) (s : Bool) (path : String)
    (hne : path ≠ "") (h : PriorityCurrent cls st) : PriorityCurrent cls (changePath cls oip fuel [] st id s path) :=
  (pcx_nil cls _).1 (changePath_pcx cls oip fuel [] st id s path (by simp) hne ((pcx_nil cls st).2 h))

/-- a folder appears, is renamed or moved: the folder and every descendant track afterwards -/
theorem opUpdateDir_pc (cls : Cls) (oip : Bool × Bool) (st : St) (s : Bool) (oid : String) (prior : Option String)
    (path : String) (now : Rat) (hne : path ≠ "") (h : PriorityCurrent cls st) :
    PriorityCurrent cls (opUpdateDir cls oip st s oid prior path now).1 := by
  have step : ∀ (st0 : St) (id : Nat), PriorityCurrent cls st0 →
      PriorityCurrent cls
        ((changePath cls oip ((st0.withE id (fun e => setOidA (e.setSide s { e.side s with dir := true }) s oid)).ents.length + 1) []
            (st0.withE id (fun e => setOidA (e.setSide s { e.side s with dir := true }) s oid)) id s path).withE id (fun e =>
          if now != 0 then markA st.last now (e.setSide s { e.side s with
              ex := if (e.side s).ex == .trashed || (e.side s).ex == .likelyTrashed then .likelyTrashed else .exists }) s
          else (e.setSide s { e.side s with
              ex := if (e.side s).ex == .trashed || (e.side s).ex == .likelyTrashed then .likelyTrashed else .exists }, []))) := by
    intro st0 id h0
    apply withE_pc cls _ id _
    · intro e; split <;> simp
    · intro e he
      split
      · exact tracks_markA cls _ _ _ s (tracks_setSide cls e s _ rfl he)
      · exact tracks_setSide cls e s _ rfl he
    · apply changePath_pc cls oip _ _ id s path hne
      exact withE_pc cls st0 id _ (fun e => by simp)
        (fun e he => tracks_setOidA cls _ s oid (tracks_setSide cls e s _ rfl he)) h0
  cases hf : dirTarget st s oid prior with
  | some e0 =>
    simp only [opUpdateDir, hf]
    exact pc_last cls _ _ (step _ _ h)
  | none =>
    simp only [opUpdateDir, hf]
    exact pc_last cls _ _ (step _ _ (pc_append cls st _ (tracks_fresh cls _ true) h))

/-- a call is consistent with the application's `prioritize` -/
def Op.okFor (cls : Cls) : Op → Prop
  | .update s _ path prio _ => ∀ pth, path = some pth → pth ≠ "" ∧ prio = cls s pth
  | .attach s _ _ path prio => path ≠ "" ∧ prio = cls s path
  | .setprio _ _ => False                      -- hand-written priorities are outside
  | .fill orc _ => OracleOk cls orc
  | .updateDir cls' _ _ _ _ path _ => cls' = cls ∧ path ≠ ""
  | _ => True

theorem applyOp_pc (cls : Cls) (dn : String → String) (st : St) (op : Op) (hok : op.okFor cls)
    (h : PriorityCurrent cls st) : PriorityCurrent cls (applyOp dn st op) := by
  cases op with
  | update s oid path prio now => exact opUpdate_pc cls st s oid path prio now hok h
  | attach s id oid path prio => exact opAttach_pc cls st s id oid path prio hok.1 hok.2 h
  | mark s id now => exact markChanged_pc cls st s id now h
  | punt id => exact opPunt_pc cls st id h
  | setprio id v => exact absurd hok (by simp [Op.okFor])
  | clear s id => exact setChanged_pc cls st id s _ h
  | setaged s id => exact setChanged_pc cls st id s _ h
  | syncpath s id p => exact opSyncPath_pc cls st s id p h
  | finished id => exact opFinished_pc cls dn st id h
  | fill orc now => exact fillIn_pc cls orc hok now st h
  | updateDir cls' oip s oid prior path now =>
    obtain ⟨rfl, hne⟩ := hok
    exact opUpdateDir_pc cls' oip st s oid prior path now hne h

/-- **PriorityCurrent holds in every reachable state** -/
theorem reachable_priority_current (cls : Cls) (dn : String → String) (p : Rat × Rat) (last : Rat) (ops : List Op)
    (hok : ∀ op ∈ ops, op.okFor cls) : PriorityCurrent cls (runOps dn { punt := p, last := last } ops) := by
  suffices ∀ st, PriorityCurrent cls st → PriorityCurrent cls (runOps dn st ops) from
    this _ (fun _ he => absurd he (by simp))
  induction ops with
  | nil => exact fun _ h => h
  | cons op ops ih =>
    intro st h
    exact ih (fun o ho => hok o (List.mem_cons_of_mem _ ho)) _ (applyOp_pc cls dn st op (hok op List.mem_cons_self) h)

/-! ## what it buys: the scheduling laws speak about the application's classes -/

/-- a negative priority is never stale: some current path of the entry is in a negative class -/
theorem stale_negative_impossible (cls : Cls) (e : Entry) (h : Tracks cls e) (hneg : e.priority < 0) :
    ∃ s p, (e.side s).path = some p ∧ cls s p < 0 := by
  rcases h with ⟨s, p, h1, _, hr⟩ | ⟨_, k, hk⟩
  · refine ⟨s, p, h1, ?_⟩
    rcases hr with ⟨k, hk⟩ | ⟨k, hk⟩
    · have : (0 : Rat) ≤ k := by exact_mod_cast Nat.zero_le k
      linarith
    · have : (0 : Rat) ≤ k := by exact_mod_cast Nat.zero_le k
      linarith
  · have : (0 : Rat) ≤ k := by exact_mod_cast Nat.zero_le k
    linarith

/-- **an entry whose current paths are all in non-negative classes is never propagated before it has aged**: if `change`
    returns it, a change of one of its sides was notified at least `age` ago -/
theorem nonneg_class_ages (cls : Cls) (st : St) (hpc : PriorityCurrent cls st) (now age : Rat) (e : Entry)
    (hc : changeSt st now age = some e) (hcls : ∀ s p, (e.side s).path = some p → 0 ≤ cls s p) :
    sideAged e.l.changed (now - age) = true ∨ sideAged e.r.changed (now - age) = true := by
  have h1 := change_returns_eligible _ now age e hc
  obtain ⟨j, _, hg⟩ := (mem_pendingEntries st e).1 h1.1
  have ht := hpc e (get?_mem hg)
  have hnn : ¬ e.priority < 0 := by
    intro hneg
    obtain ⟨s, p, hp, hlt⟩ := stale_negative_impossible cls e ht hneg
    exact absurd (hcls s p hp) (not_le_of_gt hlt)
  rcases (eligible_iff e now age).1 h1.2 with h | h | h
  · exact Or.inl h
  · exact Or.inr h
  · exact absurd h hnn

/-- lower classes go first, for entries that still carry exactly the class of a current path -/
theorem class_order (st : St) (cls : Cls) (now age : Rat) (e e' : Entry) (hc : changeSt st now age = some e)
    (he' : e' ∈ st.pendingEntries) (hel : eligible e' now age = true)
    (s s' : Bool) (p p' : String) (hq : e.priority = cls s p) (hq' : e'.priority = cls s' p') :
    cls s p ≤ cls s' p' := by
  rcases (change_minimal _ now age e hc e' he' hel).2 with h | ⟨h, _⟩ <;> linarith

/-! ## the variant that does not re-prioritise the descendants -/

/-- what a kid looks like after a folder move that carries it along without consulting `prioritize` -/
def staleKid : Entry :=
  { id := 1, priority := -1, l := { changed := some 2000, oid := some "k", path := some "/normal/D/K" } }

/-- the application: everything below `/urgent` is immediate, the rest normal -/
def urgentCls : Cls := fun _ p => if p == "/urgent/D/K" || p == "/urgent/D" then -1 else 0

/-- kernel-checked witness: before the move the kid (`/urgent/D/K`, priority −1) tracks; carried to `/normal/D/K` with its
    priority left alone it does not, although a re-prioritising write would; and `change` hands it out 1 s after its
    change with ageing 100, while its class is 0 -/
theorem kids_stale_witness :
    Tracks urgentCls { staleKid with l := { staleKid.l with path := some "/urgent/D/K" } } ∧
    ¬ Tracks urgentCls staleKid ∧
    Tracks urgentCls (setPathA (1/4, 1/4) { staleKid with l := { staleKid.l with path := some "/urgent/D/K" } } false
      "/normal/D/K" (urgentCls false "/normal/D/K")).1 ∧
    (change [staleKid] 2001 100).map (·.id) = some 1 ∧ urgentCls false "/normal/D/K" = 0 ∧
    change [{ staleKid with priority := 0 }] 2001 100 = none := by
  refine ⟨Or.inl ⟨false, "/urgent/D/K", rfl, by decide, Or.inl ⟨0, by decide +kernel⟩⟩, ?_, ?_, by decide +kernel,
    by decide +kernel, by decide +kernel⟩
  · intro h
    have := stale_negative_impossible urgentCls staleKid h (by decide +kernel)
    obtain ⟨s, p, hp, hlt⟩ := this
    cases s
    · have : p = "/normal/D/K" := by
        have : (staleKid.side false).path = some "/normal/D/K" := rfl
        rw [this] at hp; exact (Option.some.inj hp).symm
      subst this
      revert hlt; decide +kernel
    · have : (staleKid.side true).path = none := rfl
      rw [this] at hp; exact absurd hp (by simp)
  · apply tracks_setPathA urgentCls _ _ false _ _ (by decide) rfl
    exact Or.inl ⟨false, "/urgent/D/K", rfl, by decide, Or.inl ⟨0, by decide +kernel⟩⟩

/-- the hypotheses are satisfiable: a reachable state with a folder, a file below it, and the folder moved across classes -/
example : ∃ ops : List Op, (∀ op ∈ ops, op.okFor urgentCls) ∧ ops.length = 3 :=
  ⟨[.updateDir urgentCls (false, false) false "d" none "/urgent/D" 1000,
    .update false "k" (some "/urgent/D/K") (urgentCls false "/urgent/D/K") 1001,
    .updateDir urgentCls (false, false) false "d" none "/normal/D" 1002],
   by
     intro op hop
     simp only [List.mem_cons, List.mem_nil_iff, or_false] at hop
     rcases hop with rfl | rfl | rfl
     · exact ⟨rfl, by decide⟩
     · intro pth h; cases h; exact ⟨by decide, rfl⟩
     · exact ⟨rfl, by decide⟩,
   rfl⟩

end CS.Sched
