import Csverif.Proofs.Smart
/-
C20 — on-demand sync: remote files stay remote until requested; un-request keeps the remote copy.

Part 1: theorems about the MODEL of smartsync.py (Model/Smart.lean): the gate, the filtered pending set, the two sets,
        the un-request call path, the merged listing.  Universally quantified over every combination of the features the
        code reads, every call sequence, every list of entries.
Part 2: theorems about the SPECIFICATION the monitor executes on real runs (Model/Spec/Smart.lean): what a verdict "ok"
        means, and what the specification demands of every history.
Statements that are false of the code as it is are kept in comments next to their `_partial` version and a kernel-checked
counterexample (replayed on the real code by harness/c20_smart.py).
-/
namespace CS.Smart
set_option linter.unusedVariables false

/-! ## Part 1 — the model -/

/-! ### the gate (smartsync.py 45-67) -/

/-- when the gate finishes an entry without any transfer -/
theorem gate_finished_iff (i : GateIn) :
    (preSyncGate i).finished = true ↔
      i.superFinished = true ∨
        ((i.localOid = false ∨ i.localExists = false) ∧ i.requested = false ∧ i.remoteDir = false) := by
  obtain ⟨a, b, c, d, e, f, g, h⟩ := i
  cases a <;> cases b <;> cases c <;> cases d <;> cases e <;> cases f <;> cases g <;> cases h <;> decide

/-- **no_download_unless_requested** (gate).  The gate lets an entry that is not a folder through to the transferring
    code only if the entry is requested or a local copy exists.  (An auto-sync predicate acts by putting the entry in
    the request set before the gate sees it: `no_download_unless_requested_pipeline`.) -/
theorem no_download_unless_requested (i : GateIn)
    (hpass : (preSyncGate i).finished = false) (hfile : i.remoteDir = false) :
    i.requested = true ∨ (i.localOid = true ∧ i.localExists = true) := by
  obtain ⟨a, b, c, d, e, f, g, h⟩ := i
  cases a <;> cases b <;> cases c <;> cases d <;> cases e <;> cases f <;> cases g <;> cases h <;> simp_all [preSyncGate]

/-- the same as a decision: without a local copy, unrequested, not a folder ⇒ "finish without transfer" -/
theorem gate_blocks_unrequested (i : GateIn) (hreq : i.requested = false) (hdir : i.remoteDir = false)
    (hloc : i.localOid = false ∨ i.localExists = false) :
    ∃ n, gateDecision i = .finishWithoutTransfer n := by
  have h : (preSyncGate i).finished = true := by
    rw [gate_finished_iff]; exact Or.inr ⟨hloc, hreq, hdir⟩
  exact ⟨(preSyncGate i).note, by simp [gateDecision, h]⟩

/-- … and the application is told: SYNC_SMART_UNSYNCED, carrying the remote path whenever the entry has one -/
theorem gate_unrequested_notifies (i : GateIn) (hsup : i.superFinished = false) (hreq : i.requested = false)
    (hdir : i.remoteDir = false) (hloc : i.localOid = false ∨ i.localExists = false) (hpath : i.remotePath = true) :
    preSyncGate i = { finished := true, note := some ⟨.rem, .smartUnsynced, .remotePath⟩ } := by
  obtain ⟨a, b, c, d, e, f, g, h⟩ := i
  cases a <;> cases b <;> cases c <;> cases d <;> cases e <;> cases f <;> cases g <;> cases h <;> simp_all [preSyncGate]

/-- an entry the generic engine already discarded is reported as SYNC_DISCARDED, never as "skipped" -/
theorem gate_discarded_note (i : GateIn) (hsup : i.superFinished = true) :
    (preSyncGate i).finished = true ∧ ∀ n, (preSyncGate i).note = some n → n.ntype = .discarded := by
  obtain ⟨a, b, c, d, e, f, g, h⟩ := i
  cases a <;> cases b <;> cases c <;> cases d <;> cases e <;> cases f <;> cases g <;> cases h <;>
    simp_all [preSyncGate] <;> (intro n hn; subst hn; rfl)

/-- no notification without a path; the local path is used only when nothing else is available -/
theorem gate_note_path (i : GateIn) (n : Note) (h : (preSyncGate i).note = some n) :
    (n.path = .remotePath ↔ i.remotePath = true) ∧
    (n.path = .translatedLocal → i.localPath = true ∧ i.translates = true) ∧
    (n.src = .loc ↔ n.path = .rawLocal) := by
  obtain ⟨a, b, c, d, e, f, g, h'⟩ := i
  cases a <;> cases b <;> cases c <;> cases d <;> cases e <;> cases f <;> cases g <;> cases h' <;>
    simp_all [preSyncGate] <;> (subst h; simp)

/-- the gate never sends a notification for an entry it lets through -/
theorem gate_pass_silent (i : GateIn) (h : (preSyncGate i).finished = false) : (preSyncGate i).note = none := by
  obtain ⟨a, b, c, d, e, f, g, h'⟩ := i
  cases a <;> cases b <;> cases c <;> cases d <;> cases e <;> cases f <;> cases g <;> cases h' <;> simp_all [preSyncGate]

/-! ### the filtered pending set (175-204) -/

theorem firstMatch_eq_any (rp : Bool) (cbs : List Bool) : firstMatch rp cbs = (rp && cbs.any id) := by
  induction cbs with
  | nil => simp [firstMatch]
  | cons c cs ih => cases rp <;> cases c <;> simp_all [firstMatch]

/-- when the filter offers an entry to the sync step -/
theorem filter_included_iff (i : FilterIn) :
    (changesetFilter i).included = true ↔
      ¬ (i.inExclude = true ∧ i.localChanged = false) ∧
      (i.inRequest = true ∨ i.remoteDir = true ∨ ((i.remoteChanged = true ∨ i.localChanged = true) ∧ i.isLatest = false) ∨
        (i.localOid = false ∧ firstMatch i.remotePath i.callbacks = true)) := by
  obtain ⟨a, b, c, d, e, f, g, h, cbs, x, y⟩ := i
  cases hm : firstMatch h cbs <;>
  cases a <;> cases b <;> cases c <;> cases d <;> cases e <;> cases f <;> cases g <;> simp_all [changesetFilter]

/-- the filter changes the sets only by REQUESTING an entry matched by a predicate -/
theorem filter_mem (i : FilterIn) :
    (changesetFilter i).mem = { req := i.inRequest, excl := i.inExclude } ∨
    ((changesetFilter i).mem = { req := true, excl := false } ∧ i.inRequest = false ∧ i.localOid = false ∧
      firstMatch i.remotePath i.callbacks = true) := by
  obtain ⟨a, b, c, d, e, f, g, h, cbs, x, y⟩ := i
  cases hm : firstMatch h cbs <;>
  cases a <;> cases b <;> cases c <;> cases d <;> cases e <;> cases f <;> cases g <;> simp_all [changesetFilter, smartSyncEnt]

/-- the filter never leaves an entry in both sets (given it was not in both) -/
theorem filter_keeps_disjoint (i : FilterIn) (h : ¬ (i.inRequest = true ∧ i.inExclude = true)) :
    ¬ ((changesetFilter i).mem.req = true ∧ (changesetFilter i).mem.excl = true) := by
  rcases filter_mem i with hm | ⟨hm, _⟩ <;> rw [hm] <;> simp_all

/-- an entry skipped because it was un-requested is reported (SYNC_SMART_UNSYNCED) and nothing else is -/
theorem filter_notified_iff (i : FilterIn) :
    (changesetFilter i).notified = true ↔ (i.inExclude = true ∧ i.localChanged = false) := by
  obtain ⟨a, b, c, d, e, f, g, h, cbs, x, y⟩ := i
  cases hm : firstMatch h cbs <;>
  cases a <;> cases b <;> cases c <;> cases d <;> cases e <;> cases f <;> cases g <;> simp_all [changesetFilter]

/-- the gate sees the entry as the filter left it -/
def Consistent (f : FilterIn) (g : GateIn) : Prop :=
  g.requested = (changesetFilter f).mem.req ∧ g.remoteDir = f.remoteDir ∧ g.localOid = f.localOid

/-- **no_download_unless_requested** (filter + gate).  A file entry without a local copy is offered by the filter AND let
    through by the gate only if the application requested it or a registered auto-sync predicate accepts its remote path. -/
theorem no_download_unless_requested_pipeline (f : FilterIn) (g : GateIn) (hc : Consistent f g)
    (hoffered : (changesetFilter f).included = true) (hpass : (preSyncGate g).finished = false)
    (hfile : g.remoteDir = false) (hnolocal : g.localOid = false ∨ g.localExists = false) :
    f.inRequest = true ∨ (f.remotePath = true ∧ f.callbacks.any id = true) := by
  have h1 := no_download_unless_requested g hpass hfile
  have hreq : g.requested = true := by
    rcases h1 with h1 | ⟨h2, h3⟩
    · exact h1
    · rcases hnolocal with h | h <;> simp_all
  rw [hc.1] at hreq
  rcases filter_mem f with hm | ⟨_, _, _, hm⟩
  · rw [hm] at hreq; exact Or.inl hreq
  · rw [firstMatch_eq_any] at hm
    exact Or.inr (by simpa using hm)

/-! ### folders are always mirrored -/

/- FULL STATEMENT (false of the code as it is — a folder that was un-requested sits in the exclude set and is skipped):
theorem folders_always_mirrored (f : FilterIn) (hdir : f.remoteDir = true) : (changesetFilter f).included = true -/

/-- **folders_always_mirrored** (partial: the folder was never un-requested, or has a local change).  Every pending
    folder entry is offered by the filter, and the gate lets every folder entry through that the generic engine has
    not discarded — whether or not anybody requested it. -/
theorem folders_always_mirrored_partial (f : FilterIn) (g : GateIn) (hdirf : f.remoteDir = true) (hdirg : g.remoteDir = true)
    (hexcl : f.inExclude = false ∨ f.localChanged = true) (hsup : g.superFinished = false) :
    (changesetFilter f).included = true ∧ (preSyncGate g).finished = false ∧ gateDecision g = .syncNormally := by
  refine ⟨?_, ?_, ?_⟩
  · rw [filter_included_iff]
    refine ⟨?_, Or.inr (Or.inl hdirf)⟩
    rintro ⟨h1, h2⟩
    rcases hexcl with h | h <;> simp_all
  · cases hfin : (preSyncGate g).finished with
    | false => rfl
    | true =>
      rw [gate_finished_iff] at hfin
      rcases hfin with h | ⟨_, _, h⟩ <;> simp_all
  · have : (preSyncGate g).finished = false := by
      cases hfin : (preSyncGate g).finished with
      | false => rfl
      | true =>
        rw [gate_finished_iff] at hfin
        rcases hfin with h | ⟨_, _, h⟩ <;> simp_all
    simp [gateDecision, this]

/-- counterexample to the full statement: a folder entry in the exclude set (request + un-request of the folder) with a
    pending remote change is NOT offered; replayed on the real code (known finding `unrequest-folder-unmirrors`) -/
theorem folder_excluded_is_skipped :
    (changesetFilter { inExclude := true, localChanged := false, inRequest := false, remoteDir := true, remoteChanged := true,
                       isLatest := false, localOid := false, remotePath := true, callbacks := [], localPath := false,
                       localPathExists := false }).included = false := by
  decide

/-! ### local creations are always uploaded -/

/- FULL STATEMENT (false of the model: an entry with a pending local change whose provider info is already current and
   that is not requested is not offered — the engine relies on a punt/priority bump to make it "not latest" again):
theorem local_creations_always_uploaded (f : FilterIn) (h : f.localChanged = true) (hl : f.localOid = true) :
    (changesetFilter f).included = true -/

/-- **local_creations_always_uploaded** (partial: the entry's provider info is stale, which is the state every local
    event leaves it in).  A pending local change is offered regardless of both sets, and the gate lets every entry with
    an existing local object through regardless of the request set. -/
theorem local_creations_always_uploaded_partial (f : FilterIn) (g : GateIn)
    (hchanged : f.localChanged = true) (hstale : f.isLatest = false)
    (hloc : g.localOid = true ∧ g.localExists = true) (hsup : g.superFinished = false) :
    (changesetFilter f).included = true ∧ (changesetFilter f).notified = false ∧ gateDecision g = .syncNormally := by
  refine ⟨?_, ?_, ?_⟩
  · rw [filter_included_iff]
    exact ⟨by simp [hchanged], Or.inr (Or.inr (Or.inl ⟨Or.inr hchanged, hstale⟩))⟩
  · cases hn : (changesetFilter f).notified with
    | false => rfl
    | true => rw [filter_notified_iff] at hn; simp_all
  · have : (preSyncGate g).finished = false := by
      cases hfin : (preSyncGate g).finished with
      | false => rfl
      | true =>
        rw [gate_finished_iff] at hfin
        rcases hfin with h | ⟨h | h, _, _⟩ <;> simp_all
    simp [gateDecision, this]

/-- counterexample to the full statement -/
theorem local_change_latest_unrequested_not_offered :
    (changesetFilter { inExclude := false, localChanged := true, inRequest := false, remoteDir := false, remoteChanged := false,
                       isLatest := true, localOid := true, remotePath := false, callbacks := [true], localPath := true,
                       localPathExists := true }).included = false := by
  decide

/-! ### the request set and the exclude set (105-114, 133-151) -/

/-- the sets stay disjoint under every sequence of request / un-request calls on any entries -/
theorem sets_stay_disjoint (s : Sets) (cs : List Call) (h : Disjoint s) : Disjoint (runCalls s cs) :=
  disjoint_runCalls s cs h

/-- calls that address other entries do not move `x` -/
theorem calls_frame (s : Sets) (cs : List Call) (x : Nat) (h : ∀ c ∈ cs, c.entry ≠ x) :
    (x ∈ (runCalls s cs).req ↔ x ∈ s.req) ∧ (x ∈ (runCalls s cs).excl ↔ x ∈ s.excl) := by
  induction cs generalizing s with
  | nil => exact ⟨Iff.rfl, Iff.rfl⟩
  | cons c cs ih =>
    have h1 := applyCall_frame s c x (h c (by simp))
    have h2 := ih (applyCall s c) (fun c' hc' => h c' (by simp [hc']))
    exact ⟨h2.1.trans h1.1, h2.2.trans h1.2⟩

/-- last call = request: in the request set, not in the exclude set -/
theorem last_call_request (s : Sets) (cs : List Call) (e : Nat) :
    e ∈ (runCalls s (cs ++ [.request e])).req ∧ e ∉ (runCalls s (cs ++ [.request e])).excl := by
  rw [runCalls_snoc]
  simp [applyCall, request_mem_req, request_mem_excl]

/-- last call = un-request: not in the request set; in the exclude set exactly if it was in one of the sets before -/
theorem last_call_unrequest (s : Sets) (cs : List Call) (e : Nat) :
    e ∉ (runCalls s (cs ++ [.unrequest e])).req ∧
    (e ∈ (runCalls s (cs ++ [.unrequest e])).excl ↔ (e ∈ (runCalls s cs).req ∨ e ∈ (runCalls s cs).excl)) := by
  rw [runCalls_snoc]
  show e ∉ (unrequest (runCalls s cs) e).req ∧ (e ∈ (unrequest (runCalls s cs) e).excl ↔ _)
  rw [unrequest_mem_req, unrequest_mem_excl]
  refine ⟨fun h => h.2 rfl, ?_⟩
  constructor
  · rintro (h | ⟨_, h⟩)
    · exact Or.inr h
    · exact Or.inl h
  · rintro (h | h)
    · exact Or.inr ⟨rfl, h⟩
    · exact Or.inl h

/-- once an entry is in one of the sets it stays in one of them -/
theorem in_some_set_stable (s : Sets) (cs : List Call) (e : Nat) (h : e ∈ s.req ∨ e ∈ s.excl) :
    e ∈ (runCalls s cs).req ∨ e ∈ (runCalls s cs).excl := by
  induction cs generalizing s with
  | nil => exact h
  | cons c cs ih =>
    apply ih
    cases c with
    | request x =>
      simp only [applyCall, request_mem_req, request_mem_excl]
      by_cases hx : e = x
      · exact Or.inl (Or.inr hx)
      · rcases h with h | h
        · exact Or.inl (Or.inl h)
        · exact Or.inr ⟨h, hx⟩
    | unrequest x =>
      simp only [applyCall, unrequest_mem_req, unrequest_mem_excl]
      by_cases hx : e = x
      · rcases h with h | h
        · exact Or.inr (Or.inr ⟨hx, hx ▸ h⟩)
        · exact Or.inr (Or.inl h)
      · rcases h with h | h
        · exact Or.inl ⟨h, hx⟩
        · exact Or.inr (Or.inl h)

/-- after a request the entry is in one of the sets for ever -/
theorem requested_once_in_some_set (s : Sets) (cs : List Call) (e : Nat) (h : Call.request e ∈ cs) :
    e ∈ (runCalls s cs).req ∨ e ∈ (runCalls s cs).excl := by
  obtain ⟨a, b, rfl⟩ := List.append_of_mem h
  have : runCalls s (a ++ Call.request e :: b) = runCalls (runCalls s (a ++ [.request e])) b := by
    rw [← runCalls_append]; simp
  rw [this]
  exact in_some_set_stable _ b e (Or.inl (last_call_request s a e).1)

/- FULL STATEMENT (false: un-requesting an entry that is in neither set leaves it in neither set — `_smart_unsync` only
   moves entries that are in the request set):
theorem request_unrequest_sets (s : Sets) (cs : List Call) (c : Call) (h : Disjoint s) :
    let s' := runCalls s (cs ++ [c])
    (c = .request c.entry → c.entry ∈ s'.req ∧ c.entry ∉ s'.excl) ∧
    (c = .unrequest c.entry → c.entry ∉ s'.req ∧ c.entry ∈ s'.excl) -/

/-- **request_unrequest_sets** (partial: the entry was requested at some point of the sequence, or started in one of the
    sets).  After ANY sequence of request / un-request calls (on any entries) the entry addressed by the LAST call is in
    exactly one of the two sets, the one the last call names; the sets are disjoint throughout. -/
theorem request_unrequest_sets_partial (s : Sets) (cs : List Call) (c : Call) (h : Disjoint s)
    (hreq : Call.request c.entry ∈ cs ++ [c] ∨ c.entry ∈ s.req ∨ c.entry ∈ s.excl) :
    let s' := runCalls s (cs ++ [c])
    Disjoint s' ∧
    (c = .request c.entry → c.entry ∈ s'.req ∧ c.entry ∉ s'.excl) ∧
    (c = .unrequest c.entry → c.entry ∉ s'.req ∧ c.entry ∈ s'.excl) := by
  refine ⟨disjoint_runCalls _ _ h, ?_, ?_⟩
  · intro hc
    rw [hc]
    exact last_call_request s cs _
  · intro hc
    have hl := last_call_unrequest s cs c.entry
    rw [← hc] at hl
    refine ⟨hl.1, hl.2.mpr ?_⟩
    rcases hreq with hr | hr
    · rw [List.mem_append] at hr
      rcases hr with hr | hr
      · exact requested_once_in_some_set s cs _ hr
      · rw [hc] at hr; simp at hr
    · exact in_some_set_stable s cs _ hr

/-- without that hypothesis only the request-set half survives: after a last call `unrequest e`, `e` is never requested -/
theorem unrequest_last_not_requested (s : Sets) (cs : List Call) (e : Nat) :
    e ∉ (runCalls s (cs ++ [.unrequest e])).req := (last_call_unrequest s cs e).1

/-- counterexample to the full statement: un-request of a never-requested entry leaves it in NEITHER set
    (replayed on the real `SmartSyncState`: un-request of a never-requested file) -/
theorem unrequest_never_requested_in_neither_set :
    let s := runCalls { req := [], excl := [] } [.unrequest 0]
    (0 ∉ s.req) ∧ (0 ∉ s.excl) := by
  decide

/-! ### the un-request call path (327-362, 133-158) -/

/-- the direct provider writes of the flush part and of the state part -/
theorem flushPart_no_direct_write (e : Nat) (i : UnsyncIn) (a : Act) (ha : a ∈ flushPart e i) : a.isDirectWrite = false := by
  rw [mem_flushPart] at ha
  rcases ha with h | ⟨_, h⟩ <;> subst h <;> rfl

theorem statePart_direct_write (e : Nat) (i : UnsyncIn) (a : Act) (ha : a ∈ statePart e i) (hw : a.isDirectWrite = true) :
    a = .write .loc .delete e ∧ i.localPath = true ∧ i.localInfo = true := by
  rw [mem_statePart] at ha
  rcases ha with ⟨hp, h | ⟨hi, h⟩ | h⟩ | h
  · subst h; simp [Act.isDirectWrite] at hw
  · exact ⟨h, hp, hi⟩
  · subst h; simp [Act.isDirectWrite] at hw
  · subst h; simp [Act.isDirectWrite] at hw

/-- **unrequest_only_deletes_local** (by id).  The only provider write `smart_unsync_oid` makes itself is a LOCAL delete,
    and it makes it only for an entry that is requested and whose local file exists -/
theorem unrequest_only_deletes_local (found : Bool) (i : UnsyncIn) (a : Act)
    (ha : a ∈ unsyncOid found i) (hw : a.isDirectWrite = true) :
    a = .write .loc .delete 0 ∧ found = true ∧ i.requested = true ∧ i.localPath = true ∧ i.localInfo = true := by
  unfold unsyncOid at ha
  cases found with
  | false => simp at ha; subst ha; simp [Act.isDirectWrite] at hw
  | true =>
    simp only [Bool.not_true, Bool.false_eq_true, if_false, List.mem_append] at ha
    rcases ha with ha | ha
    · rw [flushPart_no_direct_write 0 i a ha] at hw; exact absurd hw (by simp)
    · cases hr : i.requested with
      | false => simp [hr] at ha; subst ha; simp [Act.isDirectWrite] at hw
      | true =>
        simp only [hr, if_true, List.mem_append, List.mem_singleton] at ha
        rcases ha with ha | ha
        · obtain ⟨h1, h2, h3⟩ := statePart_direct_write 0 i a ha hw
          exact ⟨h1, rfl, rfl, h2, h3⟩
        · subst ha; simp [Act.isDirectWrite] at hw

/-- splitting a concatenation at an element that does not occur in the first part -/
theorem append_split_of_not_mem {α : Type} (A B pre post : List α) (x : α) (hx : x ∉ A)
    (h : A ++ B = pre ++ x :: post) : ∃ B1, pre = A ++ B1 ∧ B = B1 ++ x :: post := by
  rw [List.append_eq_append_iff] at h
  rcases h with ⟨a', h1, h2⟩ | ⟨c', h1, h2⟩
  · exact ⟨a', h1, h2⟩
  · cases c' with
    | nil =>
      simp only [List.append_nil, List.nil_append] at h1 h2
      exact ⟨[], by simp [h1], h2.symm⟩
    | cons c cs =>
      simp only [List.cons_append, List.cons.injEq] at h2
      exact absurd (by rw [h1, h2.1]; simp) hx

/-- **unrequest_only_deletes_local**, order half (by id): wherever the local delete stands in the call, the refresh of the
    local side and — when the local copy is newer than what was last synchronised — the flush (`_sync_one_entry`) stand
    BEFORE it, and nothing that talks to the engine or a provider except bookkeeping comes after it -/
theorem unrequest_flush_before_delete (found : Bool) (i : UnsyncIn) (pre post : List Act)
    (h : unsyncOid found i = pre ++ Act.write .loc .delete 0 :: post) :
    Act.getLatestLocal 0 ∈ pre ∧ (i.newer = true → Act.flush 0 ∈ pre) ∧
    (∀ e, Act.flush e ∉ post) ∧ (∀ a ∈ post, a.isDirectWrite = false) := by
  have hmem : Act.write .loc .delete 0 ∈ unsyncOid found i := by rw [h]; simp
  obtain ⟨_, hf, hr, hp, hi⟩ := unrequest_only_deletes_local found i _ hmem rfl
  subst hf
  unfold unsyncOid at h
  simp only [Bool.not_true, Bool.false_eq_true, if_false, hr, if_true] at h
  obtain ⟨B1, hpre, hB⟩ := append_split_of_not_mem _ _ pre post _ (write_not_mem_flushPart 0 i .loc .delete 0) h
  refine ⟨?_, ?_, ?_, ?_⟩
  · rw [hpre, List.mem_append, mem_flushPart]; exact Or.inl (Or.inl rfl)
  · intro hn; rw [hpre, List.mem_append, mem_flushPart]; exact Or.inl (Or.inr ⟨hn, rfl⟩)
  · intro e he
    have : Act.flush e ∈ statePart 0 i ++ [Act.returnOk] := by rw [hB]; simp [he]
    rw [List.mem_append] at this
    rcases this with h1 | h1
    · exact flush_not_mem_statePart 0 e i h1
    · simp at h1
  · intro a ha
    -- the state part with a local path and an existing local file is [info, delete, clear, move]
    have hs : statePart 0 i = [.localInfo 0, .write .loc .delete 0, .clearLocal 0, .moveToExcluded 0] := by
      simp [statePart, hp, hi]
    rw [hs] at hB
    have hcount : post = [.clearLocal 0, .moveToExcluded 0, .returnOk] := by
      rcases B1 with _ | ⟨b, B1⟩
      · simp at hB
      · rcases B1 with _ | ⟨b2, B1⟩
        · simp at hB; exact hB.2.symm
        · simp at hB
          obtain ⟨_, h2, h3⟩ := hB
          rcases B1 with _ | ⟨b3, B1⟩
          · simp at h3
          · simp at h3
            obtain ⟨_, h4⟩ := h3
            rcases B1 with _ | ⟨b4, B1⟩
            · simp at h4
            · simp at h4
              obtain ⟨_, h5⟩ := h4
              rcases B1 with _ | ⟨b5, B1⟩
              · simp at h5
              · simp at h5
    rw [hcount] at ha
    simp at ha
    rcases ha with h1 | h1 | h1 <;> subst h1 <;> rfl

/-- the direct writes of the by-path route -/
theorem mem_flatMap_flushPart_no_write (rs : List (Nat × UnsyncIn)) (a : Act)
    (ha : a ∈ rs.flatMap (fun x => flushPart x.1 x.2)) : a.isDirectWrite = false := by
  rw [List.mem_flatMap] at ha
  obtain ⟨x, _, hx⟩ := ha
  exact flushPart_no_direct_write x.1 x.2 a hx

/-- **unrequest_only_deletes_local** (by path, any number of entries at the path): every provider write the call makes
    itself is a LOCAL delete of a requested entry whose local file exists -/
theorem unrequest_path_only_deletes_local (t : Bool) (ents : List UnsyncIn) (a : Act)
    (ha : a ∈ unsyncPath t ents) (hw : a.isDirectWrite = true) :
    ∃ x ∈ number 0 ents, a = .write .loc .delete x.1 ∧ x.2.requested = true ∧ x.2.localPath = true ∧ x.2.localInfo = true := by
  unfold unsyncPath at ha
  cases t with
  | false => simp at ha; subst ha; simp [Act.isDirectWrite] at hw
  | true =>
    simp only [Bool.not_true, Bool.false_eq_true, if_false] at ha
    split at ha
    · simp at ha; subst ha; simp [Act.isDirectWrite] at hw
    · simp only [List.mem_append, List.mem_singleton] at ha
      rcases ha with (ha | ha) | ha
      · rw [mem_flatMap_flushPart_no_write _ a ha] at hw; exact absurd hw (by simp)
      · rw [List.mem_flatMap] at ha
        obtain ⟨x, hx, hax⟩ := ha
        rw [List.mem_filter] at hx
        obtain ⟨h1, h2, h3⟩ := statePart_direct_write x.1 x.2 a hax hw
        exact ⟨x, hx.1, h1, hx.2, h2, h3⟩
      · subst ha; simp [Act.isDirectWrite] at hw

/-- order half (by path): after a local delete no flush follows (every flush of every entry comes first) -/
theorem unrequest_path_flush_before_delete (t : Bool) (ents : List UnsyncIn) (pre post : List Act) (e : Nat)
    (h : unsyncPath t ents = pre ++ Act.write .loc .delete e :: post) :
    (∀ e', Act.flush e' ∉ post) ∧
    (∀ x ∈ number 0 ents, x.2.requested = true → x.2.newer = true → Act.flush x.1 ∈ pre) ∧
    (∀ x ∈ number 0 ents, x.2.requested = true → Act.getLatestLocal x.1 ∈ pre) := by
  have hmem : Act.write .loc .delete e ∈ unsyncPath t ents := by rw [h]; simp
  unfold unsyncPath at h hmem
  cases t with
  | false => simp at hmem
  | true =>
    simp only [Bool.not_true, Bool.false_eq_true, if_false] at h hmem
    split at h
    · rename_i hemp; simp [hemp] at hmem
    · have hnot : Act.write .loc .delete e ∉ ((number 0 ents).filter (fun x => x.2.requested)).flatMap (fun x => flushPart x.1 x.2) := by
        intro hc
        have := mem_flatMap_flushPart_no_write _ _ hc
        simp [Act.isDirectWrite] at this
      rw [List.append_assoc] at h
      obtain ⟨B1, hpre, hB⟩ := append_split_of_not_mem _ _ pre post _ hnot h
      refine ⟨?_, ?_, ?_⟩
      · intro e' he'
        have : Act.flush e' ∈ ((number 0 ents).filter (fun x => x.2.requested)).flatMap (fun x => statePart x.1 x.2) ++ [Act.returnOk] := by
          rw [hB]; simp [he']
        rw [List.mem_append] at this
        rcases this with h1 | h1
        · rw [List.mem_flatMap] at h1
          obtain ⟨x, _, hx⟩ := h1
          exact flush_not_mem_statePart x.1 e' x.2 hx
        · simp at h1
      · intro x hx hr hn
        rw [hpre, List.mem_append]
        refine Or.inl ?_
        rw [List.mem_flatMap]
        exact ⟨x, by rw [List.mem_filter]; exact ⟨hx, hr⟩, by rw [mem_flushPart]; exact Or.inr ⟨hn, rfl⟩⟩
      · intro x hx hr
        rw [hpre, List.mem_append]
        refine Or.inl ?_
        rw [List.mem_flatMap]
        exact ⟨x, by rw [List.mem_filter]; exact ⟨hx, hr⟩, by rw [mem_flushPart]; exact Or.inl rfl⟩

/-- nothing is written (and no set is touched) for an entry that is not in the request set: un-request of a file that was
    never requested is a no-op on the providers -/
theorem unrequest_not_requested_no_write (found : Bool) (i : UnsyncIn) (h : i.requested = false) :
    ∀ a ∈ unsyncOid found i, a.isDirectWrite = false ∧ a ≠ .moveToExcluded 0 ∧ a ≠ .clearLocal 0 := by
  intro a ha
  unfold unsyncOid at ha
  cases found with
  | false => simp at ha; subst ha; simp [Act.isDirectWrite]
  | true =>
    simp only [Bool.not_true, Bool.false_eq_true, if_false, h, List.mem_append, List.mem_singleton, mem_flushPart] at ha
    rcases ha with (ha | ⟨_, ha⟩) | ha <;> subst ha <;> simp [Act.isDirectWrite]

/-! ### the merged listing (394-424, 246-313) -/

/-- the flag of a reported entry is exactly "a local directory entry exists" -/
theorem listEntry_flag (i : ListIn) (s : Bool) (h : listEntry i = some s) : s = i.hasLocal := by
  obtain ⟨a, b, c, d, e, f, g, h'⟩ := i
  cases a <;> cases b <;> cases c <;> cases d <;> cases e <;> cases f <;> cases g <;> cases h' <;>
    simp_all [listEntry, getSmartInfo]

/- FULL STATEMENT (false of the model: while a local rename is in progress — the remote entry of that name has a local
   path that no longer matches — the name is dropped even though a local file of that name exists):
theorem listing_local_synced (i : ListIn) (hl : i.hasLocal = true) (hv : i.localVisible = true) : listEntry i = some true -/

/-- **listing_flags**, first half (partial: no local rename in progress for the remote entry of that name — histories of
    the property have no renames): every local file is reported, as synced -/
theorem listing_local_synced_partial (i : ListIn) (hl : i.hasLocal = true) (hv : i.localVisible = true)
    (hren : i.hasRent = true → i.rentLocalPath = true → i.pathsMatch = true) : listEntry i = some true := by
  obtain ⟨a, b, c, d, e, f, g, h'⟩ := i
  cases a <;> cases b <;> cases c <;> cases d <;> cases e <;> cases f <;> cases g <;> cases h' <;>
    simp_all [listEntry, getSmartInfo]

/-- counterexample to the full statement -/
theorem listing_hides_local_during_rename :
    listEntry { hasLocal := true, hasRent := true, rentLocalPath := true, pathsMatch := false, localGone := false,
                remoteGone := false, localVisible := true, remoteVisible := true } = none := by
  decide

/-- **listing_flags**, second half: a name without a local entry is never reported as synced … -/
theorem listing_remote_only_never_synced (i : ListIn) (hl : i.hasLocal = false) : listEntry i ≠ some true := by
  intro h
  have := listEntry_flag i true h
  simp_all

/-- … and a not-yet-downloaded remote file the engine knows (live on the remote side, metadata fetched, local side
    neither trashed nor being renamed) IS reported, as not synced -/
theorem listing_remote_only_not_synced (i : ListIn) (hl : i.hasLocal = false) (hr : i.hasRent = true)
    (hlg : i.localGone = false) (hrg : i.remoteGone = false) (hv : i.remoteVisible = true)
    (hren : i.rentLocalPath = true → i.pathsMatch = true) : listEntry i = some false := by
  obtain ⟨a, b, c, d, e, f, g, h'⟩ := i
  cases a <;> cases b <;> cases c <;> cases d <;> cases e <;> cases f <;> cases g <;> cases h' <;>
    simp_all [listEntry, getSmartInfo]

/-- **listing_flags** for the whole listing of a folder, any set of names: every reported row comes from a name of the
    union and carries the flag "has a local entry"; every row the per-name function yields is reported -/
theorem listing_flags {N : Type} (names : List (N × ListIn)) (n : N) (s : Bool) :
    (n, s) ∈ mergedListing names ↔ ∃ i, (n, i) ∈ names ∧ listEntry i = some s := by
  unfold mergedListing
  rw [List.mem_filterMap]
  constructor
  · rintro ⟨⟨n', i⟩, hm, hx⟩
    cases hle : listEntry i with
    | none => simp [hle] at hx
    | some s' =>
      simp only [hle, Option.map_some, Option.some.injEq, Prod.mk.injEq] at hx
      obtain ⟨h1, h2⟩ := hx
      subst h1; subst h2
      exact ⟨i, hm, hle⟩
  · rintro ⟨i, hm, hle⟩
    exact ⟨(n, i), hm, by simp [hle]⟩

theorem listing_flags_synced_iff_local {N : Type} (names : List (N × ListIn)) (n : N) (s : Bool)
    (h : (n, s) ∈ mergedListing names) : ∃ i, (n, i) ∈ names ∧ s = i.hasLocal := by
  rw [listing_flags] at h
  obtain ⟨i, hm, hle⟩ := h
  exact ⟨i, hm, listEntry_flag i s hle⟩

/-! ### the listing law holds in EVERY state, not only at quiescence -/

/-- **listed ⇒ no tombstone** (`_get_smartinfo`, all feature combinations = all states): whatever is reported as a
    not-downloaded remote object has neither side known TRASHED/MISSING -/
theorem info_remote_only_not_gone (i : ListIn) (h : getSmartInfo i = some false) :
    i.localGone = false ∧ i.remoteGone = false ∧ i.hasLocal = false ∧ i.hasRent = true := by
  obtain ⟨a, b, c, d, e, f, g, h'⟩ := i
  cases a <;> cases b <;> cases c <;> cases d <;> cases e <;> cases f <;> cases g <;> cases h' <;>
    simp_all [getSmartInfo]

/-- the same for a row of the merged folder listing, for `smart_info_path` and for `smart_info_oid` -/
theorem listed_remote_only_not_gone (i : ListIn) (h : listEntry i = some false) :
    i.localGone = false ∧ i.remoteGone = false := by
  obtain ⟨a, b, c, d, e, f, g, h'⟩ := i
  cases a <;> cases b <;> cases c <;> cases d <;> cases e <;> cases f <;> cases g <;> cases h' <;>
    simp_all [listEntry, getSmartInfo]

theorem infoPath_remote_only_not_gone (i : ListIn) (h : infoPath i = some false) :
    i.localGone = false ∧ i.remoteGone = false :=
  let r := info_remote_only_not_gone i h; ⟨r.1, r.2.1⟩

theorem infoOid_not_gone (k t : Bool) (i : ListIn) (s : Bool) (h : infoOid k t i = some s) :
    s = false ∧ k = true ∧ t = true ∧ i.localGone = false ∧ i.remoteGone = false := by
  obtain ⟨a, b, c, d, e, f, g, h'⟩ := i
  cases k <;> cases t <;> cases s <;> cases a <;> cases b <;> cases c <;> cases d <;> cases e <;> cases f <;> cases g <;>
    cases h' <;> simp_all [infoOid, getSmartInfo]

/-- … so in the whole listing of a folder, in any state, no row stands for an entry with a tombstone on either side -/
theorem merged_listing_no_ghost {N : Type} (names : List (N × ListIn)) (n : N) (h : (n, false) ∈ mergedListing names) :
    ∃ i, (n, i) ∈ names ∧ i.localGone = false ∧ i.remoteGone = false := by
  rw [listing_flags] at h
  obtain ⟨i, hm, hle⟩ := h
  exact ⟨i, hm, listed_remote_only_not_gone i hle⟩

/-- kernel-checked witness for the variant that tests the LOCAL tombstone twice: a never-downloaded file whose remote side
    is known TRASHED (remote delete taken in, sync step not yet run: size/mtime still there) is reported as a remote file,
    while the code as it is reports nothing -/
theorem ghost_listed_when_local_checked_twice :
    let i : ListIn := { hasLocal := false, hasRent := true, rentLocalPath := false, pathsMatch := false, localGone := false,
                        remoteGone := true, localVisible := false, remoteVisible := true }
    getSmartInfoLocalTwice i = some false ∧ getSmartInfo i = none ∧ listEntry i = none := by
  decide

/-- non-vacuity: concrete feature vectors for every clause above -/
example :
    preSyncGate ⟨false, false, false, false, false, true, false, false⟩ = ⟨true, some ⟨.rem, .smartUnsynced, .remotePath⟩⟩ ∧
    preSyncGate ⟨false, false, false, true, false, true, false, false⟩ = ⟨false, none⟩ ∧
    (changesetFilter ⟨false, false, false, false, true, true, false, true, [false, true], false, false⟩).mem = ⟨true, false⟩ ∧
    runCalls ⟨[], []⟩ [.request 3, .unrequest 3, .request 3] = ⟨[3], []⟩ ∧
    unsyncOid true ⟨true, true, true, true⟩ =
      [.getLatestLocal 0, .flush 0, .localInfo 0, .write .loc .delete 0, .clearLocal 0, .moveToExcluded 0, .returnOk] ∧
    mergedListing [("a", ⟨true, true, true, true, false, false, true, true⟩), ("b", ⟨false, true, false, false, false, false, false, true⟩)]
      = [("a", true), ("b", false)] := by
  decide

end CS.Smart

/-! ## Part 2 — the specification the monitor executes on real runs (Model/Spec/Smart.lean) -/
namespace CS.Spec.Smart
open CS.Spec
set_option linter.unusedVariables false

/-! ### what the history makes of a file -/

/-- **no_download_unless_requested** (specification, all histories).  A file whose history contains no local creation,
    no request that reached the engine (returned or raised something other than not-found) and no creation under a name
    matched by an auto-sync predicate is `unreq`: every step obligation forbids a local copy of it. -/
theorem never_requested_unjustified (auto : List RPath) (ops : List SOp) (p : RPath)
    (h : ∀ op ∈ ops, SOp.justifies auto p op = false) : (run auto ops).st p = .unreq :=
  foldl_st_unreq auto ops St.init p rfl h

/-- the step obligation says exactly: every file present locally is justified -/
theorem stepOk_iff (auto : List RPath) (ops : List SOp) (l : Tree) :
    stepOk auto ops l = true ↔ ∀ p tag, (p, Node.file tag) ∈ l → ((run auto ops).st p).justified = true := by
  unfold stepOk
  simp only [List.all_eq_true]
  constructor
  · intro h p tag hm
    simpa using h (p, Node.file tag) hm
  · intro h e he
    obtain ⟨p, n⟩ := e
    cases n with
    | dir => rfl
    | file tag => exact h p tag he

/-- … so an accepted step never shows a local copy of a file nobody asked for (trace-level `no_download_unless_requested`):
    a local file implies a justifying operation in the history -/
theorem stepOk_local_file_was_requested (auto : List RPath) (ops : List SOp) (l : Tree) (p : RPath) (tag : Nat)
    (hok : stepOk auto ops l = true) (hm : (p, Node.file tag) ∈ l) :
    ∃ op ∈ ops, SOp.justifies auto p op = true := by
  have hj := (stepOk_iff auto ops l).mp hok p tag hm
  apply Classical.byContradiction
  intro hne
  have hall : ∀ op ∈ ops, SOp.justifies auto p op = false := by
    intro op hop
    cases hjo : SOp.justifies auto p op with
    | false => rfl
    | true => exact absurd ⟨op, hop, hjo⟩ hne
  rw [never_requested_unjustified auto ops p hall] at hj
  simp [Status.justified] at hj

/-- a request that returned makes the file `req`, whatever happened before (request → un-request → request again …) -/
theorem request_ok_status (auto : List RPath) (ops : List SOp) (p : RPath) :
    (run auto (ops ++ [.request p .ok])).st p = .req := by
  rw [run_snoc]
  simp [applySOp, St.st, getKey_setKey_same]

/-- … and it stays `req` through everything that is not a request / un-request / creation of that very file:
    remote edits and deletes, operations on other files, folders -/
theorem requested_stays (auto : List RPath) (ops tail : List SOp) (p : RPath)
    (h : ∀ op ∈ tail, SOp.statusTarget op ≠ some p) :
    (run auto (ops ++ [.request p .ok] ++ tail)).st p = .req := by
  rw [run_append, foldl_st_frame auto tail _ p h]
  exact request_ok_status auto ops p

/-- an un-request that returned makes a requested file `unreq` (not auto-matched) or `maybe` (auto-matched) -/
theorem unrequest_ok_status (auto : List RPath) (ops : List SOp) (p : RPath) (h : (run auto ops).st p = .req) :
    (run auto (ops ++ [.unrequest p .ok])).st p = (if auto.contains p then .maybe else .unreq) := by
  rw [run_snoc]
  simp only [applySOp, h]
  simp [St.st, getKey_setKey_same]

/-- un-request of a file that is not requested changes nothing in the specification state (`never requested` no-op) -/
theorem unrequest_unrequested_noop (auto : List RPath) (s : St) (p : RPath) (r : Res)
    (h : s.st p = .unreq ∨ s.st p = .loc ∨ s.st p = .maybe) : applySOp auto s (.unrequest p r) = s := by
  rcases h with h | h | h <;> simp [applySOp, h]

/-- **unsync keeps remote** (specification): a request or un-request never changes what the remote side must hold -/
theorem request_unrequest_keep_remote (auto : List RPath) (s : St) (p : RPath) (r : Res) :
    (applySOp auto s (.unrequest p r)).expectedRemote = s.expectedRemote ∧
    (applySOp auto s (.request p r)).expectedRemote = s.expectedRemote := by
  constructor
  · simp only [applySOp]
    cases s.st p <;> rfl
  · cases r <;> rfl

/-- a remote edit is what the remote side must hold afterwards -/
theorem rwrite_content (auto : List RPath) (s : St) (p : RPath) (t : Nat) :
    getKey (applySOp auto s (.rwrite p t)).content p = some t ∧ (p, t) ∈ (applySOp auto s (.rwrite p t)).content := by
  simp only [applySOp]
  exact ⟨getKey_setKey_same _ _ _, mem_setKey _ _ _⟩

/-! ### the quiescence obligation -/

/-- what a verdict "ok" at quiescence means -/
theorem quietOk_sound (auto : List RPath) (ops : List SOp) (l r : Tree) (h : quietOk auto ops l r = true) :
    let s := run auto ops
    r.sameAs s.expectedRemote = true ∧                                                  -- the remote side is what the users made it
    (∀ d ∈ s.dirs, l.get d = some Node.dir) ∧                                           -- folders_always_mirrored
    (∀ e ∈ l, match e.2 with                                                            -- nothing extra locally
        | .dir => e.1 ∈ s.dirs
        | .file _ => (getKey s.content e.1).isSome = true) ∧
    (∀ e ∈ s.content,                                                                   -- per live file
        ((s.st e.1).mustHave = true → l.get e.1 = some (Node.file e.2)) ∧               --   requested / local / auto: in sync
        ((s.st e.1).justified = false → l.get e.1 = none) ∧                             --   unrequested: absent locally
        (l.get e.1 = none ∨ l.get e.1 = some (Node.file e.2))) := by                    --   never a stale copy
  intro s
  unfold quietOk at h
  have h' : quietVerdict auto ops l r = .ok := by simpa using h
  unfold quietVerdict at h'
  simp only [] at h'
  split at h'
  · exact absurd h' (by simp)
  · rename_i hr
    split at h'
    · exact absurd h' (by simp)
    · rename_i hd
      split at h'
      · exact absurd h' (by simp)
      · rename_i he
        refine ⟨by simpa using hr, ?_, ?_, ?_⟩
        · intro d hdm
          have := List.find?_eq_none.mp hd d hdm
          simpa using this
        · intro e hem
          have := List.find?_eq_none.mp he e hem
          obtain ⟨p, n⟩ := e
          cases n with
          | dir => simpa using this
          | file t =>
            simp only [] at this ⊢
            cases hg : getKey (run auto ops).content p <;> simp_all
        · intro e hem
          have hv := (firstBad_ok_iff _).mp h' (fileVerdict (run auto ops) l e) (List.mem_map_of_mem hem)
          unfold fileVerdict at hv
          simp only [] at hv
          show (((run auto ops).st e.1).mustHave = true → _) ∧ (((run auto ops).st e.1).justified = false → _) ∧ _
          cases hst : (run auto ops).st e.1 <;> simp only [hst, Status.mustHave, Status.justified] at hv ⊢ <;>
            (split at hv <;> simp_all) <;> (by_cases hn : l.get e.1 = none <;> simp_all)

/-- **local_creations_always_uploaded**, **requested files equal on both sides** (specification): at an accepted
    quiescence a file that is requested, locally created or auto-matched has the same content on both sides -/
theorem quiet_in_sync (auto : List RPath) (ops : List SOp) (l r : Tree) (p : RPath) (t : Nat)
    (h : quietOk auto ops l r = true) (hm : (p, t) ∈ (run auto ops).content)
    (hst : ((run auto ops).st p).mustHave = true) :
    l.get p = some (Node.file t) ∧ r.get p = ((run auto ops).expectedRemote).get p := by
  obtain ⟨h1, _, _, h4⟩ := quietOk_sound auto ops l r h
  exact ⟨(h4 (p, t) hm).1 hst, Tree.get_eq_of_sameAs h1 p⟩

/-- the scenario of the task: request → un-request → request again, then a REMOTE edit `t` of the file (and anything that
    does not address the file): every accepted quiescence afterwards has the edit in the local copy -/
theorem rerequest_then_remote_edit_reaches_local (auto : List RPath) (ops tail : List SOp) (p : RPath) (t : Nat) (l r : Tree)
    (htail : ∀ op ∈ tail, SOp.statusTarget op ≠ some p)
    (hcontent : (p, t) ∈ (run auto (ops ++ [.request p .ok] ++ tail)).content)
    (h : quietOk auto (ops ++ [.request p .ok] ++ tail) l r = true) :
    l.get p = some (Node.file t) := by
  have hst := requested_stays auto ops tail p htail
  exact (quiet_in_sync auto _ l r p t h hcontent (by rw [hst]; rfl)).1

/-- an unrequested file is absent locally at every accepted quiescence -/
theorem quiet_unrequested_absent (auto : List RPath) (ops : List SOp) (l r : Tree) (p : RPath) (t : Nat)
    (h : quietOk auto ops l r = true) (hm : (p, t) ∈ (run auto ops).content) (hst : (run auto ops).st p = .unreq) :
    l.get p = none := by
  obtain ⟨_, _, _, h4⟩ := quietOk_sound auto ops l r h
  exact (h4 (p, t) hm).2.1 (by rw [hst]; rfl)

/-! ### the un-request obligation -/

/-- what a verdict "ok" right after an un-request call means.  (1) NO remote object disappears, whatever the status of
    the file and whatever the call returned.  (2) For a requested file and a call that returned: the local tree is the old
    one minus exactly that file, and the remote tree is the old one with the file holding the NEWEST content (the local
    copy if the last user write was local, else the remote one). -/
theorem unsyncOk_sound (auto : List RPath) (ops : List SOp) (p : RPath) (lastLocal : Bool) (lb rb la ra : Tree) (res : Res)
    (h : unsyncOk auto ops p lastLocal lb rb la ra res = true) :
    (∀ e ∈ rb, ra.has e.1 = true) ∧
    ((run auto ops).st p = .req → res = .ok →
      la.sameAs (Tree.erase lb p) = true ∧ ra.sameAs (expectedRemoteAfter lastLocal lb rb p) = true ∧ la.get p = none) := by
  unfold unsyncOk at h
  have h' : unsyncVerdict auto ops p lastLocal lb rb la ra res = .ok := by simpa using h
  unfold unsyncVerdict at h'
  simp only [] at h'
  split at h'
  · exact absurd h' (by simp)
  · rename_i hfind
    refine ⟨?_, ?_⟩
    · intro e he
      have := List.find?_eq_none.mp hfind e he
      simpa using this
    · intro hst hres
      simp only [hst, hres, beq_self_eq_true, Bool.and_self, if_true] at h'
      split at h'
      · exact absurd h' (by simp)
      · rename_i h1
        split at h'
        · exact absurd h' (by simp)
        · rename_i h2
          have h1' : la.sameAs (Tree.erase lb p) = true := by simpa using h1
          refine ⟨h1', by simpa using h2, ?_⟩
          rw [Tree.get_eq_of_sameAs h1' p]
          exact erase_get_self lb p

/-- the newest content: the local copy wins exactly when the last user write was local and a local copy exists -/
theorem newest_cases (lastLocal : Bool) (lb rb : Tree) (p : RPath) :
    (lastLocal = true ∧ (lb.get p).isSome = true ∧ newest lastLocal lb rb p = lb.get p) ∨
    ((lastLocal = false ∨ lb.get p = none) ∧ newest lastLocal lb rb p = rb.get p) := by
  unfold newest
  cases lastLocal <;> cases hg : lb.get p <;> simp

/-! ### the listing obligation -/

/-- what a verdict "ok" for a listing means: every local child is reported synced, every reported entry without a local
    child is reported not synced, and at quiescence every remote-only child is reported (not synced) -/
theorem listingOk_sound (quiet : Bool) (lk rk : List String) (ents : List (String × Bool))
    (h : listingOk quiet lk rk ents = true) :
    (∀ n ∈ lk, (n, true) ∈ ents) ∧
    (∀ e ∈ ents, e.1 ∉ lk → e.2 = false) ∧
    (quiet = true → ∀ n ∈ rk, n ∉ lk → (n, false) ∈ ents) := by
  unfold listingOk at h
  have h' : listingVerdict quiet lk rk ents = .ok := by simpa using h
  unfold listingVerdict at h'
  split at h'
  · exact absurd h' (by simp)
  · rename_i h1
    split at h'
    · exact absurd h' (by simp)
    · rename_i h2
      refine ⟨?_, ?_, ?_⟩
      · intro n hn
        have := List.find?_eq_none.mp h1 n hn
        simpa using this
      · intro e he hne
        have := List.find?_eq_none.mp h2 e he
        simp only [Bool.and_eq_true, Bool.not_eq_true', not_and] at this
        cases hb : e.2 with
        | false => rfl
        | true =>
          have h3 := this (by simpa using hne)
          rw [hb] at h3; exact absurd h3 (by simp)
      · intro hq n hn hnl
        subst hq
        simp only [if_true] at h'
        split at h'
        · exact absurd h' (by simp)
        · rename_i h3
          have := List.find?_eq_none.mp h3 n hn
          simp only [Bool.and_eq_true, Bool.not_eq_true', not_and] at this
          have h4 := this (by simpa using hnl)
          simpa using h4

/-! ### the ghost obligation (every instant) -/

/-- what a verdict "ok" of the ghost obligation means: no reported row is a not-downloaded remote file whose remote side
    the engine knows to be TRASHED/MISSING -/
theorem ghostOk_iff (rows : List Row) :
    ghostOk rows = true ↔ ∀ r ∈ rows, r.synced = false → r.remoteKnownGone = false := by
  unfold ghostOk ghostOf
  rw [Option.isNone_iff_eq_none, Option.map_eq_none_iff, List.find?_eq_none]
  constructor
  · intro h r hr hs
    have := h r hr
    cases hg : r.remoteKnownGone <;> simp_all
  · intro h r hr
    have := h r hr
    cases hs : r.synced <;> simp_all

example : ghostOk [⟨"a", true, true⟩, ⟨"b", false, false⟩] = true ∧ ghostOf [⟨"a", false, false⟩, ⟨"g", false, true⟩] = some "g" := by
  decide

/-- non-vacuity: one accepted and one rejected instance of every obligation -/
example :
    let ops : List SOp := [.rmkdir ["d"], .rcreate ["d", "f"] 1, .rcreate ["g"] 2, .request ["d", "f"] .ok, .lcreate ["h"] 3,
                           .rwrite ["d", "f"] 4]
    let r : Tree := [(["d"], .dir), (["d", "f"], .file 4), (["g"], .file 2), (["h"], .file 3)]
    let l : Tree := [(["d"], .dir), (["d", "f"], .file 4), (["h"], .file 3)]
    stepOk [] ops l = true ∧ stepOk [] ops ((["g"], .file 2) :: l) = false ∧
    quietOk [] ops l r = true ∧ quietOk [] ops ((["g"], .file 2) :: l) r = false ∧
    quietOk [] ops [(["d"], .dir), (["d", "f"], .file 1), (["h"], .file 3)] r = false ∧
    unsyncOk [] ops ["d", "f"] true [(["d"], .dir), (["d", "f"], .file 9)] r [(["d"], .dir)]
      [(["d"], .dir), (["g"], .file 2), (["h"], .file 3), (["d", "f"], .file 9)] .ok = true ∧
    unsyncOk [] ops ["d", "f"] true [(["d"], .dir), (["d", "f"], .file 9)] r [(["d"], .dir)] r .ok = false ∧
    unsyncOk [] ops ["d", "f"] false l r [(["d"], .dir), (["h"], .file 3)] [(["d"], .dir), (["g"], .file 2), (["h"], .file 3)] .ok = false ∧
    listingOk true ["h"] ["g", "h"] [("h", true), ("g", false)] = true ∧
    listingOk true ["h"] ["g", "h"] [("h", true)] = false ∧
    listingOk false ["h"] ["g", "h"] [("h", false)] = false := by
  decide

end CS.Spec.Smart
