import Csverif.Model.RunnableThreads
/-
C18 — the stop / start protocol of `Runnable` over the two-thread small-step model (Model/RunnableThreads.lean):
for EVERY schedule (interleaving of the caller thread's and the service thread's statements) and every sequence of
outcomes of `do()`.
-/
namespace CS.Runnable.Th
open CS.Runnable
set_option linter.unusedSimpArgs false
set_option linter.unusedVariables false

/-! ## vocabulary -/

/-- the service thread does not exist, or has left the loop for good (it is in `run()`'s finally block or has ended) -/
def SPc.exiting : SPc → Bool
  | .none | .f129 | .f130 | .f131 | .f140 | .f141 | .dead => true
  | _ => false

/-- the caller thread is inside `start()` -/
def CPc.inStart : CPc → Bool
  | .a178 | .a180 | .a181 | .a181j | .a182 | .a184 | .a185 | .a186 | .a187 => true
  | _ => false

def Tick.isStartCall : Tick → Bool
  | .call .start => true
  | _ => false

def noStartCall (l : List Tick) : Prop := ∀ t ∈ l, t.isStartCall = false

/-- how many more calls of `do()` the service thread can still begin once the stop request is in force: one if it has
    already read `__stopping` as False at the loop head (line 100), none otherwise -/
def SPc.mayDo : SPc → Nat
  | .r100b | .r105 => 1
  | _ => 0

/-- *the stop request is in force*: the flag is up, or the loop is already over -/
def Q (s : St) : Prop := s.stopping = true ∨ s.svc.exiting = true

/-- the service thread is between the flag test of line 119 and the end of the sleep: the only region in which it can
    block (or has decided to block) without looking at `__stopping` again first -/
def SPc.sleepy : SPc → Bool
  | .r119b | .r119c | .s67 | .s67w => true
  | _ => false

/-- *the stop request is in force and the loop cannot sleep through it* -/
def T (s : St) : Prop := Q s ∧ (s.svc.sleepy = true → s.intr = .set) ∧ s.svc ≠ .r96v

/-- upper bound on the number of statements the service thread still executes once `T` holds -/
def SPc.rank : SPc → Nat
  | .none | .dead => 0
  | .f141 => 1 | .f140 => 2 | .f131 => 3 | .f130 => 4 | .f129 => 5
  | .r100 | .r119 => 6
  | .s68 | .r105 | .r96 | .r96v => 7
  | .r95 | .r100b | .s67w => 8
  | .s67 => 9
  | .r119c => 10
  | .r119b => 11

def svcOnly (l : List Tick) : Prop := ∀ t ∈ l, ∃ tmo o u, t = Tick.s tmo o u

/-! ## general lemmas (any state, not only reachable ones) -/

/-- case analysis on the caller's program counter that also splits the calling context of `wake` / `wait` -/
@[elab_as_elim] theorem CPc.casesFull {motive : CPc → Prop}
    (idle : motive .idle) (a178 : motive .a178) (a180 : motive .a180) (a181 : motive .a181) (a181j : motive .a181j)
    (a182 : motive .a182) (a184 : motive .a184) (a185 : motive .a185) (a186 : motive .a186) (a187 : motive .a187)
    (p202 : ∀ f w, motive (.p202 f w)) (p203 : ∀ f w, motive (.p203 f w))
    (k167a : motive (.k167 none)) (k167s : ∀ f w, motive (.k167 (some (f, w))))
    (k170a : motive (.k170 none)) (k170s : ∀ f w, motive (.k170 (some (f, w))))
    (p205 : ∀ f w, motive (.p205 f w))
    (w233a : ∀ t, motive (.w233 none t)) (w233s : ∀ f w t, motive (.w233 (some (f, w)) t))
    (w235ja : ∀ t, motive (.w235j none t)) (w235js : ∀ f w t, motive (.w235j (some (f, w)) t))
    (w236a : ∀ t, motive (.w236 none t)) (w236s : ∀ f w t, motive (.w236 (some (f, w)) t)) : ∀ c, motive c := by
  intro c
  cases c with
  | idle => exact idle
  | a178 => exact a178
  | a180 => exact a180
  | a181 => exact a181
  | a181j => exact a181j
  | a182 => exact a182
  | a184 => exact a184
  | a185 => exact a185
  | a186 => exact a186
  | a187 => exact a187
  | p202 f w => exact p202 f w
  | p203 f w => exact p203 f w
  | p205 f w => exact p205 f w
  | k167 c => rcases c with _ | ⟨f, w⟩; exact k167a; exact k167s f w
  | k170 c => rcases c with _ | ⟨f, w⟩; exact k170a; exact k170s f w
  | w233 c t => rcases c with _ | ⟨f, w⟩; exact w233a t; exact w233s f w t
  | w235j c t => rcases c with _ | ⟨f, w⟩; exact w235ja t; exact w235js f w t
  | w236 c t => rcases c with _ | ⟨f, w⟩; exact w236a t; exact w236s f w t

theorem exec_append (v : Prog) (s : St) (l₁ l₂ : List Tick) : exec v s (l₁ ++ l₂) = exec v (exec v s l₁) l₂ := by
  induction l₁ generalizing s with
  | nil => rfl
  | cons t ts ih => simp [exec, ih]

/-- One step under a stop request that is in force (HEAD program): the request stays in force, the caller does not enter
    `start()`, and the potential `calls of do() so far + calls the loop may still begin` does not grow. -/
theorem Q_step (s s' : St) (t : Tick) (hQ : Q s) (hc : s.cal.inStart = false) (ht : t.isStartCall = false)
    (h : step .head s t = some s') :
    Q s' ∧ s'.cal.inStart = false ∧ nDo s' + s'.svc.mayDo ≤ nDo s + s.svc.mayDo := by
  revert s' h
  obtain ⟨svc, cal, stopping, shutdown, stopped, intr, thr, dos, nDone, nStart, nFinal, ret⟩ := s
  cases t with
  | c tmo =>
    induction cal using CPc.casesFull <;> simp only [step, stepC, Prog.resets, Prog.readsTwice, Bool.false_eq_true, ↓reduceIte] <;> (repeat' split) <;>
      simp_all [Q, nDo, CPc.inStart, wakeReturn, waitReturn] <;> (repeat' split) <;> simp_all [Q, nDo, CPc.inStart, wakeReturn, waitReturn]
  | s tmo o u =>
    cases svc <;> simp only [step, stepS, Prog.resets, Prog.readsTwice, Bool.false_eq_true, ↓reduceIte] <;> (repeat' split) <;>
      simp_all [Q, nDo, SPc.exiting, SPc.mayDo]
  | call k =>
    cases k <;> simp only [step] <;> (repeat' split) <;> simp_all [Call.entry, Tick.isStartCall, Q, CPc.inStart, nDo]

theorem Q_exec (s : St) (l : List Tick) (hQ : Q s) (hc : s.cal.inStart = false) (hl : noStartCall l) :
    Q (exec .head s l) ∧ (exec .head s l).cal.inStart = false ∧
      nDo (exec .head s l) + (exec .head s l).svc.mayDo ≤ nDo s + s.svc.mayDo := by
  induction l generalizing s with
  | nil => exact ⟨hQ, hc, Nat.le_refl _⟩
  | cons t ts ih =>
    have ht := hl t (List.mem_cons_self ..)
    have hts : noStartCall ts := fun x hx => hl x (List.mem_cons_of_mem _ hx)
    simp only [exec]
    cases h : step .head s t with
    | none => simpa using ih s hQ hc hts
    | some s' =>
      obtain ⟨q, c, n⟩ := Q_step s s' t hQ hc ht h
      obtain ⟨q2, c2, n2⟩ := ih s' q c hts
      exact ⟨q2, c2, Nat.le_trans n2 n⟩

/-- `T` is preserved by every step that is not a call of `start()` -/
theorem T_step (s s' : St) (t : Tick) (hT : T s) (hc : s.cal.inStart = false) (ht : t.isStartCall = false)
    (h : step .head s t = some s') : T s' ∧ s'.cal.inStart = false := by
  revert s' h
  obtain ⟨svc, cal, stopping, shutdown, stopped, intr, thr, dos, nDone, nStart, nFinal, ret⟩ := s
  cases t with
  | c tmo =>
    induction cal using CPc.casesFull <;> simp only [step, stepC, Prog.resets, Prog.readsTwice, Bool.false_eq_true, ↓reduceIte] <;> (repeat' split) <;>
      simp_all [T, Q, CPc.inStart, wakeReturn, waitReturn] <;> (repeat' split) <;> simp_all [T, Q, CPc.inStart, wakeReturn, waitReturn]
  | s tmo o u =>
    cases svc <;> simp only [step, stepS, Prog.resets, Prog.readsTwice, Bool.false_eq_true, ↓reduceIte] <;> (repeat' split) <;>
      simp_all [T, Q, SPc.exiting, SPc.sleepy]
  | call k =>
    cases k <;> simp only [step] <;> (repeat' split) <;> simp_all [Call.entry, Tick.isStartCall, T, Q, CPc.inStart]

theorem T_exec (s : St) (l : List Tick) (hT : T s) (hc : s.cal.inStart = false) (hl : noStartCall l) :
    T (exec .head s l) ∧ (exec .head s l).cal.inStart = false := by
  induction l generalizing s with
  | nil => exact ⟨hT, hc⟩
  | cons t ts ih =>
    have ht := hl t (List.mem_cons_self ..)
    have hts : noStartCall ts := fun x hx => hl x (List.mem_cons_of_mem _ hx)
    simp only [exec]
    cases h : step .head s t with
    | none => simpa using ih s hT hc hts
    | some s' =>
      obtain ⟨q, c⟩ := T_step s s' t hT hc ht h
      exact ih s' q c hts

/-- under `T` a live service thread is never blocked — whether or not its sleep times out — and every statement it executes
    brings it closer to its end -/
theorem T_progress (s : St) (tmo : Bool) (o : Outcome) (u : Bool) (hT : T s) (ha : alive s = true) :
    ∃ s', stepS .head s tmo o u = some s' ∧ s'.svc.rank < s.svc.rank ∧ s'.cal = s.cal := by
  obtain ⟨svc, cal, stopping, shutdown, stopped, intr, thr, dos, nDone, nStart, nFinal, ret⟩ := s
  cases svc <;> simp only [stepS, Prog.resets, Prog.readsTwice, Bool.false_eq_true, ↓reduceIte] <;> (repeat' split) <;>
    simp_all [T, Q, SPc.exiting, SPc.sleepy, SPc.rank, alive, SPc.alive]

theorem dead_stepS (s : St) (tmo : Bool) (o : Outcome) (u : Bool) (ha : alive s = false) : stepS .head s tmo o u = none := by
  obtain ⟨svc, cal, stopping, shutdown, stopped, intr, thr, dos, nDone, nStart, nFinal, ret⟩ := s
  cases svc <;> simp_all [stepS, alive, SPc.alive]

/-- the service thread, running alone, has ended after `rank` of its own statements -/
theorem T_exits (s : St) (l : List Tick) (hT : T s) (hc : s.cal.inStart = false) (hl : svcOnly l)
    (hn : s.svc.rank ≤ l.length) : alive (exec .head s l) = false := by
  induction l generalizing s with
  | nil =>
    obtain ⟨svc, cal, stopping, shutdown, stopped, intr, thr, dos, nDone, nStart, nFinal, ret⟩ := s
    cases svc <;> simp_all [SPc.rank, exec, alive, SPc.alive]
  | cons t ts ih =>
    obtain ⟨tmo, o, u, rfl⟩ := hl t (List.mem_cons_self ..)
    have hts : svcOnly ts := fun x hx => hl x (List.mem_cons_of_mem _ hx)
    simp only [exec, step]
    cases ha : alive s with
    | false =>
      rw [dead_stepS s tmo o u ha]
      have : s.svc.rank = 0 := by
        obtain ⟨svc, cal, stopping, shutdown, stopped, intr, thr, dos, nDone, nStart, nFinal, ret⟩ := s
        cases svc <;> simp_all [SPc.rank, alive, SPc.alive]
      exact ih s hT hc hts (by omega)
    | true =>
      obtain ⟨s', h1, h2, h3⟩ := T_progress s tmo o u hT ha
      rw [h1]
      have hstep : step .head s (.s tmo o u) = some s' := h1
      obtain ⟨q, c⟩ := T_step s s' _ hT hc rfl hstep
      simp only [List.length_cons] at hn
      exact ih s' q c hts (by omega)

def Tick.isSvc : Tick → Bool
  | .s _ _ _ => true
  | _ => false

/-- number of service-thread ticks in a schedule -/
def svcCount (l : List Tick) : Nat := (l.filter Tick.isSvc).length

/-- a step of the caller thread outside `start()` does not touch the service thread's program counter -/
theorem caller_step_svc (s s' : St) (t : Tick) (hc : s.cal.inStart = false) (ht : t.isSvc = false)
    (h : step .head s t = some s') : s'.svc = s.svc := by
  revert s' h
  obtain ⟨svc, cal, stopping, shutdown, stopped, intr, thr, dos, nDone, nStart, nFinal, ret⟩ := s
  cases t with
  | c tmo =>
    induction cal using CPc.casesFull <;> simp only [step, stepC, Prog.resets, Prog.readsTwice, Bool.false_eq_true, ↓reduceIte] <;> (repeat' split) <;>
      simp_all [CPc.inStart, wakeReturn, waitReturn] <;> (repeat' split) <;> simp_all [CPc.inStart, wakeReturn, waitReturn]
  | s tmo o u => simp [Tick.isSvc] at ht
  | call k => cases k <;> simp only [step] <;> (repeat' split) <;> simp_all [Call.entry]

/-- the interleaved form of `T_exits`: whatever the caller thread does in between (except calling `start()`), the service
    thread has ended once it has been given `rank` ticks -/
theorem T_exits_interleaved (s : St) (l : List Tick) (hT : T s) (hc : s.cal.inStart = false) (hl : noStartCall l)
    (hn : s.svc.rank ≤ svcCount l) : alive (exec .head s l) = false := by
  induction l generalizing s with
  | nil =>
    obtain ⟨svc, cal, stopping, shutdown, stopped, intr, thr, dos, nDone, nStart, nFinal, ret⟩ := s
    cases svc <;> simp_all [SPc.rank, exec, alive, SPc.alive, svcCount]
  | cons t ts ih =>
    have ht := hl t (List.mem_cons_self ..)
    have hts : noStartCall ts := fun x hx => hl x (List.mem_cons_of_mem _ hx)
    simp only [exec]
    cases hsv : t.isSvc with
    | false =>
      have hcnt : svcCount (t :: ts) = svcCount ts := by simp [svcCount, List.filter, hsv]
      cases h : step .head s t with
      | none => simpa using ih s hT hc hts (by omega)
      | some s' =>
        obtain ⟨q, c⟩ := T_step s s' t hT hc ht h
        have := caller_step_svc s s' t hc hsv h
        exact ih s' q c hts (by rw [this]; omega)
    | true =>
      have hcnt : svcCount (t :: ts) = svcCount ts + 1 := by simp [svcCount, List.filter, hsv]
      cases t with
      | c tmo => simp [Tick.isSvc] at hsv
      | call k => simp [Tick.isSvc] at hsv
      | s tmo o u =>
        cases ha : alive s with
        | false =>
          have h0 : step .head s (.s tmo o u) = none := dead_stepS s tmo o u ha
          rw [h0]
          have : s.svc.rank = 0 := by
            obtain ⟨svc, cal, stopping, shutdown, stopped, intr, thr, dos, nDone, nStart, nFinal, ret⟩ := s
            cases svc <;> simp_all [SPc.rank, alive, SPc.alive]
          exact ih s hT hc hts (by omega)
        | true =>
          obtain ⟨s', h1, h2, h3⟩ := T_progress s tmo o u hT ha
          have hstep : step .head s (.s tmo o u) = some s' := h1
          rw [hstep]
          obtain ⟨q, c⟩ := T_step s s' _ hT hc rfl hstep
          exact ih s' q c hts (by omega)

/-- a dead (or never started) service thread stays dead, and `do()` is not called, as long as `start()` is not called -/
theorem dead_step (s s' : St) (t : Tick) (ha : alive s = false) (hc : s.cal.inStart = false) (ht : t.isStartCall = false)
    (h : step .head s t = some s') : alive s' = false ∧ s'.cal.inStart = false ∧ nDo s' = nDo s ∧ s'.nDone = s.nDone := by
  revert s' h
  obtain ⟨svc, cal, stopping, shutdown, stopped, intr, thr, dos, nDone, nStart, nFinal, ret⟩ := s
  cases t with
  | c tmo =>
    induction cal using CPc.casesFull <;> simp only [step, stepC, Prog.resets, Prog.readsTwice, Bool.false_eq_true, ↓reduceIte] <;> (repeat' split) <;>
      simp_all [alive, nDo, CPc.inStart, wakeReturn, waitReturn] <;> (repeat' split) <;> simp_all [alive, nDo, CPc.inStart, wakeReturn, waitReturn]
  | s tmo o u =>
    cases svc <;> simp_all [step, stepS, alive, SPc.alive]
  | call k =>
    cases k <;> simp only [step] <;> (repeat' split) <;> simp_all [Call.entry, Tick.isStartCall, alive, CPc.inStart, nDo]

theorem dead_exec (s : St) (l : List Tick) (ha : alive s = false) (hc : s.cal.inStart = false) (hl : noStartCall l) :
    alive (exec .head s l) = false ∧ nDo (exec .head s l) = nDo s ∧ (exec .head s l).nDone = s.nDone := by
  induction l generalizing s with
  | nil => exact ⟨ha, rfl, rfl⟩
  | cons t ts ih =>
    have ht := hl t (List.mem_cons_self ..)
    have hts : noStartCall ts := fun x hx => hl x (List.mem_cons_of_mem _ hx)
    simp only [exec]
    cases h : step .head s t with
    | none => simpa using ih s ha hc hts
    | some s' =>
      obtain ⟨a, c, n, d⟩ := dead_step s s' t ha hc ht h
      obtain ⟨a2, n2, d2⟩ := ih s' a c hts
      exact ⟨a2, by simpa [n] using n2, by simpa [d] using d2⟩

/-! ## the reachability invariant (HEAD program) -/

/-- the caller is inside `stop()` and has executed `self.__stopping = True` (line 203) -/
def CPc.stopWritten : CPc → Bool
  | .k167 (some _) | .k170 (some _) | .p205 _ _ | .w233 (some _) _ | .w235j (some _) _ | .w236 (some _) _ => true
  | _ => false

/-- … and has also returned from the `self.wake()` of line 204 -/
def CPc.stopWoken : CPc → Bool
  | .p205 _ _ | .w233 (some _) _ | .w235j (some _) _ | .w236 (some _) _ => true
  | _ => false

/-- the `forever` argument of the `stop()` call in progress, once line 202 has been executed -/
def CPc.stopF : CPc → Option Bool
  | .p203 f _ | .p205 f _ => some f
  | .k167 (some (f, _)) | .k170 (some (f, _)) | .w233 (some (f, _)) _ | .w235j (some (f, _)) _ | .w236 (some (f, _)) _ => some f
  | _ => none

/-- `start()` is past its liveness test of lines 182-183 -/
def CPc.pastAliveCheck : CPc → Bool
  | .a184 | .a185 | .a186 | .a187 => true
  | _ => false

/-- program points of the service thread at which `self.__interrupt` is None -/
def SPc.noEvent : SPc → Bool
  | .none | .r95 | .f140 | .f141 | .dead => true
  | _ => false

theorem CPc.stopWoken_written (c : CPc) (h : c.stopWoken = true) : c.stopWritten = true := by
  induction c using CPc.casesFull <;> simp_all [CPc.stopWoken, CPc.stopWritten]

theorem CPc.stopWritten_notInStart (c : CPc) (h : c.stopWritten = true) : c.inStart = false := by
  induction c using CPc.casesFull <;> simp_all [CPc.inStart, CPc.stopWritten]

structure Inv (s : St) : Prop where
  noVar : s.svc ≠ .r96v
  intrAbs : s.intr = .absent ↔ s.svc.noEvent = true
  thrNone : s.thr = .none → s.svc = .none
  startDead : s.cal.pastAliveCheck = true → s.svc.alive = false
  stopQ : s.cal.stopWritten = true → Q s
  stopT : s.cal.stopWoken = true → s.svc.sleepy = true → s.intr = .set
  shutF : ∀ f, s.cal.stopF = some f → s.shutdown = f
  retStop : s.cal = .idle → ∀ f w, s.ret = .stopRet f w → s.shutdown = f ∧ (w = true → s.svc.alive = false)
  retWait : s.cal = .idle → s.ret = .waitTrue → s.svc.alive = false
  doneOnce : s.nDone + (if s.svc.alive then 1 else 0) ≤ s.nStart
  doneFinal : (s.shutdown = true ∨ s.svc = .f141 ∨ 0 < s.nDone) → 0 < s.nFinal
  noAttrErr : s.ret ≠ .attrErr

theorem Inv_init : Inv init := by
  constructor <;> simp [init, SPc.noEvent, CPc.pastAliveCheck, CPc.stopWritten, CPc.stopWoken, CPc.stopF, SPc.alive]

set_option maxHeartbeats 2000000 in
theorem Inv_stepS (s s' : St) (tmo : Bool) (o : Outcome) (u : Bool) (hI : Inv s) (h : stepS .head s tmo o u = some s') : Inv s' := by
  revert s' h
  obtain ⟨svc, cal, stopping, shutdown, stopped, intr, thr, dos, nDone, nStart, nFinal, ret⟩ := s
  obtain ⟨i1, i2, i3, i4, i5, i6, i7, i8, i9, i10, i11, i12⟩ := hI
  have hw := CPc.stopWoken_written cal
  cases svc <;> simp only [stepS, Prog.resets, Prog.readsTwice, Bool.false_eq_true, ↓reduceIte] <;> (repeat' split) <;> intro s' h <;>
    (first | (simp only [Option.some.injEq] at h; subst h) | (exfalso; simp at h)) <;> constructor <;>
    simp_all [Q, alive, SPc.alive, SPc.noEvent, SPc.sleepy, SPc.exiting] <;> (try omega)

set_option maxHeartbeats 4000000 in
theorem Inv_stepC (s s' : St) (tmo : Bool) (hI : Inv s) (h : stepC .head s tmo = some s') : Inv s' := by
  revert s' h
  obtain ⟨svc, cal, stopping, shutdown, stopped, intr, thr, dos, nDone, nStart, nFinal, ret⟩ := s
  obtain ⟨i1, i2, i3, i4, i5, i6, i7, i8, i9, i10, i11, i12⟩ := hI
  induction cal using CPc.casesFull <;> simp only [stepC, Prog.resets, Prog.readsTwice, Bool.false_eq_true, ↓reduceIte] <;> (repeat' split) <;> intro s' h <;>
    (first | (simp only [Option.some.injEq] at h; subst h) | (exfalso; simp at h)) <;> constructor <;>
    simp_all [Q, alive, SPc.alive, SPc.noEvent, CPc.pastAliveCheck, CPc.stopWritten, CPc.stopWoken, CPc.stopF, SPc.sleepy,
      SPc.exiting, wakeReturn, waitReturn] <;>
    (cases svc <;> simp_all [SPc.alive, SPc.noEvent, SPc.sleepy, SPc.exiting]) <;> (try omega)

theorem Inv_call (s s' : St) (k : Call) (hI : Inv s) (h : step .head s (.call k) = some s') : Inv s' := by
  revert s' h
  obtain ⟨svc, cal, stopping, shutdown, stopped, intr, thr, dos, nDone, nStart, nFinal, ret⟩ := s
  obtain ⟨i1, i2, i3, i4, i5, i6, i7, i8, i9, i10, i11, i12⟩ := hI
  cases k <;> simp only [step] <;> (repeat' split) <;> intro s' h <;>
    (first | (simp only [Option.some.injEq] at h; subst h) | (exfalso; simp at h)) <;> constructor <;>
    simp_all [Call.entry, CPc.pastAliveCheck, CPc.stopWritten, CPc.stopWoken, CPc.stopF] <;> (try omega)

theorem Inv_step (s s' : St) (t : Tick) (hI : Inv s) (h : step .head s t = some s') : Inv s' := by
  cases t with
  | c tmo => exact Inv_stepC s s' tmo hI h
  | s tmo o u => exact Inv_stepS s s' tmo o u hI h
  | call k => exact Inv_call s s' k hI h

theorem Inv_exec (s : St) (l : List Tick) (hI : Inv s) : Inv (exec .head s l) := by
  induction l generalizing s with
  | nil => exact hI
  | cons t ts ih =>
    simp only [exec]
    cases h : step .head s t with
    | none => simpa using ih s hI
    | some s' => exact ih s' (Inv_step s s' t hI h)

/-- every state reachable from the initial one, by any schedule, satisfies the invariant -/
theorem Inv_reach (l : List Tick) : Inv (exec .head init l) := Inv_exec init l Inv_init

/-! ## (a) a stop request is never lost -/

/-- **Stop is never lost — safety.**  For every schedule `pre` after which the caller thread has executed the flag write of a
    `stop()` call (`self.__stopping = True`, line 203; final or not, waiting or not), and every continuation `post` in which
    `start()` is not called again: the service thread begins at most ONE further call of `do()` — and none at all unless it had
    already read `__stopping` as False at the loop head (it is at `r100b`/`r105`) when the flag was written.
    (The caller is sequential, so "no `start()` in `post`" is exactly "the write came after the last `start()` returned";
    a `start()` issued *after* the stop re-arms the service on purpose, line 184.) -/
theorem stop_is_never_lost (pre post : List Tick) (hw : (exec .head init pre).cal.stopWritten = true)
    (hp : noStartCall post) :
    nDo (exec .head init (pre ++ post)) ≤ nDo (exec .head init pre) + (exec .head init pre).svc.mayDo ∧
      nDo (exec .head init (pre ++ post)) ≤ nDo (exec .head init pre) + 1 := by
  have hI := Inv_reach pre
  have hQ := hI.stopQ hw
  have hc := CPc.stopWritten_notInStart _ hw
  obtain ⟨_, _, hn⟩ := Q_exec _ post hQ hc hp
  rw [exec_append]
  have hm : (exec .head init pre).svc.mayDo ≤ 1 := by
    cases (exec .head init pre).svc <;> simp [SPc.mayDo]
  constructor <;> omega

/-- the bound is exact: one further call of `do()` does happen when the stop arrives between the loop-head test and `do()` -/
theorem stop_one_more_do_possible :
    let pre := [Tick.call .start, .c false, .c false, .c false, .c false, .c false, .c false, .c false,
                .s false .success false, .s false .success false, .s false .success false,     -- r95 r96 r100: reads __stopping = False
                .call (.stop false false), .c false, .c false]
    let post := [Tick.s false .success false, .s false .success false]
    (exec .head init pre).cal.stopWritten = true ∧ nDo (exec .head init (pre ++ post)) = nDo (exec .head init pre) + 1 := by
  decide

/-- **Stop is never lost — termination.**  Once the caller has also returned from the `wake()` of line 204 (it is at line 205
    or beyond: about to join, joining, or — after any continuation `mid` without `start()` — long gone), the service thread
    running alone ends within 11 of its own statements, *whether or not any sleep times out* and whatever `do()` and `until()`
    return.  In particular the join of a waiting `stop()` is eventually enabled. -/
theorem loop_exits_after_stop (pre mid svcTicks : List Tick) (hw : (exec .head init pre).cal.stopWoken = true)
    (hm : noStartCall mid) (hs : svcOnly svcTicks) (hlen : 11 ≤ svcTicks.length) :
    alive (exec .head init (pre ++ mid ++ svcTicks)) = false := by
  have hI := Inv_reach pre
  have hwr := CPc.stopWoken_written _ hw
  have hT : T (exec .head init pre) := ⟨hI.stopQ hwr, hI.stopT hw, hI.noVar⟩
  have hc := CPc.stopWritten_notInStart _ hwr
  obtain ⟨hT2, hc2⟩ := T_exec _ mid hT hc hm
  rw [exec_append, exec_append]
  refine T_exits _ svcTicks hT2 hc2 hs ?_
  have : (exec .head (exec .head init pre) mid).svc.rank ≤ 11 := by
    cases (exec .head (exec .head init pre) mid).svc <;> simp [SPc.rank]
  omega

/-- the same, with the caller thread interleaved arbitrarily (no `start()`): after 11 ticks of the service thread it has ended -/
theorem loop_exits_after_stop_interleaved (pre post : List Tick) (hw : (exec .head init pre).cal.stopWoken = true)
    (hp : noStartCall post) (hlen : 11 ≤ svcCount post) : alive (exec .head init (pre ++ post)) = false := by
  have hI := Inv_reach pre
  have hwr := CPc.stopWoken_written _ hw
  have hT : T (exec .head init pre) := ⟨hI.stopQ hwr, hI.stopT hw, hI.noVar⟩
  have hc := CPc.stopWritten_notInStart _ hwr
  rw [exec_append]
  refine T_exits_interleaved _ post hT hc hp ?_
  have : (exec .head init pre).svc.rank ≤ 11 := by
    cases (exec .head init pre).svc <;> simp [SPc.rank]
  omega

/-- … and until then it is never blocked: every tick of a live service thread is enabled, sleep timeout or not -/
theorem never_sleeps_through_stop (pre post : List Tick) (tmo : Bool) (o : Outcome) (u : Bool)
    (hw : (exec .head init pre).cal.stopWoken = true) (hp : noStartCall post)
    (ha : alive (exec .head init (pre ++ post)) = true) :
    (stepS .head (exec .head init (pre ++ post)) tmo o u).isSome = true := by
  have hI := Inv_reach pre
  have hwr := CPc.stopWoken_written _ hw
  have hT : T (exec .head init pre) := ⟨hI.stopQ hwr, hI.stopT hw, hI.noVar⟩
  have hc := CPc.stopWritten_notInStart _ hwr
  obtain ⟨hT2, _⟩ := T_exec _ post hT hc hp
  rw [exec_append] at ha ⊢
  obtain ⟨s', h1, _, _⟩ := T_progress _ tmo o u hT2 ha
  simp [h1]

/-! ## (b) after a waiting stop has returned, `do()` is never called -/

/-- **No `do()` after `stop(wait=True)` / `wait()` has returned.**  If after `pre` the caller is idle and its last call was a
    `stop(forever, wait=True)` that returned normally (or a `wait()` that returned True), then the service thread is not
    alive, and in every continuation without a new `start()` no call of `do()` (and no `done()`) happens. -/
theorem no_do_after_waiting_stop_returns (pre post : List Tick) (hidle : (exec .head init pre).cal = .idle)
    (hret : (∃ f, (exec .head init pre).ret = .stopRet f true) ∨ (exec .head init pre).ret = .waitTrue)
    (hp : noStartCall post) :
    alive (exec .head init pre) = false ∧ alive (exec .head init (pre ++ post)) = false ∧
      nDo (exec .head init (pre ++ post)) = nDo (exec .head init pre) ∧
      (exec .head init (pre ++ post)).nDone = (exec .head init pre).nDone := by
  have hI := Inv_reach pre
  have ha : alive (exec .head init pre) = false := by
    rcases hret with ⟨f, hr⟩ | hr
    · exact (hI.retStop hidle f true hr).2 rfl
    · exact hI.retWait hidle hr
  have hc : (exec .head init pre).cal.inStart = false := by rw [hidle]; rfl
  obtain ⟨h1, h2, h3⟩ := dead_exec _ post ha hc hp
  rw [exec_append]
  exact ⟨ha, h1, h2, h3⟩

/-! ## cleanup: `done()` at most once per started thread, exactly once after a final waiting stop of a live loop -/

/-- **Cleanup at most once.**  For every schedule: the number of calls of `done()` never exceeds the number of service threads
    started, and a thread that is still alive has not called it yet. -/
theorem cleanup_at_most_once_per_start (l : List Tick) :
    (exec .head init l).nDone + (if alive (exec .head init l) then 1 else 0) ≤ (exec .head init l).nStart :=
  (Inv_reach l).doneOnce

/-- **Cleanup only for a final stop.**  For every schedule: `done()` has been called only if some `stop(forever=True)` has executed
    its line 202 before (a non-final stop never triggers cleanup, and the service stays restartable). -/
theorem cleanup_only_after_final_stop (l : List Tick) (h : 0 < (exec .head init l).nDone) : 0 < (exec .head init l).nFinal :=
  (Inv_reach l).doneFinal (Or.inr (Or.inr h))

/-- a final stop request is pending against base count `base`: the loop thread is alive and has not cleaned up yet, or it has
    ended and has cleaned up exactly once -/
def FinalDue (base : Nat) (s : St) : Prop :=
  s.shutdown = true ∧ ((s.svc.alive = true ∧ s.nDone = base) ∨ (s.svc = .dead ∧ s.nDone = base + 1))

def Tick.isCall : Tick → Bool
  | .call _ => true
  | _ => false

theorem FinalDue_step (base : Nat) (s s' : St) (t : Tick) (hF : FinalDue base s)
    (hc : s.cal.stopF = some true ∨ s.cal = .idle) (ht : t.isCall = false) (h : step .head s t = some s') :
    FinalDue base s' ∧ (s'.cal.stopF = some true ∨ s'.cal = .idle) := by
  revert s' h
  obtain ⟨svc, cal, stopping, shutdown, stopped, intr, thr, dos, nDone, nStart, nFinal, ret⟩ := s
  cases t with
  | c tmo =>
    induction cal using CPc.casesFull <;> simp only [step, stepC, Prog.resets, Prog.readsTwice, Bool.false_eq_true, ↓reduceIte] <;> (repeat' split) <;>
      simp_all [FinalDue, CPc.stopF, wakeReturn, waitReturn]
  | s tmo o u =>
    cases svc <;> simp only [step, stepS, Prog.resets, Prog.readsTwice, Bool.false_eq_true, ↓reduceIte] <;> (repeat' split) <;> simp_all [FinalDue, SPc.alive]
  | call k => simp [Tick.isCall] at ht

/-- **Cleanup exactly once after a final waiting stop of a live loop.**  If line 202 of a `stop(forever=True, wait)` call is
    executed while the service thread is alive, and the call later returns normally having waited (`wait=True`), then — whatever
    the interleaving — `done()` has been called exactly once in between and the service thread has ended. -/
theorem cleanup_exactly_once_after_final_waiting_stop (pre post : List Tick) (w : Bool)
    (h0 : (exec .head init pre).cal = .p203 true w) (ha : alive (exec .head init pre) = true)
    (hp : ∀ t ∈ post, t.isCall = false)
    (h1 : (exec .head init (pre ++ post)).cal = .idle) (h2 : (exec .head init (pre ++ post)).ret = .stopRet true true) :
    (exec .head init (pre ++ post)).nDone = (exec .head init pre).nDone + 1 ∧ alive (exec .head init (pre ++ post)) = false := by
  have hI := Inv_reach pre
  have hI2 := Inv_reach (pre ++ post)
  have hsd : (exec .head init pre).shutdown = true := hI.shutF true (by rw [h0]; rfl)
  have hF0 : FinalDue (exec .head init pre).nDone (exec .head init pre) := ⟨hsd, Or.inl ⟨ha, rfl⟩⟩
  have hc0 : (exec .head init pre).cal.stopF = some true ∨ (exec .head init pre).cal = .idle := Or.inl (by rw [h0]; rfl)
  have key : ∀ (l : List Tick) (s : St), FinalDue (exec .head init pre).nDone s → (s.cal.stopF = some true ∨ s.cal = .idle) →
      (∀ t ∈ l, t.isCall = false) → FinalDue (exec .head init pre).nDone (exec .head s l) := by
    intro l
    induction l with
    | nil => intro s hF _ _; exact hF
    | cons t ts ih =>
      intro s hF hc hl
      have ht := hl t (List.mem_cons_self ..)
      have hts : ∀ x ∈ ts, x.isCall = false := fun x hx => hl x (List.mem_cons_of_mem _ hx)
      simp only [exec]
      cases h : step .head s t with
      | none => simpa using ih s hF hc hts
      | some s' =>
        obtain ⟨f2, c2⟩ := FinalDue_step _ s s' t hF hc ht h
        exact ih s' f2 c2 hts
  have hF := key post _ hF0 hc0 hp
  rw [← exec_append] at hF
  have hdead := (hI2.retStop h1 true true h2).2 rfl
  obtain ⟨_, hF⟩ := hF
  rcases hF with ⟨hal, _⟩ | ⟨hd, hn⟩
  · rw [hdead] at hal; cases hal
  · exact ⟨hn, hdead⟩

/-! ## (c) restartability -/

/-- the ticks of one complete `start()` call when the old thread (if any) has ended: lines 178, 180, 182, 184, 185, 186, 187 -/
def startTicks : List Tick := .call .start :: List.replicate 7 (.c false)

/-- FULL STATEMENT (false on the code as it is): "`start()` after any completed `stop(forever=False)` runs the loop again".
    It fails for `stop(forever=False, wait=False)` while the old loop is still alive: `start()` waits one second
    (`join(timeout=1)`, line 181) and then raises RuntimeError("Service already started") — see
    `restart_refused_while_old_loop_alive`.  What holds: -/
theorem restart_after_nonfinal_stop_partial (pre : List Tick) (o : Outcome)
    (hidle : (exec .head init pre).cal = .idle) (hret : (exec .head init pre).ret = .stopRet false true) :
    let s := exec .head init pre
    let s1 := exec .head s startTicks
    s1.ret = .startOk ∧ s1.cal = .idle ∧ s1.svc = .r95 ∧ s1.stopping = false ∧ s1.shutdown = false ∧
      nDo (exec .head s1 (List.replicate 5 (.s false o false))) = nDo s + 1 := by
  have hI := Inv_reach pre
  obtain ⟨hsd, hal⟩ := hI.retStop hidle false true hret
  have hal := hal rfl
  have hth := hI.thrNone
  have hia := hI.intrAbs
  generalize exec .head init pre = s at *
  obtain ⟨svc, cal, stopping, shutdown, stopped, intr, thr, dos, nDone, nStart, nFinal, ret⟩ := s
  simp only at hidle hsd hal hth hia
  subst hidle hsd
  cases svc <;> simp [SPc.alive] at hal <;>
    simp_all [startTicks, List.replicate, exec, step, stepC, stepS, Call.entry, alive, SPc.alive, nDo, SPc.noEvent, Prog.resets, Prog.readsTwice]

/-- kernel-checked counterexample to the full statement: start; the loop is inside its first sleep; `stop(False, wait=False)`
    returns; `start()` finds the old thread alive, its one-second join gives up, RuntimeError("Service already started") -/
theorem restart_refused_while_old_loop_alive :
    let sched := [Tick.call .start, .c false, .c false, .c false, .c false, .c false, .c false, .c false,
                  .s false .success false, .s false .success false, .s false .success false, .s false .success false,
                  .s false .success false, .s false .success false,
                  .call (.stop false false), .c false, .c false, .c false, .c false, .c false,
                  .call .start, .c false, .c false, .c false, .c true, .c false]
    (exec .head init (sched.take 20)).ret = .stopRet false false ∧ (exec .head init (sched.take 20)).cal = .idle ∧
      (exec .head init sched).ret = .startAlready := by
  decide

/-- **A finally stopped service refuses to start.**  Whenever `__shutdown` is up and the caller is idle, a `start()` call raises
    at line 178-179: no flag is touched, no thread is created. -/
theorem start_refused_when_shutdown (s : St) (tmo : Bool) (hidle : s.cal = .idle) (hs : s.shutdown = true) :
    exec .head s [.call .start, .c tmo] = { s with ret := .startRefused } := by
  obtain ⟨svc, cal, stopping, shutdown, stopped, intr, thr, dos, nDone, nStart, nFinal, ret⟩ := s
  simp_all [exec, step, stepC, Call.entry]

theorem no_restart_after_final_stop (pre : List Tick) (w tmo : Bool)
    (hidle : (exec .head init pre).cal = .idle) (hret : (exec .head init pre).ret = .stopRet true w) :
    exec .head init (pre ++ [.call .start, .c tmo]) = { exec .head init pre with ret := .startRefused } := by
  have hI := Inv_reach pre
  rw [exec_append]
  exact start_refused_when_shutdown _ tmo hidle (hI.retStop hidle true w hret).1

/-- `start()` creates the service thread (line 187) only when no service thread is alive: one slot for the service thread's
    program counter is enough, for every schedule -/
theorem single_service_thread (l : List Tick) (h : (exec .head init l).cal = .a187) : alive (exec .head init l) = false :=
  (Inv_reach l).startDead (by rw [h]; rfl)

/-! ## (d) why the reset of `__stopping` must sit in `start()` -/

/-- **Kernel-checked witness**: in the variant program (`v = true`: `self.__stopping = False` executed by the service thread in
    `run()`'s prologue instead of by `start()`), statement (a) fails.  `start()` returns; `stop(forever=False, wait=False)`
    writes the flag, its `wake()` finds no event yet and is ignored, `stop()` returns; then the service thread runs its prologue,
    erases the request, and calls `do()` twice (and would go on for ever). -/
theorem variant_loses_stop :
    let pre := [Tick.call .start, .c false, .c false, .c false, .c false, .c false, .c false,
                .call (.stop false false), .c false, .c false]
    let post := [Tick.c false, .c false] ++ List.replicate 15 (Tick.s true .success false)
    (exec .resetInRun init pre).cal.stopWritten = true ∧ noStartCall post ∧
      (exec .resetInRun init (pre ++ post)).ret = .stopRet false false ∧
      nDo (exec .resetInRun init (pre ++ post)) = nDo (exec .resetInRun init pre) + 2 ∧ alive (exec .resetInRun init (pre ++ post)) = true := by
  refine ⟨by decide, ?_, by decide, by decide, by decide⟩
  intro t ht
  simp only [List.cons_append, List.nil_append, List.mem_cons, List.mem_replicate] at ht
  rcases ht with rfl | rfl | ⟨_, rfl⟩ <;> rfl

/-- … and it never ends: after any number `n` of further statements of the service thread (sleeps timing out) it is still
    alive (checked here for n = 200) -/
theorem variant_never_exits :
    let pre := [Tick.call .start, .c false, .c false, .c false, .c false, .c false, .c false,
                .call (.stop false false), .c false, .c false, .c false, .c false]
    alive (exec .resetInRun init (pre ++ List.replicate 200 (Tick.s true .success false))) = true ∧
      nDo (exec .resetInRun init (pre ++ List.replicate 200 (Tick.s true .success false))) = 25 := by
  decide +kernel

/-- the same schedule on the program as it is: the request survives, no `do()` at all, the loop ends -/
theorem head_keeps_stop :
    let pre := [Tick.call .start, .c false, .c false, .c false, .c false, .c false, .c false, .c false,
                .call (.stop false false), .c false, .c false]
    let post := [Tick.c false, .c false] ++ List.replicate 15 (Tick.s true .success false)
    nDo (exec .head init (pre ++ post)) = 0 ∧ alive (exec .head init (pre ++ post)) = false := by
  decide

/-! ## `wake()` reads `__interrupt` once (fix fa2d0de): no call raises AttributeError; `stop()` always returns normally -/

/-- **No API call raises AttributeError**, for every schedule.  (Before fix fa2d0de `wake()` tested `self.__interrupt is None` and
    then dereferenced `self.__interrupt` again; the service thread's `self.__interrupt = None`, line 131, could fall in between:
    `wake_twice_raises`.) -/
theorem no_attribute_error (l : List Tick) : (exec .head init l).ret ≠ .attrErr := (Inv_reach l).noAttrErr

/-- the caller is inside the call `stop(f, w)` (including its nested `wake()` and untimed `wait()`) -/
def CPc.inStopOf (f w : Bool) : CPc → Bool
  | .p202 f' w' | .p203 f' w' | .p205 f' w' => f' == f && w' == w
  | .k167 (some (f', w')) | .k170 (some (f', w')) => f' == f && w' == w
  | .w233 (some (f', w')) t | .w235j (some (f', w')) t | .w236 (some (f', w')) t => f' == f && w' == w && !t
  | _ => false

def CPc.isW236 : CPc → Bool
  | .w236 _ _ => true
  | _ => false

/-- the call `stop(f, w)` is in progress (and past its join only if the loop thread has ended), or has returned normally -/
def StopRun (f w : Bool) (s : St) : Prop :=
  (s.cal.inStopOf f w = true ∧ (s.cal.isW236 = true → alive s = false)) ∨ (s.cal = .idle ∧ s.ret = .stopRet f w)

theorem StopRun_step (f w : Bool) (s s' : St) (t : Tick) (hR : StopRun f w s) (ht : t.isCall = false)
    (h : step .head s t = some s') : StopRun f w s' := by
  revert s' h
  obtain ⟨svc, cal, stopping, shutdown, stopped, intr, thr, dos, nDone, nStart, nFinal, ret⟩ := s
  cases t with
  | c tmo =>
    induction cal using CPc.casesFull <;> simp only [step, stepC, Prog.resets, Prog.readsTwice, Bool.false_eq_true, ↓reduceIte] <;>
      (repeat' split) <;> simp_all [StopRun, CPc.inStopOf, CPc.isW236, wakeReturn, waitReturn, alive]
  | s tmo o u =>
    cases svc <;> simp only [step, stepS, Prog.resets, Prog.readsTwice, Bool.false_eq_true, ↓reduceIte] <;> (repeat' split) <;>
      simp_all [StopRun, alive, SPc.alive] <;> (rcases hR with ⟨h1, _⟩ | h1 <;> simp [h1])
  | call k => simp [Tick.isCall] at ht

/-- **`stop()` never raises, and a waiting `stop()` joins.**  For every schedule: a call `stop(forever, wait)` issued by the idle
    caller, once it is over (whatever the two threads did in between), has returned normally — no AttributeError, no TimeoutError —
    and if `wait=True` the service thread has ended.  (That it *is* over eventually: `loop_exits_after_stop` — the loop ends
    within 11 statements — and `waiting_stop_completes`.) -/
theorem stop_returns_normally (pre post : List Tick) (f w : Bool) (h0 : (exec .head init pre).cal = .idle)
    (hp : ∀ t ∈ post, t.isCall = false)
    (h1 : (exec .head init (pre ++ Tick.call (.stop f w) :: post)).cal = .idle) :
    (exec .head init (pre ++ Tick.call (.stop f w) :: post)).ret = .stopRet f w ∧
      (w = true → alive (exec .head init (pre ++ Tick.call (.stop f w) :: post)) = false) := by
  have hI := Inv_reach (pre ++ Tick.call (.stop f w) :: post)
  have key : ∀ (l : List Tick) (s : St), StopRun f w s → (∀ t ∈ l, t.isCall = false) → StopRun f w (exec .head s l) := by
    intro l
    induction l with
    | nil => intro s hR _; exact hR
    | cons t ts ih =>
      intro s hR hl
      have ht := hl t (List.mem_cons_self ..)
      have hts : ∀ x ∈ ts, x.isCall = false := fun x hx => hl x (List.mem_cons_of_mem _ hx)
      simp only [exec]
      cases h : step .head s t with
      | none => simpa using ih s hR hts
      | some s' => exact ih s' (StopRun_step f w s s' t hR ht h) hts
  have hs1 : StopRun f w (exec .head (exec .head init pre) [Tick.call (.stop f w)]) := by
    generalize exec .head init pre = s at h0
    obtain ⟨svc, cal, stopping, shutdown, stopped, intr, thr, dos, nDone, nStart, nFinal, ret⟩ := s
    simp only at h0
    subst h0
    simp [exec, step, Call.entry, StopRun, CPc.inStopOf, CPc.isW236]
  have hR := key post _ hs1 hp
  rw [← exec_append, ← exec_append] at hR
  simp only [List.append_assoc, List.singleton_append] at hR
  rcases hR with ⟨hin, _⟩ | ⟨_, hret⟩
  · rw [h1] at hin; simp [CPc.inStopOf] at hin
  · exact ⟨hret, fun hw => by subst hw; exact (hI.retStop h1 f true hret).2 rfl⟩

/-- once the loop thread has ended, the join of a waiting `stop()` is enabled and the call returns in two statements -/
theorem waiting_stop_completes (s : St) (f : Bool) (t1 t2 : Bool) (hc : s.cal = .w235j (some (f, true)) false)
    (ha : alive s = false) :
    (exec .head s [.c t1, .c t2]).cal = .idle ∧ (exec .head s [.c t1, .c t2]).ret = .stopRet f true := by
  obtain ⟨svc, cal, stopping, shutdown, stopped, intr, thr, dos, nDone, nStart, nFinal, ret⟩ := s
  simp only at hc
  subst hc
  simp_all [exec, step, stepC, waitReturn, alive]

/-- **Kernel-checked witness that the pre-fix program raises** (variant `.wakeTwice`): the loop leaves on its own (`until()` true)
    while a waiting final `stop()` is between the two reads of `wake()`: `stop()` raises AttributeError instead of joining (the loop
    still ends and `done()` still runs). -/
theorem wake_twice_raises :
    let sched := [Tick.call .start, .c false, .c false, .c false, .c false, .c false, .c false, .c false,
                  .s false .success true, .s false .success true, .s false .success true, .s false .success true,
                  .s false .success true, .s false .success true, .s false .success true, .s false .success true,
                  .call (.stop true true), .c false, .c false, .c false,
                  .s false .success false, .s false .success false, .s false .success false,
                  .c false,
                  .s false .success false, .s false .success false]
    (exec .wakeTwice init sched).ret = .attrErr ∧ (exec .wakeTwice init sched).cal = .idle ∧
      (exec .wakeTwice init sched).nDone = 1 ∧ alive (exec .wakeTwice init sched) = false := by
  decide

/-- the same schedule on the program as it is: `stop()` goes on to its join and returns normally -/
theorem wake_once_same_schedule :
    let sched := [Tick.call .start, .c false, .c false, .c false, .c false, .c false, .c false, .c false,
                  .s false .success true, .s false .success true, .s false .success true, .s false .success true,
                  .s false .success true, .s false .success true, .s false .success true, .s false .success true,
                  .call (.stop true true), .c false, .c false, .c false,
                  .s false .success false, .s false .success false, .s false .success false,
                  .c false,
                  .s false .success false, .s false .success false,
                  .c false, .c false, .c false, .c false]
    (exec .head init sched).ret = .stopRet true true ∧ (exec .head init sched).cal = .idle ∧
      (exec .head init sched).nDone = 1 ∧ alive (exec .head init sched) = false := by
  decide

/-- satisfiability of the hypotheses of (a), (b), (c): a schedule that starts the service, stops it (not finally, waiting) and
    returns -/
example :
    let pre := [Tick.call .start, .c false, .c false, .c false, .c false, .c false, .c false, .c false,
                .call (.stop false true), .c false, .c false, .c false, .c false, .c false,
                .s false .success false, .s false .success false, .s false .success false, .s false .success false,
                .s false .success false, .s false .success false, .s false .success false, .c false, .c false]
    (exec .head init (pre.take 11)).cal.stopWritten = true ∧ (exec .head init (pre.take 13)).cal.stopWoken = true ∧
      (exec .head init pre).cal = .idle ∧ (exec .head init pre).ret = .stopRet false true := by
  decide

/-! ## the model's program counters are the audited statements -/

/-- the labels of the program counters, in program order, are exactly the rows of kind "S" of the audited statement table
    (which Props/C18Sites.lean proves equal to the table extracted from the source under test) -/
theorem model_labels_are_audited : pcLabels = auditedLabels := by decide

end CS.Runnable.Th
