import Csverif.Proofs.StateUpdate
/-
C11 — sync-state index integrity (cloudsync/sync/state.py, `SyncState`'s index machinery).

`IndexInv st` is the strongest invariant found to be TRUE of the code (first by fuzzing the real `SyncState` with an
executable version of each candidate clause, then proved here over the model `Csverif/Model/State.lean`):

  * every id slot of a side names an existing entry that carries that id on that side; `None` is never an id key
  * every `(path, id)` slot of a side names an entry that carries that path and that id on that side and that owns the
    id slot; path keys are truthy strings; no bucket is empty
  * every entry — live or not — that carries an id on a side is found under that id (hence at most one entry carries
    an id per side), and, when it also carries a truthy path, under its `(path, id)`
  * the pending set contains every entry that has a change flag on a side that has a (truthy) id

Clauses of the natural statement that are FALSE of the code (each kept below as a comment with a kernel-checked
counterexample that the harness replays on the real `SyncState`):

  * "an entry that carries a path on a side carries an id on it"      — `cex_path_without_id`
  * "every entry of the pending set has a change flag with an id"      — `cex_pending_without_flag`
  * "the pending set holds nothing that has been forgotten"            — `cex_pending_holds_forgotten`
  * `forget_oid` leaves an empty bucket / raises KeyError for a pathless entry — `cex_forget_empty_bucket`, `cex_forget_keyerror`
  * after a reload absent sides are indexed under `None` and such slots go stale — `cex_reload_stale_slot`
  * the hook does not always terminate: `cex_kids_mutual_recursion` (two directory entries), `changed_diverges`
    (both sides flagged without an id; proved for every fuel)

What is proved (no size or step bound; all quantifiers are over arbitrary states, entries, values and configurations):

  * `init_inv`                         the empty state satisfies `IndexInv`
  * `setattr_inv` (`sideSet_inv`)      every hooked attribute assignment `ent[side].<attr> = v` — path, oid, changed, exists,
                                       hash, sync_hash, sync_path, otype, size, mtime — preserves `IndexInv`, on a normal return and
                                       on every exception except fuel exhaustion (RecursionError), under `PathGuard`
                                       (a directory entry that is moved has no *directory* entries strictly beneath its old path;
                                       its non-directory kids are moved with it: `kidsLoop_tr`)
  * `setattr_oid_total`                `ent[side].oid = v` (including the recursive ousting of previous owners) needs at most
                                       two levels of recursion and raises nothing
  * `setattr_changed_total` / `changed_diverges`   the `changed` rule terminates within two levels unless both sides are
                                       flagged and id-less, in which case it never terminates (for every fuel)
  * `step_inv` / `run_inv`             the state-level operations — hooked assignments, `ignored`/`priority`/`punt`/`unignore`,
                                       `mark_changed`, `SideState.clear`, `update_entry` (guard `KidsLeaves`), raw events `update`
                                       for both id styles (guard `FlatK` and "no merge-copy", `mergeCopies = false`) —
                                       preserve `IndexInv` under `OpGuard`, hence every guarded sequence does (induction)
  * `forget_sound`                     `forget_oid` keeps the slot-soundness half (`SlotSound`) on every outcome

NOT proved (model + differential tie only; stated here so that nothing is claimed silently):
  * preservation by `split`, `__setitem__` and by the merge-copy branch of `update` (state.py:1155-1157) — `OpGuard` is `False` there
  * moves of a directory that has directory entries beneath it (beyond `PathGuard`); termination of `_update_kids`
  * uniqueness of dictionary keys (the clauses are stated through first-match lookups `AL.get` / `St.slot`)
  * the loader (`reload`): it breaks `IndexInv` (`cex_reload_breaks_inv`)
-/
namespace CS.State

/-- the index invariant at operation boundaries -/
abbrev IndexInv := Inv

theorem init_inv : IndexInv init := by
  refine ⟨⟨?_, ?_, ?_, ?_, ?_, ?_, ?_⟩, ?_⟩
  · intro s k i h; cases s <;> simp [init, St.oids, St.ix] at h
  · intro s; cases s <;> rfl
  · intro s k i h; cases s <;> simp [init, St.oids, St.ix] at h
  · intro s p b h; cases s <;> simp [init, St.paths, St.ix] at h
  · intro s p k i h; cases s <;> simp [init, St.slot, St.paths, St.ix] at h
  · intro i s _ ho; exact absurd (oid_oob init i s (by simp [init])) ho
  · intro i s _ ho; exact absurd (oid_oob init i s (by simp [init])) ho
  · intro i ⟨s, h1, _⟩
    rw [changed_oob init i s (by simp [init])] at h1; cases h1

/-- hooked attribute assignment: `IndexInv` is preserved on every outcome except fuel exhaustion -/
theorem setattr_inv (cfg : Cfg) (fuel : Nat) (e : Nat) (s : Sd) (fv : FV) (st : St) (hi : IndexInv st)
    (hlt : e < st.ents.length) (hg : PathGuard cfg st e s fv)
    (hrec : (sideSet cfg fuel e s fv st).1 ≠ .error .recursion) : IndexInv (sideSet cfg fuel e s fv st).2 := by
  have := sideSet_inv cfg fuel e s fv st hi hlt hg st rfl
  cases hr : (sideSet cfg fuel e s fv st).1 with
  | ok a => exact (this.1 a hr).1
  | error x => exact (this.2 x hr (fun hx => hrec (hx ▸ hr))).1

/-- `ent[side].oid = v` with two levels of fuel: total, raises nothing, keeps the invariant -/
theorem setattr_oid_total (cfg : Cfg) (n : Nat) (e : Nat) (s : Sd) (v : Oid) (st : St) (hi : IndexInv st)
    (hlt : e < st.ents.length) :
    (sideSet cfg (n + 2) e s (.oid v) st).1 = .ok () ∧ IndexInv (sideSet cfg (n + 2) e s (.oid v) st).2 := by
  have := sideSet_oid_spec (oustOk_sideSet_succ cfg n) cfg hi.1 hi.2 e s v hlt
  rcases this with ⟨hf, _⟩ | ⟨hok, h1, h2, _⟩
  · exact hf.elim
  · exact ⟨hok, h1, h2⟩

/-- both sides carry a change flag and neither carries an id -/
def BothDangling (st : St) (e : Nat) : Prop :=
  ∀ s, (st.side e s).changed.truthy = true ∧ truthyS (st.side e s).oid = false

/-- …then every assignment to `changed` recurses forever (RecursionError on the real code) -/
theorem changed_diverges (cfg : Cfg) : ∀ (n : Nat) (e : Nat) (s : Sd) (v : Chg) (st : St), BothDangling st e →
    (sideSet cfg n e s (.changed v) st).1 = .error .recursion
  | 0, _, _, _, _, _ => rfl
  | n + 1, e, s, v, st, hb => by
    show (sideSetBody (sideSet cfg n) cfg e s (.changed v) st).1 = _
    rw [sideSetBody_changed_eq]
    have h1 := hb s
    have h2 := hb s.other
    have hc : ((v.truthy && truthyS (st.side e s).oid) || ((st.side e s.other).changed.truthy && truthyS (st.side e s.other).oid)) = false := by
      simp [h1.2, h2.2]
    have hw : ((st.side e s.other).changed.truthy && !truthyS (st.side e s.other).oid) = true := by simp [h2.1, h2.2]
    simp only [hc, Bool.false_eq_true, if_false, hw, whenM, if_true]
    have := changed_diverges cfg n e s.other (.num 0) (st.csDiscard e) (fun s' => by simpa using hb s')
    cases hr : sideSet cfg n e s.other (.changed (.num 0)) (st.csDiscard e) with
    | mk r s2 => rw [hr] at this; simp only at this; subst this; rfl

/-- …otherwise two levels suffice -/
theorem setattr_changed_total (cfg : Cfg) (n : Nat) (e : Nat) (s : Sd) (v : Chg) (st : St) (hb : ¬ BothDangling st e) :
    (sideSet cfg (n + 2) e s (.changed v) st).1 = .ok () := by
  show (sideSetBody (sideSet cfg (n + 1)) cfg e s (.changed v) st).1 = _
  rw [sideSetBody_changed_eq]
  split
  · rfl
  · next hc =>
    by_cases hw : ((st.side e s.other).changed.truthy && !truthyS (st.side e s.other).oid) = true
    · simp only [hw, whenM, if_true]
      have h2 : sideSet cfg (n + 1) e s.other (.changed (.num 0)) (st.csDiscard e) =
          sideSetBody (sideSet cfg n) cfg e s.other (.changed (.num 0)) (st.csDiscard e) := rfl
      rw [h2, sideSetBody_changed_eq]
      have hoo : s.other.other = s := by cases s <;> rfl
      simp only [side_csDiscard, hoo]
      have hw2 : ((st.side e s).changed.truthy && !truthyS (st.side e s).oid) = false := by
        cases h : ((st.side e s).changed.truthy && !truthyS (st.side e s).oid) with
        | false => rfl
        | true =>
          exfalso; apply hb
          intro s'
          simp only [Bool.and_eq_true, Bool.not_eq_true'] at h hw
          rcases Sd.eq_or_other s s' with hs | hs
          · subst hs; exact h
          · subst hs; exact hw
      by_cases hc2 : (((Chg.num 0).truthy && truthyS (st.side e s.other).oid) ||
          ((st.side e s).changed.truthy && truthyS (st.side e s).oid)) = true
      · simp only [hc2, if_true]
      · simp only [hc2, Bool.false_eq_true, if_false, hw2, whenM, M.pure_apply]
    · simp only [hw, whenM, Bool.false_eq_true, if_false, M.pure_apply]

/-! ### state-level operations -/

/-- outcome of a triple as a statement about `(m st).2` -/
theorem Tr.run_inv {α} {P : St → Prop} {m : M α} {Q : α → St → Prop} {I : St → Prop} (h : Tr P m Q I) (hQ : ∀ a st, Q a st → I st)
    (st : St) (hp : P st) (hrec : (m st).1 ≠ .error .recursion) : I (m st).2 := by
  have := h st hp
  cases hr : (m st).1 with
  | ok a => exact hQ a _ (this.1 a hr)
  | error x => exact this.2 x hr (fun hx => hrec (hx ▸ hr))

/-- the guard under which an operation is covered by `step_inv`:
    a hooked path assignment must satisfy `PathGuard`; the operations that are not yet covered are excluded -/
def OpGuard (cfg : Cfg) (st : St) : Op → Prop
  | .setSide e s fv => PathGuard cfg st e s fv
  | .updateEntry e s _ => KidsLeaves cfg st s e
  | .update s _ a prior => FlatK cfg s st ∧ mergeCopies st s a prior = false
  | .tick _ | .setIgnored _ _ | .setPriority _ _ | .punt _ | .unignore _ _ | .commit | .clear _ _ | .mark _ _ => True
  | _ => False

/-- every covered operation preserves `IndexInv`, on a normal return and on every exception except fuel exhaustion -/
theorem step_inv (cfg : Cfg) (fuel : Nat) (op : Op) (st : St) (hi : IndexInv st) (hg : OpGuard cfg st op)
    (hrec : (step cfg fuel op st).1 ≠ .error .recursion) : IndexInv (step cfg fuel op st).2 := by
  have key : Tr (fun st' => st' = st) (step cfg fuel op) (fun _ st' => Inv st') Inv := by
    unfold step
    apply Tr.getSt_bind; intro st0
    dsimp only
    apply Tr.with_pre (φ := st0 = st) (fun st' ⟨h0, h1⟩ => h0.symm.trans h1)
    rintro rfl
    apply Tr.ite
    · intro _
      exact Tr.bind (R := fun _ _ => False) (Tr.throw (fun _ st' ⟨_, h⟩ => by rw [h]; exact hi)) (fun _ => Tr.false_pre (fun _ h => h))
    · intro hb
      have hrefs : ∀ i ∈ op.refs, i < st0.ents.length := by
        intro i hi'
        have : ¬ (i ≥ st0.ents.length) := fun hge => hb (List.any_eq_true.2 ⟨i, hi', by simpa using hge⟩)
        omega
      have hIL : ∀ st', (st' = st0 ∧ st' = st0) → InvL st0.ents.length st' :=
        fun st' ⟨h, _⟩ => by rw [h]; exact ⟨hi, rfl⟩
      cases op with
      | tick ms => exact Tr.modify (fun st' h => ((hIL st' h).plain (plainRel_now ..)).1)
      | commit => exact Tr.modify (fun st' h => ((hIL st' h).plain (plainRel_dirty ..)).1)
      | setSide e s fv =>
        have he : e < st0.ents.length := hrefs e (by simp [Op.refs])
        exact (sideSet_inv cfg fuel e s fv st0 hi he hg).conseq (fun _ h => h.1) (fun _ _ h => h.1) (fun _ h => h.1)
      | setIgnored e v => exact Tr.modify (fun st' h => (ignoredState_inv st' e v _ (hIL st' h)).1)
      | setPriority e v =>
        have he : e < st0.ents.length := hrefs e (by simp [Op.refs])
        exact (setPriority_tr cfg fuel noX e v st0).conseq (fun st' ⟨h, _⟩ => ⟨h, h ▸ hi.1, h ▸ hi.2, h ▸ he⟩)
          (fun _ _ h => ⟨h.2.1, h.2.2⟩) (fun _ h => h.elim)
      | punt e =>
        have he : e < st0.ents.length := hrefs e (by simp [Op.refs])
        exact (setPriority_tr cfg fuel noX e _ st0).conseq (fun st' ⟨h, _⟩ => ⟨h, h ▸ hi.1, h ▸ hi.2, h ▸ he⟩)
          (fun _ _ h => ⟨h.2.1, h.2.2⟩) (fun _ h => h.elim)
      | unignore e r =>
        refine Tr.bind (R := fun _ st' => InvL st0.ents.length st') ?_ (fun _ => ?_)
        · exact Tr.assert (fun st' h _ => (hIL st' h).1) (fun st' h _ => hIL st' h)
        · exact Tr.modify (fun st' h => (ignoredState_inv st' e .none _ h).1)
      | clear e s =>
        have he : e < st0.ents.length := hrefs e (by simp [Op.refs])
        exact (clearSide_tr cfg fuel e s _ he).conseq hIL (fun _ _ h => h.1) (fun _ h => h)
      | mark e s =>
        have he : e < st0.ents.length := hrefs e (by simp [Op.refs])
        exact (markChanged_tr cfg fuel s e _ he).conseq hIL (fun _ _ h => h.1) (fun _ h => h)
      | update s ot a prior =>
        exact (update_tr cfg fuel s ot a prior st0.ents.length).pre (fun st' h => by rw [h.1]; exact ⟨⟨⟨hi, rfl⟩, hg.1⟩, hg.2⟩)
      | updateEntry e s a =>
        have he : e < st0.ents.length := hrefs e (by simp [Op.refs])
        exact (updateEntry_tr cfg fuel e s a st0.ents.length he).pre (fun st' h => by rw [h.1]; exact ⟨⟨hi, rfl⟩, hg⟩)
      | split _ => exact hg.elim
      | setItem _ _ _ _ => exact hg.elim
      | forget _ _ => exact hg.elim
      | reload => exact hg.elim
  exact key.run_inv (fun _ _ h => h) st rfl hrec

/-- sequences: if every operation meets its guard in the state it is applied to and none runs out of fuel,
    `IndexInv` holds after every prefix -/
def Guarded (cfg : Cfg) (fuel : Nat) : List Op → St → Prop
  | [], _ => True
  | op :: ops, st => OpGuard cfg st op ∧ (step cfg fuel op st).1 ≠ .error .recursion ∧ Guarded cfg fuel ops (step cfg fuel op st).2

theorem run_inv (cfg : Cfg) (fuel : Nat) : ∀ (ops : List Op) (st : St), IndexInv st → Guarded cfg fuel ops st →
    IndexInv (run cfg fuel ops st)
  | [], _, hi, _ => hi
  | op :: ops, st, hi, ⟨hg, hrec, hrest⟩ => run_inv cfg fuel ops _ (step_inv cfg fuel op st hi hg hrec) hrest

theorem run_inv_init (cfg : Cfg) (fuel : Nat) (ops : List Op) (h : Guarded cfg fuel ops init) : IndexInv (run cfg fuel ops init) :=
  run_inv cfg fuel ops init init_inv h

/-! ### `forget_oid`: only the slot-soundness part survives -/

/-- the soundness half of `IndexInv`: no slot leads to an entry that does not carry what the slot says -/
structure SlotSound (st : St) : Prop where
  bnd : ∀ s k i, AL.get (st.oids s) k = some i → i < st.ents.length
  oidKey : ∀ s, AL.get (st.oids s) none = none
  oidSlot : ∀ s k i, AL.get (st.oids s) k = some i → (st.side i s).oid = k
  pathSlot : ∀ s p k i, st.slot s p k = some i →
      (st.side i s).path = p ∧ (st.side i s).oid = k ∧ AL.get (st.oids s) k = some i

theorem slot_forget_set (st : St) (s : Sd) (p : Option Path.Str) (b : List (Oid × Nat)) (k : Oid)
    (hb : AL.get (st.paths s) p = some b) (s' : Sd) (p' : Option Path.Str) (k' : Oid) :
    ((st.setOids s (AL.erase (st.oids s) k)).setPaths s (AL.set (st.paths s) p (AL.erase b k))).slot s' p' k' =
      if s' = s ∧ p' = p ∧ k' = k then none else st.slot s' p' k' := by
  unfold St.slot
  simp only [paths_setPaths, paths_setOids]
  by_cases hs : s' = s
  · subst hs
    simp only [if_true, true_and, AL.get_set]
    by_cases hp : p' = p
    · subst hp
      simp only [if_true, true_and, hb, AL.get_erase]
    · simp [hp]
  · simp [hs]

theorem forgetOid_eq (s : Sd) (k : Oid) (st : St) :
    forgetOid s k st =
      match AL.get (st.oids s) k with
      | none => (.ok (), st)
      | some e =>
        match AL.get (st.paths s) (st.side e s).path with
        | none => (.error .key, st.setOids s (AL.erase (st.oids s) k))
        | some b =>
          match AL.get b k with
          | none => (.error .key, st.setOids s (AL.erase (st.oids s) k))
          | some _ => (.ok (), (st.setOids s (AL.erase (st.oids s) k)).setPaths s (AL.set (st.paths s) (st.side e s).path (AL.erase b k))) := by
  simp only [forgetOid, M.bind_apply, getSt_apply]
  cases AL.get (st.oids s) k with
  | none => rfl
  | some e =>
    simp only [M.bind_apply, modifySt_apply]
    cases AL.get (st.paths s) (st.side e s).path with
    | none => rfl
    | some b =>
      simp only
      cases AL.get b k with
      | none => rfl
      | some j => simp [modifySt_apply]

/-- `forget_oid` (state.py:756-759) keeps slot soundness on every outcome (it breaks the rest: see the counterexamples) -/
theorem forget_sound (s : Sd) (k : Oid) (st : St) (hi : IndexInv st) : SlotSound (forgetOid s k st).2 := by
  obtain ⟨b1, b2, b3, b4, b5, b6, b7⟩ := hi.1
  have base : SlotSound st := ⟨b1, b2, b3, b5⟩
  rw [forgetOid_eq]
  cases hk : AL.get (st.oids s) k with
  | none => exact base
  | some e =>
    simp only
    have heo : (st.side e s).oid = k := b3 s k e hk
    have hkn : k ≠ none := fun h => by rw [h, b2 s] at hk; cases hk
    -- the state after the id slot is gone
    have hmid : SlotSound (st.setOids s (AL.erase (st.oids s) k)) ∨ True := Or.inr trivial
    cases hb : AL.get (st.paths s) (st.side e s).path with
    | none =>
      simp only
      refine ⟨?_, ?_, ?_, ?_⟩
      · intro s' k' i h; st_norm at h ⊢; grind
      · intro s'; st_norm; grind
      · intro s' k' i h; st_norm at h ⊢; grind
      · intro s' p' k' i h; st_norm at h ⊢
        have := b5 s' p' k' i h
        have hne : ¬ (s' = s ∧ k' = k) := by
          rintro ⟨rfl, rfl⟩
          have h3 := this.2.2; rw [hk] at h3; cases h3
          rw [this.1] at hb
          unfold St.slot at h; rw [hb] at h; cases h
        grind
    | some b =>
      simp only
      cases hbk : AL.get b k with
      | none =>
        simp only
        refine ⟨?_, ?_, ?_, ?_⟩
        · intro s' k' i h; st_norm at h ⊢; grind
        · intro s'; st_norm; grind
        · intro s' k' i h; st_norm at h ⊢; grind
        · intro s' p' k' i h; st_norm at h ⊢
          have := b5 s' p' k' i h
          have hne : ¬ (s' = s ∧ k' = k) := by
            rintro ⟨rfl, rfl⟩
            have h3 := this.2.2; rw [hk] at h3; cases h3
            rw [this.1] at hb
            unfold St.slot at h; rw [hb] at h; simp only at h; rw [hbk] at h; cases h
          grind
      | some j =>
        simp only
        refine ⟨?_, ?_, ?_, ?_⟩
        · intro s' k' i h; st_norm at h ⊢; grind
        · intro s'; st_norm; grind
        · intro s' k' i h; st_norm at h ⊢; grind
        · intro s' p' k' i h
          rw [slot_forget_set st s _ b k hb] at h
          st_norm
          have hold := b5 s' p' k' i
          by_cases hc : s' = s ∧ p' = (st.side e s).path ∧ k' = k
          · rw [if_pos hc] at h; cases h
          · rw [if_neg hc] at h
            have := hold h
            have hne : ¬ (s' = s ∧ k' = k) := by
              rintro ⟨rfl, rfl⟩
              have h3 := this.2.2; rw [hk] at h3; cases h3
              exact hc ⟨rfl, this.1.symm, rfl⟩
            grind

/-! ### kernel-checked counterexamples (each is replayed on the real `SyncState` by harness/c11_state.py) -/

def cfg0 : Cfg := mkCfg false false true true 0 0
def ev (s : Sd) (ot : OType) (oid : String) (path : Option String) : Op :=
  .update s ot { oid := some oid.toList, path := path.map String.toList } none

/-- the first exception raised by a sequence -/
def outcome (cfg : Cfg) (fuel : Nat) : List Op → St → Option Exc
  | [], _ => none
  | op :: rest, st => match step cfg fuel op st with
    | (.ok _, st') => outcome cfg fuel rest st'
    | (.error x, _) => some x

/-- natural clause, FALSE: an entry side that carries a path carries an id.
    `update(LOCAL, FILE, "i1", path="/a")` then `ent[LOCAL].oid = None` -/
def PathImpliesOid (st : St) : Prop := ∀ i s, truthyS (st.side i s).path = true → (st.side i s).oid ≠ none
def ops_path_without_id : List Op := [ev .L .file "i1" (some "/a"), .setSide 0 .L (.oid none)]
theorem cex_path_without_id : ¬ PathImpliesOid (run cfg0 10 ops_path_without_id init) :=
  fun h => h 0 .L (by decide +kernel) (by decide +kernel)

/-- natural clause, FALSE: every entry of the pending set has a change flag on a side that has an id.
    `update(LOCAL, FILE, "i1", path="/a")`, `mark_changed(REMOTE, ent)`, `ent[LOCAL].changed = None` -/
def PendingSound (st : St) : Prop :=
  ∀ i, i ∈ st.cs → ∃ s, (st.side i s).changed.truthy = true ∧ truthyS (st.side i s).oid = true
def ops_pending_without_flag : List Op := [ev .L .file "i1" (some "/a"), .mark 0 .R, .setSide 0 .L (.changed .none)]
theorem cex_pending_without_flag : ¬ PendingSound (run cfg0 10 ops_pending_without_flag init) := by
  intro h
  obtain ⟨s, h1, _⟩ := h 0 (by decide +kernel)
  cases s
  · exact absurd h1 (by decide +kernel)
  · exact absurd h1 (by decide +kernel)

/-- FALSE: the pending set holds nothing that has been forgotten; `forget_oid` also leaves an empty bucket.
    `update(LOCAL, FILE, "i1", path="/a")`, `forget_oid(LOCAL, "i1")` -/
def ops_forget : List Op := [ev .L .file "i1" (some "/a"), .forget .L (some "i1".toList)]
theorem cex_pending_holds_forgotten :
    0 ∈ (run cfg0 10 ops_forget init).cs ∧ (run cfg0 10 ops_forget init).oids .L = [] ∧ (run cfg0 10 ops_forget init).oids .R = [] := by
  decide +kernel
theorem cex_forget_empty_bucket : (run cfg0 10 ops_forget init).paths .L = [(some "/a".toList, [])] := by decide +kernel
theorem cex_forget_breaks_inv : ¬ IndexInv (run cfg0 10 ops_forget init) := by
  intro h
  have := (h.1.pathKey .L (some "/a".toList) [] (by decide +kernel)).2.1
  exact this rfl

/-- `forget_oid` on an entry without a path raises KeyError after the id slot is gone.
    `update(LOCAL, FILE, "i1")` (no path), `forget_oid(LOCAL, "i1")` -/
def ops_forget_pathless : List Op := [ev .L .file "i1" none, .forget .L (some "i1".toList)]
theorem cex_forget_keyerror : outcome cfg0 10 ops_forget_pathless init = some .key := by decide +kernel

/-- after a reload absent sides are indexed under `None`; giving the side an id leaves the `(None, None)` slot stale.
    `update(LOCAL, FILE, "i1", path="/a")`, reload, `ent[REMOTE].oid = "r1"` -/
def ops_reload : List Op := [ev .L .file "i1" (some "/a"), .reload, .setSide 0 .R (.oid (some "r1".toList))]
theorem cex_reload_stale_slot :
    (run cfg0 10 ops_reload init).slot .R none none = some 0 ∧ ((run cfg0 10 ops_reload init).side 0 .R).oid = some "r1".toList := by
  decide +kernel
theorem cex_reload_breaks_inv : ¬ IndexInv (run cfg0 10 ops_reload init) := by
  intro h
  have := (h.1.pathSlot .R none none 0 (by decide +kernel)).2.1
  exact absurd this (by decide +kernel)

/-- two directory entries: `e` at `/a`, `f` at `/a/b`, then `e` moves to `/a/b/c` — `_update_kids` recurses for ever
    (RecursionError on the real code); the model is still recursing after 40 levels -/
def ops_kids_mutual : List Op := [ev .L .dir "e" (some "/a"), ev .L .dir "f" (some "/a/b"), ev .L .dir "e" (some "/a/b/c")]
set_option maxRecDepth 100000 in
theorem cex_kids_mutual_recursion : outcome cfg0 40 ops_kids_mutual init = some .recursion := by decide +kernel

/-- the repaired self-recursion (commit f72ed8c): a folder moved beneath its own previous path ends at the new path -/
def ops_self_nest : List Op := [ev .L .dir "o" (some "/a"), ev .L .dir "o" (some "/a/b")]
theorem fixed_self_recursion_terminates :
    outcome cfg0 10 ops_self_nest init = none ∧ ((run cfg0 10 ops_self_nest init).side 0 .L).path = some "/a/b".toList ∧
    (run cfg0 10 ops_self_nest init).slot .L (some "/a/b".toList) (some "o".toList) = some 0 := by decide +kernel

/-- both sides flagged and id-less: a concrete instance of `changed_diverges` -/
def ops_changed_rec : List Op :=
  [ev .L .file "i1" (some "/a"), .setSide 0 .R (.changed (.num 1)), .setSide 0 .L (.oid none), .setSide 0 .L (.changed .none)]
set_option maxRecDepth 100000 in
theorem cex_changed_recursion : outcome cfg0 40 ops_changed_rec init = some .recursion := by decide +kernel

def isRec {α} : Except Exc α → Bool
  | .error .recursion => true
  | _ => false
theorem ne_rec_of {α} {r : Except Exc α} (h : isRec r = false) : r ≠ .error .recursion := by
  intro hr; rw [hr] at h; cases h

theorem flatK_init (cfg : Cfg) (s : Sd) : FlatK cfg s init := by
  intro e pr hpr
  rw [path_oob init e s (by simp [init])] at hpr; cases hpr

/-- the hypotheses are satisfiable: a raw event from the empty state meets its guard … -/
example : Guarded cfg0 10 [ev .L .file "i1" (some "/a")] init :=
  ⟨⟨flatK_init cfg0 .L, by decide +kernel⟩, ne_rec_of (by decide +kernel), trivial⟩

/-- … and so do hooked assignments, `mark_changed` and `clear` after it -/
example : Guarded cfg0 10 [.setSide 0 .L (.oid (some "x".toList)), .mark 0 .L, .clear 0 .L]
    (run cfg0 10 [ev .L .file "i1" (some "/a")] init) := by
  refine ⟨trivial, ne_rec_of (by decide +kernel), trivial, ne_rec_of (by decide +kernel), trivial,
    ne_rec_of (by decide +kernel), trivial⟩

end CS.State
