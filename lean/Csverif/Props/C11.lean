import Csverif.Proofs.StateItem
/-
C11 — sync-state index integrity (cloudsync/sync/state.py, `SyncState`'s index machinery).

`IndexInv st` is the strongest invariant found to be TRUE of the code (first by fuzzing the real `SyncState` with an
executable version of each candidate clause, then proved here over the model `Csverif/Model/State.lean`):

  * every id slot of a side names an existing entry that carries that id on that side; `None` is never an id key
  * every `(path, id)` slot of a side names an entry that carries that path and that id on that side and that owns the
    id slot; path keys are truthy strings; no bucket is empty
  * every entry — live or not — that carries an id on a side is found under that id (hence at most one entry carries
    an id per side), and, when it also carries a truthy path, under its `(path, id)`
  * the pending set contains every entry that has a change flag on a side that has a (truthy) id

Clauses of the natural statement that are FALSE of the code (each kept below as a comment with a kernel-checked
counterexample that the harness replays on the real `SyncState`):

  * "an entry that carries a path on a side carries an id on it"      — `cex_path_without_id`
  * "every entry of the pending set has a change flag with an id"      — `cex_pending_without_id`
  * the hook does not always terminate: `cex_kids_mutual_recursion` (two directory entries)

Repaired in the code (fix A = `forget_oid`, fix B = direct `_changed = 0` write) and now theorems instead of counterexamples:
`forget_total`, `forget_inv` (no KeyError, no empty bucket, the forgotten entry leaves the pending set),
`setattr_changed_total` (the `changed` rule no longer recurses), `fixed_*` (the old failing inputs, kernel-checked;
`fixed_reload_stale_slot` for the loader repair of commit eec8a73).

What is proved (no size or step bound; all quantifiers are over arbitrary states, entries, values and configurations):

  * `init_inv`                         the empty state satisfies `IndexInv`
  * `setattr_inv` (`sideSet_inv`)      every hooked attribute assignment `ent[side].<attr> = v` — path, oid, changed, exists,
                                       hash, sync_hash, sync_path, otype, size, mtime — preserves `IndexInv`, on a normal return and
                                       on every exception except fuel exhaustion (RecursionError), under `PathGuard`
                                       (a directory entry that is moved has no *directory* entries strictly beneath its old path;
                                       its non-directory kids are moved with it: `kidsLoop_tr`)
  * `setattr_oid_total`                `ent[side].oid = v` (including the recursive ousting of previous owners) needs at most
                                       two levels of recursion and raises nothing
  * `setattr_changed_total`            `ent[side].changed = v` needs one level and raises nothing (fix B)
  * `step_inv` / `run_inv`             the state-level operations — hooked assignments, `ignored`/`priority`/`punt`/`unignore`,
                                       `mark_changed`, `SideState.clear`, `update_entry` (guard `KidsLeaves`), raw events `update`
                                       for both id styles (guard `FlatK` and "no merge-copy", `mergeCopies = false`), `split`
                                       (no guard), `__setitem__` (guard `LeafAt`: the receiving side is not a directory with a path) —
                                       preserve `IndexInv` under `OpGuard`, hence every guarded sequence does (induction)
  * `forget_total` / `forget_inv`      `forget_oid` raises nothing; afterwards every clause of `IndexInv` holds with the forgotten entry
                                       side exempt from "found under its id / (path, id)" (it keeps its `oid`/`path` fields by design),
                                       that entry has no slot left on the side and is not pending

NOT proved (model + differential tie only; stated here so that nothing is claimed silently):
  * preservation by the merge-copy branch of `update` (state.py:1155-1157; it calls `__setitem__`, which is proved on its own, but
    the guard of the following path assignment is not carried across it) and by `__setitem__` onto a directory side that has a path
  * moves of a directory that has directory entries beneath it (beyond `PathGuard`); termination of `_update_kids`
  * uniqueness of dictionary keys (the clauses are stated through first-match lookups `AL.get` / `St.slot`)
  * the loader (`reload`): modelled and compared, no preservation theorem (after commit eec8a73 no counterexample is known either)
-/
namespace CS.State

/-- the index invariant at operation boundaries -/
abbrev IndexInv := Inv

theorem init_inv : IndexInv init := by
  refine ⟨⟨?_, ?_, ?_, ?_, ?_, ?_, ?_⟩, ?_⟩
  · intro s k i h; cases s <;> simp [init, St.oids, St.ix] at h
  · intro s; cases s <;> rfl
  · intro s k i h; cases s <;> simp [init, St.oids, St.ix] at h
  · intro s p b h; cases s <;> simp [init, St.paths, St.ix] at h
  · intro s p k i h; cases s <;> simp [init, St.slot, St.paths, St.ix] at h
  · intro i s _ ho; exact absurd (oid_oob init i s (by simp [init])) ho
  · intro i s _ ho; exact absurd (oid_oob init i s (by simp [init])) ho
  · intro i ⟨s, h1, _⟩
    rw [changed_oob init i s (by simp [init])] at h1; cases h1

/-- hooked attribute assignment: `IndexInv` is preserved on every outcome except fuel exhaustion -/
theorem setattr_inv (cfg : Cfg) (fuel : Nat) (e : Nat) (s : Sd) (fv : FV) (st : St) (hi : IndexInv st)
    (hlt : e < st.ents.length) (hg : PathGuard cfg st e s fv)
    (hrec : (sideSet cfg fuel e s fv st).1 ≠ .error .recursion) : IndexInv (sideSet cfg fuel e s fv st).2 := by
  have := sideSet_inv cfg fuel e s fv st hi hlt hg st rfl
  cases hr : (sideSet cfg fuel e s fv st).1 with
  | ok a => exact (this.1 a hr).1
  | error x => exact (this.2 x hr (fun hx => hrec (hx ▸ hr))).1

/-- `ent[side].oid = v` with two levels of fuel: total, raises nothing, keeps the invariant -/
theorem setattr_oid_total (cfg : Cfg) (n : Nat) (e : Nat) (s : Sd) (v : Oid) (st : St) (hi : IndexInv st)
    (hlt : e < st.ents.length) :
    (sideSet cfg (n + 2) e s (.oid v) st).1 = .ok () ∧ IndexInv (sideSet cfg (n + 2) e s (.oid v) st).2 := by
  have := sideSet_oid_spec (oustOk_sideSet_succ cfg n) cfg hi.1 hi.2 e s v hlt
  rcases this with ⟨hf, _⟩ | ⟨hok, h1, h2, _⟩
  · exact hf.elim
  · exact ⟨hok, h1, h2⟩

/-- `ent[side].changed = v` with one level of fuel: total (fix B removed the mutual recursion of the two sides) -/
theorem setattr_changed_total (cfg : Cfg) (n : Nat) (e : Nat) (s : Sd) (v : Chg) (st : St) :
    (sideSet cfg (n + 1) e s (.changed v) st).1 = .ok () := chg_total cfg n e s v st

/-! ### state-level operations -/

/-- outcome of a triple as a statement about `(m st).2` -/
theorem Tr.run_inv {α} {P : St → Prop} {m : M α} {Q : α → St → Prop} {I : St → Prop} (h : Tr P m Q I) (hQ : ∀ a st, Q a st → I st)
    (st : St) (hp : P st) (hrec : (m st).1 ≠ .error .recursion) : I (m st).2 := by
  have := h st hp
  cases hr : (m st).1 with
  | ok a => exact hQ a _ (this.1 a hr)
  | error x => exact this.2 x hr (fun hx => hrec (hx ▸ hr))

/-- the guard under which an operation is covered by `step_inv`:
    a hooked path assignment must satisfy `PathGuard`; the operations that are not yet covered are excluded -/
def OpGuard (cfg : Cfg) (st : St) : Op → Prop
  | .setSide e s fv => PathGuard cfg st e s fv
  | .updateEntry e s _ => KidsLeaves cfg st s e
  | .update s _ a prior => FlatK cfg s st ∧ mergeCopies st s a prior = false
  | .split _ => True
  | .setItem d sd _ _ => LeafAt st d sd
  | .tick _ | .setIgnored _ _ | .setPriority _ _ | .punt _ | .unignore _ _ | .commit | .clear _ _ | .mark _ _ => True
  | _ => False

/-- every covered operation preserves `IndexInv`, on a normal return and on every exception except fuel exhaustion -/
theorem step_inv (cfg : Cfg) (fuel : Nat) (op : Op) (st : St) (hi : IndexInv st) (hg : OpGuard cfg st op)
    (hrec : (step cfg fuel op st).1 ≠ .error .recursion) : IndexInv (step cfg fuel op st).2 := by
  have key : Tr (fun st' => st' = st) (step cfg fuel op) (fun _ st' => Inv st') Inv := by
    unfold step
    apply Tr.getSt_bind; intro st0
    dsimp only
    apply Tr.with_pre (φ := st0 = st) (fun st' ⟨h0, h1⟩ => h0.symm.trans h1)
    rintro rfl
    apply Tr.ite
    · intro _
      exact Tr.bind (R := fun _ _ => False) (Tr.throw (fun _ st' ⟨_, h⟩ => by rw [h]; exact hi)) (fun _ => Tr.false_pre (fun _ h => h))
    · intro hb
      have hrefs : ∀ i ∈ op.refs, i < st0.ents.length := by
        intro i hi'
        have : ¬ (i ≥ st0.ents.length) := fun hge => hb (List.any_eq_true.2 ⟨i, hi', by simpa using hge⟩)
        omega
      have hIL : ∀ st', (st' = st0 ∧ st' = st0) → InvL st0.ents.length st' :=
        fun st' ⟨h, _⟩ => by rw [h]; exact ⟨hi, rfl⟩
      cases op with
      | tick ms => exact Tr.modify (fun st' h => ((hIL st' h).plain (plainRel_now ..)).1)
      | commit => exact Tr.modify (fun st' h => ((hIL st' h).plain (plainRel_dirty ..)).1)
      | setSide e s fv =>
        have he : e < st0.ents.length := hrefs e (by simp [Op.refs])
        exact (sideSet_inv cfg fuel e s fv st0 hi he hg).conseq (fun _ h => h.1) (fun _ _ h => h.1) (fun _ h => h.1)
      | setIgnored e v => exact Tr.modify (fun st' h => (ignoredState_inv st' e v _ (hIL st' h)).1)
      | setPriority e v =>
        have he : e < st0.ents.length := hrefs e (by simp [Op.refs])
        exact (setPriority_tr cfg fuel noX e v st0).conseq (fun st' ⟨h, _⟩ => ⟨h, h ▸ hi.1, h ▸ hi.2, h ▸ he⟩)
          (fun _ _ h => ⟨h.2.1, h.2.2⟩) (fun _ h => h.elim)
      | punt e =>
        have he : e < st0.ents.length := hrefs e (by simp [Op.refs])
        exact (setPriority_tr cfg fuel noX e _ st0).conseq (fun st' ⟨h, _⟩ => ⟨h, h ▸ hi.1, h ▸ hi.2, h ▸ he⟩)
          (fun _ _ h => ⟨h.2.1, h.2.2⟩) (fun _ h => h.elim)
      | unignore e r =>
        refine Tr.bind (R := fun _ st' => InvL st0.ents.length st') ?_ (fun _ => ?_)
        · exact Tr.assert (fun st' h _ => (hIL st' h).1) (fun st' h _ => hIL st' h)
        · exact Tr.modify (fun st' h => (ignoredState_inv st' e .none _ h).1)
      | clear e s =>
        have he : e < st0.ents.length := hrefs e (by simp [Op.refs])
        exact (clearSide_tr cfg fuel e s _ he).conseq hIL (fun _ _ h => h.1) (fun _ h => h)
      | mark e s =>
        have he : e < st0.ents.length := hrefs e (by simp [Op.refs])
        exact (markChanged_tr cfg fuel s e _ he).conseq hIL (fun _ _ h => h.1) (fun _ h => h)
      | update s ot a prior =>
        exact (update_tr cfg fuel s ot a prior st0.ents.length).pre (fun st' h => by rw [h.1]; exact ⟨⟨⟨hi, rfl⟩, hg.1⟩, hg.2⟩)
      | updateEntry e s a =>
        have he : e < st0.ents.length := hrefs e (by simp [Op.refs])
        exact (updateEntry_tr cfg fuel e s a st0.ents.length he).pre (fun st' h => by rw [h.1]; exact ⟨⟨hi, rfl⟩, hg⟩)
      | split e =>
        have he : e < st0.ents.length := hrefs e (by simp [Op.refs])
        refine Tr.bind (R := fun _ st' => InvL (st0.ents.length + 1) st') ((split_tr cfg fuel e st0.ents.length he).pre hIL)
          (fun _ => Tr.pure (fun _ h => h.1))
      | setItem d sd sr ss =>
        have hd : d < st0.ents.length := hrefs d (by simp [Op.refs])
        have hs : sr < st0.ents.length := hrefs sr (by simp [Op.refs])
        exact (setItem_tr cfg fuel d sd sr ss st0.ents.length hd hs).conseq (fun st' h => ⟨hIL st' h, by rw [h.1]; exact hg⟩)
          (fun _ _ h => h.1) (fun _ h => h)
      | forget _ _ => exact hg.elim
      | reload => exact hg.elim
  exact key.run_inv (fun _ _ h => h) st rfl hrec

/-- sequences: if every operation meets its guard in the state it is applied to and none runs out of fuel,
    `IndexInv` holds after every prefix -/
def Guarded (cfg : Cfg) (fuel : Nat) : List Op → St → Prop
  | [], _ => True
  | op :: ops, st => OpGuard cfg st op ∧ (step cfg fuel op st).1 ≠ .error .recursion ∧ Guarded cfg fuel ops (step cfg fuel op st).2

theorem run_inv (cfg : Cfg) (fuel : Nat) : ∀ (ops : List Op) (st : St), IndexInv st → Guarded cfg fuel ops st →
    IndexInv (run cfg fuel ops st)
  | [], _, hi, _ => hi
  | op :: ops, st, hi, ⟨hg, hrec, hrest⟩ => run_inv cfg fuel ops _ (step_inv cfg fuel op st hi hg hrec) hrest

theorem run_inv_init (cfg : Cfg) (fuel : Nat) (ops : List Op) (h : Guarded cfg fuel ops init) : IndexInv (run cfg fuel ops init) :=
  run_inv cfg fuel ops init init_inv h

/-! ### `forget_oid` (fix A) -/

theorem forgetOid_eq (s : Sd) (k : Oid) (st : St) :
    forgetOid s k st =
      match AL.get (st.oids s) k with
      | none => (.ok (), st)
      | some e => (.ok (), ((st.setOids s (AL.erase (st.oids s) k)).popPathSlot s (st.side e s).path k).csDiscard e) := by
  simp only [forgetOid, M.bind_apply, getSt_apply]
  cases AL.get (st.oids s) k <;> rfl

/-- `forget_oid` raises nothing -/
theorem forget_total (s : Sd) (k : Oid) (st : St) : (forgetOid s k st).1 = .ok () := by
  rw [forgetOid_eq]; cases AL.get (st.oids s) k <;> rfl

theorem popPathSlot_absent (st : St) (s : Sd) (p : Option Path.Str) (k : Oid) (h : AL.get (st.paths s) p = none) :
    st.popPathSlot s p k = st := by
  unfold St.popPathSlot; rw [h]

/-- after `forget_oid(side, k)` of entry `e`: the index clauses hold with `(e, side)` exempt (the entry keeps its `oid`/`path`
    fields), no slot of that side points to `e`, `e` is not pending, every other entry is pending when it must be -/
theorem forget_inv (s : Sd) (k : Oid) (st : St) (hi : IndexInv st) :
    match AL.get (st.oids s) k with
    | none => (forgetOid s k st).2 = st
    | some e => Idx (noX.add e s) (forgetOid s k st).2 ∧ Clean (forgetOid s k st).2 e s ∧ e ∉ (forgetOid s k st).2.cs ∧
        ∀ i, i ≠ e → PendE i (forgetOid s k st).2 := by
  rw [forgetOid_eq]
  cases hk : AL.get (st.oids s) k with
  | none => rfl
  | some e =>
    simp only
    obtain ⟨hI1, hC⟩ := hi.1.unindex hk
    -- the state is `unindex` followed by the pending-set discard
    have hst : (st.setOids s (AL.erase (st.oids s) k)).popPathSlot s (st.side e s).path k = unindex st s k e := by
      unfold unindex
      by_cases ht : truthyS (st.side e s).path = true
      · simp [ht]
      · simp only [ht, Bool.false_eq_true, if_false]
        apply popPathSlot_absent
        simp only [paths_setOids]
        cases hb : AL.get (st.paths s) (st.side e s).path with
        | none => rfl
        | some b => exact absurd (hi.1.pathKey s _ b hb).1 ht
    rw [hst]
    refine ⟨hI1.congr (by simp) (by simp) (by simp) (by simp), ?_, by simp, ?_⟩
    · exact ⟨fun k' => by simpa using hC.1 k', fun p k' => by simpa using hC.2 p k'⟩
    · intro i hie ⟨s', h1, h2⟩
      simp only [side_csDiscard, side_unindex] at h1 h2
      simp only [mem_csDiscard, cs_unindex]
      exact ⟨hie, hi.2 i ⟨s', h1, h2⟩⟩

/-! ### kernel-checked counterexamples (each is replayed on the real `SyncState` by harness/c11_state.py) -/

def cfg0 : Cfg := mkCfg false false true true 0 0
def ev (s : Sd) (ot : OType) (oid : String) (path : Option String) : Op :=
  .update s ot { oid := some oid.toList, path := path.map String.toList } none

/-- the first exception raised by a sequence -/
def outcome (cfg : Cfg) (fuel : Nat) : List Op → St → Option Exc
  | [], _ => none
  | op :: rest, st => match step cfg fuel op st with
    | (.ok _, st') => outcome cfg fuel rest st'
    | (.error x, _) => some x

/-- natural clause, FALSE: an entry side that carries a path carries an id.
    `update(LOCAL, FILE, "i1", path="/a")` then `ent[LOCAL].oid = None` -/
def PathImpliesOid (st : St) : Prop := ∀ i s, truthyS (st.side i s).path = true → (st.side i s).oid ≠ none
def ops_path_without_id : List Op := [ev .L .file "i1" (some "/a"), .setSide 0 .L (.oid none)]
theorem cex_path_without_id : ¬ PathImpliesOid (run cfg0 10 ops_path_without_id init) :=
  fun h => h 0 .L (by decide +kernel) (by decide +kernel)

/-- natural clause, FALSE: every entry of the pending set has a change flag on a side that has an id.
    `update(LOCAL, FILE, "i1", path="/a")`, `ent[REMOTE].changed = 5`, `ent[LOCAL].oid = None`: the entry stays pending although
    neither flagged side has an id (`_change_oid` only un-pends when the other side is not flagged) -/
def PendingSound (st : St) : Prop :=
  ∀ i, i ∈ st.cs → ∃ s, (st.side i s).changed.truthy = true ∧ truthyS (st.side i s).oid = true
def ops_pending_without_id : List Op := [ev .L .file "i1" (some "/a"), .setSide 0 .R (.changed (.num 5)), .setSide 0 .L (.oid none)]
theorem cex_pending_without_id : ¬ PendingSound (run cfg0 10 ops_pending_without_id init) := by
  intro h
  obtain ⟨s, _, h2⟩ := h 0 (by decide +kernel)
  cases s
  · exact absurd h2 (by decide +kernel)
  · exact absurd h2 (by decide +kernel)

/-- repaired (fix B): the old failing input of `pending-without-flag` no longer leaves the entry pending -/
def ops_pending_without_flag : List Op := [ev .L .file "i1" (some "/a"), .mark 0 .R, .setSide 0 .L (.changed .none)]
theorem fixed_pending_without_flag : (run cfg0 10 ops_pending_without_flag init).cs = [] := by decide +kernel

/-- repaired (fix A): `forget_oid` un-pends the entry, drops the emptied bucket, tolerates a pathless entry -/
def ops_forget : List Op := [ev .L .file "i1" (some "/a"), .forget .L (some "i1".toList)]
theorem fixed_forget :
    (run cfg0 10 ops_forget init).cs = [] ∧ (run cfg0 10 ops_forget init).paths .L = [] ∧ (run cfg0 10 ops_forget init).oids .L = [] := by
  decide +kernel
def ops_forget_pathless : List Op := [ev .L .file "i1" none, .forget .L (some "i1".toList)]
theorem fixed_forget_pathless : outcome cfg0 10 ops_forget_pathless init = none := by decide +kernel

/-- repaired (commit eec8a73): the loader no longer indexes absent sides under `None`, so giving the side an id later leaves
    no stale `(None, None)` slot.  `update(LOCAL, FILE, "i1", path="/a")`, reload, `ent[REMOTE].oid = "r1"` -/
def ops_reload : List Op := [ev .L .file "i1" (some "/a"), .reload, .setSide 0 .R (.oid (some "r1".toList))]
theorem fixed_reload_stale_slot :
    (run cfg0 10 ops_reload init).slot .R none none = none ∧ (run cfg0 10 ops_reload init).paths .R = [] ∧
    (run cfg0 10 ops_reload init).oids .R = [(some "r1".toList, 0)] ∧
    (run cfg0 10 [ev .L .file "i1" (some "/a"), .reload] init).oids .R = [] := by
  decide +kernel

/-- two directory entries: `e` at `/a`, `f` at `/a/b`, then `e` moves to `/a/b/c` — `_update_kids` recurses for ever
    (RecursionError on the real code); the model is still recursing after 40 levels -/
def ops_kids_mutual : List Op := [ev .L .dir "e" (some "/a"), ev .L .dir "f" (some "/a/b"), ev .L .dir "e" (some "/a/b/c")]
set_option maxRecDepth 100000 in
theorem cex_kids_mutual_recursion : outcome cfg0 40 ops_kids_mutual init = some .recursion := by decide +kernel

/-- the repaired self-recursion (commit f72ed8c): a folder moved beneath its own previous path ends at the new path -/
def ops_self_nest : List Op := [ev .L .dir "o" (some "/a"), ev .L .dir "o" (some "/a/b")]
theorem fixed_self_recursion_terminates :
    outcome cfg0 10 ops_self_nest init = none ∧ ((run cfg0 10 ops_self_nest init).side 0 .L).path = some "/a/b".toList ∧
    (run cfg0 10 ops_self_nest init).slot .L (some "/a/b".toList) (some "o".toList) = some 0 := by decide +kernel

/-- repaired (fix B): both sides flagged and id-less no longer recurses -/
def ops_changed_rec : List Op :=
  [ev .L .file "i1" (some "/a"), .setSide 0 .R (.changed (.num 1)), .setSide 0 .L (.oid none), .setSide 0 .L (.changed .none)]
theorem fixed_changed_recursion : outcome cfg0 10 ops_changed_rec init = none := by decide +kernel

def isRec {α} : Except Exc α → Bool
  | .error .recursion => true
  | _ => false
theorem ne_rec_of {α} {r : Except Exc α} (h : isRec r = false) : r ≠ .error .recursion := by
  intro hr; rw [hr] at h; cases h

theorem flatK_init (cfg : Cfg) (s : Sd) : FlatK cfg s init := by
  intro e pr hpr
  rw [path_oob init e s (by simp [init])] at hpr; cases hpr

/-- the hypotheses are satisfiable: a raw event from the empty state meets its guard … -/
example : Guarded cfg0 10 [ev .L .file "i1" (some "/a")] init :=
  ⟨⟨flatK_init cfg0 .L, by decide +kernel⟩, ne_rec_of (by decide +kernel), trivial⟩

/-- … `split` after it … -/
example : Guarded cfg0 10 [.split 0, .setItem 0 .L 1 .L] (run cfg0 10 [ev .L .file "i1" (some "/a")] init) :=
  ⟨trivial, ne_rec_of (by decide +kernel), Or.inr (by decide +kernel), ne_rec_of (by decide +kernel), trivial⟩

/-- … and so do hooked assignments, `mark_changed` and `clear` after it -/
example : Guarded cfg0 10 [.setSide 0 .L (.oid (some "x".toList)), .mark 0 .L, .clear 0 .L]
    (run cfg0 10 [ev .L .file "i1" (some "/a")] init) := by
  refine ⟨trivial, ne_rec_of (by decide +kernel), trivial, ne_rec_of (by decide +kernel), trivial,
    ne_rec_of (by decide +kernel), trivial⟩

end CS.State
