import Csverif.Proofs.StateMovOps
import Csverif.Proofs.StateTotal
import Csverif.Proofs.StateLoad
import Csverif.Proofs.StateKeys
/-
C11 — sync-state index integrity (cloudsync/sync/state.py, `SyncState`'s index machinery).

`IndexInv st` is the strongest invariant found to be TRUE of the code (first by fuzzing the real `SyncState` with an
executable version of each candidate clause, then proved here over the model `Csverif/Model/State.lean`):

  * every id slot of a side names an existing entry that carries that id on that side; `None` is never an id key
  * every `(path, id)` slot of a side names an entry that carries that path and that id on that side and that owns the
    id slot; path keys are truthy strings; no bucket is empty
  * every entry — live or not — that carries an id on a side is found under that id (hence at most one entry carries
    an id per side), and, when it also carries a truthy path, under its `(path, id)`
  * the pending set contains every entry that has a change flag on a side that has a (truthy) id

Clauses of the natural statement that are FALSE of the code (each kept below as a comment with a kernel-checked
counterexample that the harness replays on the real `SyncState`):

  * "an entry that carries a path on a side carries an id on it"      — `cex_path_without_id`
  * "every entry of the pending set has a change flag with an id"      — `cex_pending_without_id`
  * "`__setitem__` keeps the invariant whatever the receiving side is" — `cex_setitem_folder_kid_takes_id`

Repaired in the code and now theorems instead of counterexamples:
  fix A (`forget_oid`): `forget_total`, `forget_inv` (no KeyError, no empty bucket, the forgotten entry leaves the pending set);
  fix B (direct `_changed = 0` write): `setattr_changed_total` (the `changed` rule no longer recurses);
  fix C (`_kids_moving` stack in `_update_kids`: a folder whose kids are being moved is not moved again by a nested
  `_update_kids`): the hook terminates (`setattr_total`) and folder moves need no guard (`setattr_inv`);
  commit eec8a73 (loader): `reload_index_inv`;
  `fixed_*`: the old failing inputs, kernel-checked.

What is proved (no size or step bound; all quantifiers are over arbitrary states, entries, values and configurations):

  * `init_inv`                         the empty state satisfies `IndexInv` (= the clauses above ∧ `_kids_moving` is empty)
  * `setattr_inv` (`sideSet_inv`,      every hooked attribute assignment `ent[side].<attr> = v` — path, oid, changed, exists, hash,
     `good_all`)                       sync_hash, sync_path, otype, size, mtime — on any entry, folders with any subtree included,
                                       preserves `IndexInv`, on a normal return and on every exception except fuel exhaustion: NO guard
  * `setattr_total` (`sideSet_total`)  … and with `#entries + 3` levels of fuel the outcome is never fuel exhaustion (termination of
                                       `_update_kids`: it nests at most once per entry)
  * `setattr_oid_total`                `ent[side].oid = v` (including the recursive ousting of previous owners) needs at most
                                       two levels of recursion and raises nothing
  * `setattr_changed_total`            `ent[side].changed = v` needs one level and raises nothing (fix B)
  * `step_inv` / `run_inv`             the state-level operations — hooked assignments, `ignored`/`priority`/`punt`/`unignore`,
                                       `mark_changed`, `SideState.clear`, `update_entry`, raw events `update` for both id styles with
                                       every branch (the merge-copy branch `ent[side] = prior_ent[side]` included), `split`, `reload`
                                       (no guard), `__setitem__` (guard `SetOk`: the receiving side is not a folder with a path, or its
                                       ids are not paths; the same guard, `UpdGuard`, for the side that the merge-copy branch of
                                       `update` overwrites; without the guard: `cex_setitem_folder_kid_takes_id`) —
                                       preserve `IndexInv` under `OpGuard`, hence every guarded sequence does (induction)
  * `reload_index_inv` (`load_inv`)    the loader establishes `IndexInv` from what `storage_commit` of an `IndexInv` state writes, and
                                       the rebuilt pending set is EXACTLY the set of entries with a change flag on a side with an id
  * `live_index_ok`                    `IndexInv` in the words of the C08 layer's hypothesis `LiveIndexOK` (all of it except the
                                       "only flagged entries are pending" half of its `pending` clause, which is false of live states)
  * `keys_unique` / `step_keys`        the keys of all dictionaries (id index, path index, buckets) are pairwise different in every
                                       reachable state — every operation, every outcome, no guard — so the first-match lookups used
                                       in the clauses are dictionary lookups (`lookup_is_membership`, `slot_is_membership`)
  * `forget_total` / `forget_inv`      `forget_oid` raises nothing; afterwards every clause of `IndexInv` holds with the forgotten entry
                                       side exempt from "found under its id / (path, id)" (it keeps its `oid`/`path` fields by design),
                                       that entry has no slot left on the side and is not pending

NOT proved (stated here so that nothing is claimed silently):
  * termination of whole operations (`update`, `split`, …) — only of the hook (`setattr_total`); `step_inv` excludes fuel
    exhaustion by hypothesis
  * `__setitem__` onto a folder side with a path on a path-id side is outside `SetOk` because the statement is false there for an
    arbitrary `info_path` oracle (`cex_setitem_folder_kid_takes_id`, replayed on the real code); no hypothesis on the oracle under
    which it would hold has been formulated (for a consistent provider, id = path, the clash cannot arise)
-/
namespace CS.State

/-- the index invariant at operation boundaries: the index clauses, and no folder move in progress (`_kids_moving` empty) -/
def IndexInv (st : St) : Prop := Inv st ∧ st.moving = []

theorem init_inv : IndexInv init := by
  refine ⟨⟨⟨?_, ?_, ?_, ?_, ?_, ?_, ?_⟩, ?_⟩, rfl⟩
  · intro s k i h; cases s <;> simp [init, St.oids, St.ix] at h
  · intro s; cases s <;> rfl
  · intro s k i h; cases s <;> simp [init, St.oids, St.ix] at h
  · intro s p b h; cases s <;> simp [init, St.paths, St.ix] at h
  · intro s p k i h; cases s <;> simp [init, St.slot, St.paths, St.ix] at h
  · intro i s _ ho; exact absurd (oid_oob init i s (by simp [init])) ho
  · intro i s _ ho; exact absurd (oid_oob init i s (by simp [init])) ho
  · intro i ⟨s, h1, _⟩
    rw [changed_oob init i s (by simp [init])] at h1; cases h1

/-- hooked attribute assignment (any attribute, any entry, directories with any subtree): `IndexInv` is preserved on every
    outcome except fuel exhaustion — no guard -/
theorem setattr_inv (cfg : Cfg) (fuel : Nat) (e : Nat) (s : Sd) (fv : FV) (st : St) (hi : IndexInv st)
    (hlt : e < st.ents.length)
    (hrec : (sideSet cfg fuel e s fv st).1 ≠ .error .recursion) : IndexInv (sideSet cfg fuel e s fv st).2 := by
  have := sideSet_inv cfg fuel e s fv st hi.1 hlt (by rw [hi.2]; simp) st rfl
  refine ⟨?_, (sideSet_moving cfg fuel e s fv st).trans hi.2⟩
  cases hr : (sideSet cfg fuel e s fv st).1 with
  | ok a => exact (this.1 a hr).1
  | error x => exact (this.2 x hr (fun hx => hrec (hx ▸ hr))).1

/-- `ent[side].oid = v` with two levels of fuel: total, raises nothing, keeps the invariant -/
theorem setattr_oid_total (cfg : Cfg) (n : Nat) (e : Nat) (s : Sd) (v : Oid) (st : St) (hi : IndexInv st)
    (hlt : e < st.ents.length) :
    (sideSet cfg (n + 2) e s (.oid v) st).1 = .ok () ∧ IndexInv (sideSet cfg (n + 2) e s (.oid v) st).2 := by
  have := sideSet_oid_spec (oustOk_sideSet_succ cfg n) cfg hi.1.1 hi.1.2 e s v hlt
  rcases this with ⟨hf, _⟩ | ⟨hok, h1, h2, _⟩
  · exact hf.elim
  · exact ⟨hok, ⟨h1, h2⟩, (sideSet_moving cfg (n + 2) e s (.oid v) st).trans hi.2⟩

/-- **termination** (fix C): from an operation boundary, `#entries + 3` levels of the hook are enough for any assignment to any
    entry — `_update_kids` nests at most once per entry — so the outcome is never the model's RecursionError and `IndexInv` holds
    afterwards without any hypothesis about the outcome -/
theorem setattr_total (cfg : Cfg) (fuel : Nat) (e : Nat) (s : Sd) (fv : FV) (st : St) (hi : IndexInv st)
    (hlt : e < st.ents.length) (hf : st.ents.length + 3 ≤ fuel) :
    (sideSet cfg fuel e s fv st).1 ≠ .error .recursion ∧ IndexInv (sideSet cfg fuel e s fv st).2 :=
  have h := sideSet_total cfg fuel e s fv st hi.1 hlt hi.2 hf
  ⟨h, setattr_inv cfg fuel e s fv st hi hlt h⟩

/-- `ent[side].changed = v` with one level of fuel: total (fix B removed the mutual recursion of the two sides) -/
theorem setattr_changed_total (cfg : Cfg) (n : Nat) (e : Nat) (s : Sd) (v : Chg) (st : St) :
    (sideSet cfg (n + 1) e s (.changed v) st).1 = .ok () := chg_total cfg n e s v st

/-! ### state-level operations -/

/-- outcome of a triple as a statement about `(m st).2` -/
theorem Tr.run_inv {α} {P : St → Prop} {m : M α} {Q : α → St → Prop} {I : St → Prop} (h : Tr P m Q I) (hQ : ∀ a st, Q a st → I st)
    (st : St) (hp : P st) (hrec : (m st).1 ≠ .error .recursion) : I (m st).2 := by
  have := h st hp
  cases hr : (m st).1 with
  | ok a => exact hQ a _ (this.1 a hr)
  | error x => exact this.2 x hr (fun hx => hrec (hx ▸ hr))

/-- the guard under which an operation is covered by `step_inv`.  After fix C the only guards left are about `__setitem__`
    (`SetOk`): the entry side it replaces must be a leaf (`LeafAt`: not a directory, or without a path) or lie on a side whose
    ids are not paths (`oid_is_path = False`) — directly, or for the prior entry's other side in the merge-copy branch of `update`
    (`UpdGuard`).  Without it the statement is false: `cex_setitem_folder_kid_takes_id`.  `forget_oid` has its own theorem (`forget_inv`: the
    forgotten side is exempt afterwards). -/
def OpGuard (cfg : Cfg) (st : St) : Op → Prop
  | .update s _ _ prior => UpdGuard cfg st s prior
  | .setItem d sd _ _ => SetOk cfg st d sd
  | .forget _ _ => False
  | _ => True

/-- every covered operation preserves `IndexInv`, on a normal return and on every exception except fuel exhaustion -/
theorem step_inv (cfg : Cfg) (fuel : Nat) (op : Op) (st : St) (hi : IndexInv st) (hg : OpGuard cfg st op)
    (hrec : (step cfg fuel op st).1 ≠ .error .recursion) : IndexInv (step cfg fuel op st).2 := by
  by_cases hne : op = .reload
  · subst hne
    have hst : step cfg fuel .reload st = (.ok (), reload st) := rfl
    rw [hst]
    exact ⟨(reload_inv st hi.1).1, (reload_inv st hi.1).2.1⟩
  have key : Tr (fun st' => st' = st) (step cfg fuel op) (fun _ st' => Inv st') Inv := by
    unfold step
    apply Tr.getSt_bind; intro st0
    dsimp only
    apply Tr.with_pre (φ := st0 = st) (fun st' ⟨h0, h1⟩ => h0.symm.trans h1)
    rintro rfl
    apply Tr.ite
    · intro _
      exact Tr.bind (R := fun _ _ => False) (Tr.throw (fun _ st' ⟨_, h⟩ => by rw [h]; exact hi.1)) (fun _ => Tr.false_pre (fun _ h => h))
    · intro hb
      have hrefs : ∀ i ∈ op.refs, i < st0.ents.length := by
        intro i hi'
        have : ¬ (i ≥ st0.ents.length) := fun hge => hb (List.any_eq_true.2 ⟨i, hi', by simpa using hge⟩)
        omega
      have hIL : ∀ st', (st' = st0 ∧ st' = st0) → InvL st0.ents.length st' :=
        fun st' ⟨h, _⟩ => by rw [h]; exact ⟨hi.1, rfl, hi.2⟩
      cases op with
      | tick ms => exact Tr.modify (fun st' h => ((hIL st' h).plain (plainRel_now ..)).1)
      | commit => exact Tr.modify (fun st' h => ((hIL st' h).plain (plainRel_dirty ..)).1)
      | setSide e s fv =>
        have he : e < st0.ents.length := hrefs e (by simp [Op.refs])
        exact (sideSet_inv cfg fuel e s fv st0 hi.1 he (by rw [hi.2]; simp)).conseq (fun _ h => h.1) (fun _ _ h => h.1) (fun _ h => h.1)
      | setIgnored e v => exact Tr.modify (fun st' h => (ignoredState_inv st' e v _ (hIL st' h)).1)
      | setPriority e v =>
        have he : e < st0.ents.length := hrefs e (by simp [Op.refs])
        exact (setPriority_tr cfg fuel noX e v st0).conseq (fun st' ⟨h, _⟩ => ⟨h, h ▸ hi.1.1, h ▸ hi.1.2, h ▸ he⟩)
          (fun _ _ h => ⟨h.2.1, h.2.2⟩) (fun _ h => h.elim)
      | punt e =>
        have he : e < st0.ents.length := hrefs e (by simp [Op.refs])
        exact (setPriority_tr cfg fuel noX e _ st0).conseq (fun st' ⟨h, _⟩ => ⟨h, h ▸ hi.1.1, h ▸ hi.1.2, h ▸ he⟩)
          (fun _ _ h => ⟨h.2.1, h.2.2⟩) (fun _ h => h.elim)
      | unignore e r =>
        refine Tr.bind (R := fun _ st' => InvL st0.ents.length st') ?_ (fun _ => ?_)
        · exact Tr.assert (fun st' h _ => (hIL st' h).1) (fun st' h _ => hIL st' h)
        · exact Tr.modify (fun st' h => (ignoredState_inv st' e .none _ h).1)
      | clear e s =>
        have he : e < st0.ents.length := hrefs e (by simp [Op.refs])
        exact (clearSide_tr cfg fuel e s _ he).conseq hIL (fun _ _ h => h.1) (fun _ h => h)
      | mark e s =>
        have he : e < st0.ents.length := hrefs e (by simp [Op.refs])
        exact (markChanged_tr cfg fuel s e _ he).conseq hIL (fun _ _ h => h.1) (fun _ h => h)
      | update s ot a prior =>
        exact (update_tr cfg fuel s ot a prior st0.ents.length).pre (fun st' h => by rw [h.1]; exact ⟨⟨hi.1, rfl, hi.2⟩, hg⟩)
      | updateEntry e s a =>
        have he : e < st0.ents.length := hrefs e (by simp [Op.refs])
        exact (updateEntry_tr cfg fuel e s a st0.ents.length he).pre (fun st' h => hIL st' ⟨h.1, h.1⟩)
      | split e =>
        have he : e < st0.ents.length := hrefs e (by simp [Op.refs])
        refine Tr.bind (R := fun _ st' => InvL (st0.ents.length + 1) st') ((split_tr cfg fuel e st0.ents.length he).pre hIL)
          (fun _ => Tr.pure (fun _ h => h.1))
      | setItem d sd sr ss =>
        have hd : d < st0.ents.length := hrefs d (by simp [Op.refs])
        have hs : sr < st0.ents.length := hrefs sr (by simp [Op.refs])
        exact (setItem_trG cfg fuel d sd sr ss st0.ents.length hd hs).conseq (fun st' h => ⟨hIL st' h, by rw [h.1]; exact hg⟩)
          (fun _ _ h => h.1) (fun _ h => h)
      | forget _ _ => exact hg.elim
      | reload => exact absurd rfl hne
  have key2 := key.with_mov (mov_step cfg fuel op hne) []
  exact key2.run_inv (fun _ _ h => h) st ⟨rfl, hi.2⟩ hrec

/-- sequences: if every operation meets its guard in the state it is applied to and none runs out of fuel,
    `IndexInv` holds after every prefix -/
def Guarded (cfg : Cfg) (fuel : Nat) : List Op → St → Prop
  | [], _ => True
  | op :: ops, st => OpGuard cfg st op ∧ (step cfg fuel op st).1 ≠ .error .recursion ∧ Guarded cfg fuel ops (step cfg fuel op st).2

theorem run_inv (cfg : Cfg) (fuel : Nat) : ∀ (ops : List Op) (st : St), IndexInv st → Guarded cfg fuel ops st →
    IndexInv (run cfg fuel ops st)
  | [], _, hi, _ => hi
  | op :: ops, st, hi, ⟨hg, hrec, hrest⟩ => run_inv cfg fuel ops _ (step_inv cfg fuel op st hi hg hrec) hrest

theorem run_inv_init (cfg : Cfg) (fuel : Nat) (ops : List Op) (h : Guarded cfg fuel ops init) : IndexInv (run cfg fuel ops init) :=
  run_inv cfg fuel ops init init_inv h

/-! ### the loader -/

/-- `storage_commit` + a new `SyncState` over the same storage (`reload`): the rebuilt state satisfies `IndexInv`, and its pending
    set is *exactly* the set of entries with a change flag on a side that has an id (in a live state only ⊇ holds:
    `cex_pending_without_id`) -/
theorem reload_index_inv (st : St) (hi : IndexInv st) :
    IndexInv (reload st) ∧
    ∀ i, i ∈ (reload st).cs ↔ ∃ s, ((reload st).side i s).oid ≠ none ∧ ((reload st).side i s).changed.truthy = true :=
  ⟨⟨(reload_inv st hi.1).1, (reload_inv st hi.1).2.1⟩, (reload_inv st hi.1).2.2⟩

/-- C11's invariant in the words of the C08 layer's hypothesis `LiveIndexOK` (lean/Csverif/Props/C08.lean): the id index
    returns exactly the entry that carries the id, nothing under `None`, and every entry with a change flag on a side that has a
    (truthy) id is pending.  The converse of the last clause — "every pending entry has such a flag" — is part of `LiveIndexOK`
    but FALSE of live states (`cex_pending_without_id`); it holds after a reload (`reload_index_inv`). -/
theorem live_index_ok (st : St) (hi : IndexInv st) :
    (∀ s k i, st.lookupOid s k = some i → i < st.ents.length ∧ (st.side i s).oid = k) ∧
    (∀ s i, (st.side i s).oid ≠ none → st.lookupOid s (st.side i s).oid = some i) ∧
    (∀ s, st.lookupOid s none = none) ∧
    (∀ i, (∃ s, (st.side i s).changed.truthy = true ∧ truthyS (st.side i s).oid = true) → i ∈ st.cs) :=
  ⟨fun s k i h => ⟨hi.1.1.bnd s k i h, hi.1.1.oidSlot s k i h⟩, fun s i ho => hi.1.1.byOid i s (fun h => h) ho,
   fun s => hi.1.1.oidKey s, hi.1.2⟩

/-! ### dictionary keys are unique -/

/-- the keys of the id indexes, of the path indexes and of every path bucket are pairwise different -/
abbrev KeysUnique := KeysOk

/-- every operation keeps the keys unique — on every outcome, fuel exhaustion included, no guard, `forget_oid` and `reload` included -/
theorem step_keys (cfg : Cfg) (fuel : Nat) (op : Op) (st : St) (h : KeysUnique st) : KeysUnique (step cfg fuel op st).2 :=
  (kp_step cfg fuel op).apply st h

/-- … hence they are unique in every state the model reaches from the empty state -/
theorem keys_unique (cfg : Cfg) (fuel : Nat) (ops : List Op) : KeysUnique (run cfg fuel ops init) :=
  run_keysOk cfg fuel ops init keysOk_init

/-- so the first-match lookups through which `IndexInv` is stated are dictionary lookups: `lookup_oid` … -/
theorem lookup_is_membership (st : St) (h : KeysUnique st) (s : Sd) (k : Oid) (i : Nat) :
    st.lookupOid s k = some i ↔ (k, i) ∈ st.oids s := AL.get_iff_mem (h s).1 k i

/-- … and the `(path, id)` slot -/
theorem slot_is_membership (st : St) (h : KeysUnique st) (s : Sd) (p : Option Path.Str) (k : Oid) (i : Nat) :
    st.slot s p k = some i ↔ ∃ b, (p, b) ∈ st.paths s ∧ (k, i) ∈ b := by
  unfold St.slot
  constructor
  · intro hs
    cases hg : AL.get (st.paths s) p with
    | none => rw [hg] at hs; cases hs
    | some b => rw [hg] at hs; exact ⟨b, AL.mem_of_get hg, AL.mem_of_get hs⟩
  · rintro ⟨b, hb, hi⟩
    rw [(AL.get_iff_mem (h s).2.1 p b).2 hb]
    exact (AL.get_iff_mem ((h s).2.2 _ hb) k i).2 hi

/-! ### `forget_oid` (fix A) -/

theorem forgetOid_eq (s : Sd) (k : Oid) (st : St) :
    forgetOid s k st =
      match AL.get (st.oids s) k with
      | none => (.ok (), st)
      | some e => (.ok (), ((st.setOids s (AL.erase (st.oids s) k)).popPathSlot s (st.side e s).path k).csDiscard e) := by
  simp only [forgetOid, M.bind_apply, getSt_apply]
  cases AL.get (st.oids s) k <;> rfl

/-- `forget_oid` raises nothing -/
theorem forget_total (s : Sd) (k : Oid) (st : St) : (forgetOid s k st).1 = .ok () := by
  rw [forgetOid_eq]; cases AL.get (st.oids s) k <;> rfl

theorem popPathSlot_absent (st : St) (s : Sd) (p : Option Path.Str) (k : Oid) (h : AL.get (st.paths s) p = none) :
    st.popPathSlot s p k = st := by
  unfold St.popPathSlot; rw [h]

/-- after `forget_oid(side, k)` of entry `e`: the index clauses hold with `(e, side)` exempt (the entry keeps its `oid`/`path`
    fields), no slot of that side points to `e`, `e` is not pending, every other entry is pending when it must be -/
theorem forget_inv (s : Sd) (k : Oid) (st : St) (hi : IndexInv st) :
    match AL.get (st.oids s) k with
    | none => (forgetOid s k st).2 = st
    | some e => Idx (noX.add e s) (forgetOid s k st).2 ∧ Clean (forgetOid s k st).2 e s ∧ e ∉ (forgetOid s k st).2.cs ∧
        ∀ i, i ≠ e → PendE i (forgetOid s k st).2 := by
  have hi := hi.1
  rw [forgetOid_eq]
  cases hk : AL.get (st.oids s) k with
  | none => rfl
  | some e =>
    simp only
    obtain ⟨hI1, hC⟩ := hi.1.unindex hk
    -- the state is `unindex` followed by the pending-set discard
    have hst : (st.setOids s (AL.erase (st.oids s) k)).popPathSlot s (st.side e s).path k = unindex st s k e := by
      unfold unindex
      by_cases ht : truthyS (st.side e s).path = true
      · simp [ht]
      · simp only [ht, Bool.false_eq_true, if_false]
        apply popPathSlot_absent
        simp only [paths_setOids]
        cases hb : AL.get (st.paths s) (st.side e s).path with
        | none => rfl
        | some b => exact absurd (hi.1.pathKey s _ b hb).1 ht
    rw [hst]
    refine ⟨hI1.congr (by simp) (by simp) (by simp) (by simp), ?_, by simp, ?_⟩
    · exact ⟨fun k' => by simpa using hC.1 k', fun p k' => by simpa using hC.2 p k'⟩
    · intro i hie ⟨s', h1, h2⟩
      simp only [side_csDiscard, side_unindex] at h1 h2
      simp only [mem_csDiscard, cs_unindex]
      exact ⟨hie, hi.2 i ⟨s', h1, h2⟩⟩

/-! ### kernel-checked counterexamples (each is replayed on the real `SyncState` by harness/c11_state.py) -/

def cfg0 : Cfg := mkCfg false false true true 0 0
def ev (s : Sd) (ot : OType) (oid : String) (path : Option String) : Op :=
  .update s ot { oid := some oid.toList, path := path.map String.toList } none

/-- the first exception raised by a sequence -/
def outcome (cfg : Cfg) (fuel : Nat) : List Op → St → Option Exc
  | [], _ => none
  | op :: rest, st => match step cfg fuel op st with
    | (.ok _, st') => outcome cfg fuel rest st'
    | (.error x, _) => some x

/-- natural clause, FALSE: an entry side that carries a path carries an id.
    `update(LOCAL, FILE, "i1", path="/a")` then `ent[LOCAL].oid = None` -/
def PathImpliesOid (st : St) : Prop := ∀ i s, truthyS (st.side i s).path = true → (st.side i s).oid ≠ none
def ops_path_without_id : List Op := [ev .L .file "i1" (some "/a"), .setSide 0 .L (.oid none)]
theorem cex_path_without_id : ¬ PathImpliesOid (run cfg0 10 ops_path_without_id init) :=
  fun h => h 0 .L (by decide +kernel) (by decide +kernel)

/-- natural clause, FALSE: every entry of the pending set has a change flag on a side that has an id.
    `update(LOCAL, FILE, "i1", path="/a")`, `ent[REMOTE].changed = 5`, `ent[LOCAL].oid = None`: the entry stays pending although
    neither flagged side has an id (`_change_oid` only un-pends when the other side is not flagged) -/
def PendingSound (st : St) : Prop :=
  ∀ i, i ∈ st.cs → ∃ s, (st.side i s).changed.truthy = true ∧ truthyS (st.side i s).oid = true
def ops_pending_without_id : List Op := [ev .L .file "i1" (some "/a"), .setSide 0 .R (.changed (.num 5)), .setSide 0 .L (.oid none)]
theorem cex_pending_without_id : ¬ PendingSound (run cfg0 10 ops_pending_without_id init) := by
  intro h
  obtain ⟨s, _, h2⟩ := h 0 (by decide +kernel)
  cases s
  · exact absurd h2 (by decide +kernel)
  · exact absurd h2 (by decide +kernel)

/-- repaired (fix B): the old failing input of `pending-without-flag` no longer leaves the entry pending -/
def ops_pending_without_flag : List Op := [ev .L .file "i1" (some "/a"), .mark 0 .R, .setSide 0 .L (.changed .none)]
theorem fixed_pending_without_flag : (run cfg0 10 ops_pending_without_flag init).cs = [] := by decide +kernel

/-- repaired (fix A): `forget_oid` un-pends the entry, drops the emptied bucket, tolerates a pathless entry -/
def ops_forget : List Op := [ev .L .file "i1" (some "/a"), .forget .L (some "i1".toList)]
theorem fixed_forget :
    (run cfg0 10 ops_forget init).cs = [] ∧ (run cfg0 10 ops_forget init).paths .L = [] ∧ (run cfg0 10 ops_forget init).oids .L = [] := by
  decide +kernel
def ops_forget_pathless : List Op := [ev .L .file "i1" none, .forget .L (some "i1".toList)]
theorem fixed_forget_pathless : outcome cfg0 10 ops_forget_pathless init = none := by decide +kernel

/-- repaired (commit eec8a73): the loader no longer indexes absent sides under `None`, so giving the side an id later leaves
    no stale `(None, None)` slot.  `update(LOCAL, FILE, "i1", path="/a")`, reload, `ent[REMOTE].oid = "r1"` -/
def ops_reload : List Op := [ev .L .file "i1" (some "/a"), .reload, .setSide 0 .R (.oid (some "r1".toList))]
theorem fixed_reload_stale_slot :
    (run cfg0 10 ops_reload init).slot .R none none = none ∧ (run cfg0 10 ops_reload init).paths .R = [] ∧
    (run cfg0 10 ops_reload init).oids .R = [(some "r1".toList, 0)] ∧
    (run cfg0 10 [ev .L .file "i1" (some "/a"), .reload] init).oids .R = [] := by
  decide +kernel

/-- repaired (fix C): two directory entries, `e` at `/a`, `f` at `/a/b`, then `e` moves to `/a/b/c` — `_update_kids` used to recurse
    for ever (the two folders moved each other); now the move ends, `f` follows `e` once -/
def ops_kids_mutual : List Op := [ev .L .dir "e" (some "/a"), ev .L .dir "f" (some "/a/b"), ev .L .dir "e" (some "/a/b/c")]
theorem fixed_kids_mutual_recursion :
    outcome cfg0 10 ops_kids_mutual init = none ∧ ((run cfg0 10 ops_kids_mutual init).side 0 .L).path = some "/a/b/c".toList ∧
    ((run cfg0 10 ops_kids_mutual init).side 1 .L).path = some "/a/b/c/b".toList ∧ (run cfg0 10 ops_kids_mutual init).moving = [] := by
  decide +kernel

/-- the repaired self-recursion (commit f72ed8c): a folder moved beneath its own previous path ends at the new path -/
def ops_self_nest : List Op := [ev .L .dir "o" (some "/a"), ev .L .dir "o" (some "/a/b")]
theorem fixed_self_recursion_terminates :
    outcome cfg0 10 ops_self_nest init = none ∧ ((run cfg0 10 ops_self_nest init).side 0 .L).path = some "/a/b".toList ∧
    (run cfg0 10 ops_self_nest init).slot .L (some "/a/b".toList) (some "o".toList) = some 0 := by decide +kernel

/-- repaired (fix B): both sides flagged and id-less no longer recurses -/
def ops_changed_rec : List Op :=
  [ev .L .file "i1" (some "/a"), .setSide 0 .R (.changed (.num 1)), .setSide 0 .L (.oid none), .setSide 0 .L (.changed .none)]
theorem fixed_changed_recursion : outcome cfg0 10 ops_changed_rec init = none := by decide +kernel

/-- FALSE: "`__setitem__` preserves `IndexInv` whatever the receiving side is".  On a path-id side (`oid_is_path`, `info_path(p).oid = p`)
    the folder `/a` (entry 0, kid `/a/x` = entry 1) receives a side with id `/b/x` and path `/b`: the kid moves to `/b/x`,
    `info_path` gives it the id `/b/x`, which ousts the receiving folder from the id index just before the side is installed.
    Afterwards entries 0 and 1 both carry `/b/x` and the index knows only entry 1.  This is why `SetOk` is needed. -/
def cfg1 : Cfg := mkCfg true true true true 0 1
def ops_setitem_folder : List Op :=
  [ev .L .dir "/a" (some "/a"), ev .L .file "/a/x" (some "/a/x"), ev .L .dir "/b/x" (some "/b"), .setItem 0 .L 2 .L]
theorem cex_setitem_folder_kid_takes_id :
    outcome cfg1 10 ops_setitem_folder init = none ∧
    ((run cfg1 10 ops_setitem_folder init).side 0 .L).oid = some "/b/x".toList ∧
    ((run cfg1 10 ops_setitem_folder init).side 1 .L).oid = some "/b/x".toList ∧
    (run cfg1 10 ops_setitem_folder init).lookupOid .L (some "/b/x".toList) = some 1 := by decide +kernel

def isRec {α} : Except Exc α → Bool
  | .error .recursion => true
  | _ => false
theorem ne_rec_of {α} {r : Except Exc α} (h : isRec r = false) : r ≠ .error .recursion := by
  intro hr; rw [hr] at h; cases h

/-- the hypotheses are satisfiable: a raw event from the empty state meets its guard … -/
example : Guarded cfg0 10 [ev .L .file "i1" (some "/a")] init :=
  ⟨fun pe h => by simp [St.lookupOid, init, St.oids, St.ix] at h, ne_rec_of (by decide +kernel), trivial⟩

/-- … `split` after it … -/
example : Guarded cfg0 10 [.split 0, .setItem 0 .L 1 .L] (run cfg0 10 [ev .L .file "i1" (some "/a")] init) :=
  ⟨trivial, ne_rec_of (by decide +kernel), Or.inr (by decide +kernel), ne_rec_of (by decide +kernel), trivial⟩

/-- … and so do hooked assignments, `mark_changed` and `clear` after it -/
example : Guarded cfg0 10 [.setSide 0 .L (.oid (some "x".toList)), .mark 0 .L, .clear 0 .L]
    (run cfg0 10 [ev .L .file "i1" (some "/a")] init) := by
  refine ⟨trivial, ne_rec_of (by decide +kernel), trivial, ne_rec_of (by decide +kernel), trivial,
    ne_rec_of (by decide +kernel), trivial⟩

/-- … and a folder with a folder beneath it moves, then the state is reloaded: nothing but the vacuous event guard to meet -/
example : Guarded cfg0 10 [ev .L .dir "e" (some "/b"), .reload]
    (run cfg0 10 [ev .L .dir "e" (some "/a"), ev .L .dir "f" (some "/a/b")] init) := by
  refine ⟨fun pe h => ?_, ne_rec_of (by decide +kernel), trivial, ne_rec_of (by decide +kernel), trivial⟩
  have h0 : (run cfg0 10 [ev .L .dir "e" (some "/a"), ev .L .dir "f" (some "/a/b")] init).lookupOid .L none = none := by decide +kernel
  rw [h0] at h; cases h

end CS.State
