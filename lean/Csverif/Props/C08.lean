import Csverif.Proofs.Codec
import Csverif.Proofs.PersistInv
/-
C08 — persisted sync state equals in-memory state and round-trips unchanged.
Model: Model/Codec.lean (`CS.Codec`: the msgpack value level and the entry codec; `CS.Persist`: hooks, dirty set,
storage_commit, loader).  Part 1: the codec.
-/
namespace CS.Codec

/-! ## enum tables (`Exists`, `IgnoreReason`, `OType`): value ↦ member is the inverse of member ↦ value -/

theorem enum_tables_inverse :
    (∀ e : Exists, Exists.ofValue e.value = some e) ∧
    (∀ e : Ignore, Ignore.ofValue e.value = some e) ∧
    (∀ e : OType, OType.ofValue e.value = some e) ∧
    (∀ (s : String) (e : Exists), Exists.ofValue s = some e → e.value = s) ∧
    (∀ (s : String) (e : Ignore), Ignore.ofValue s = some e → e.value = s) ∧
    (∀ (s : String) (e : OType), OType.ofValue s = some e → e.value = s) := by
  refine ⟨fun e => by cases e <;> decide, fun e => by cases e <;> decide, fun e => by cases e <;> decide, ?_, ?_, ?_⟩
  · intro s e h
    have := List.find?_some h
    simpa using this
  · intro s e h
    have := List.find?_some h
    simpa using this
  · intro s e h
    have := List.find?_some h
    simpa using this

/-- the value tables are injective (no two members share a string), by `decide` -/
theorem enum_values_distinct :
    (Exists.all.map Exists.value).Nodup ∧ (Ignore.all.map Ignore.value).Nodup ∧ (OType.all.map OType.value).Nodup := by
  decide

/-- no current ignore reason is spelled like the legacy reason `'trashed'`, and `'trashed'` is not
    an `Exists`/`OType` clash that matters to the legacy mapping -/
theorem legacy_reason_is_free : Ignore.ofValue "trashed" = none := by decide

/-! ## round trip -/

/-- what an entry looks like after `serialize`, msgpack, `SyncEntry(parent, None, (sid, row))` -/
def Entry.reloaded (e : Entry) (sid : Nat) : Entry :=
  { s0 := e.s0.normed, s1 := e.s1.normed, ignored := e.ignored, priority := 0, storageId := some sid }

/-- msgpack-representable: `dumps` accepts the dict (all integers in the 64 bit range); `loads`
    (with `strict_map_key=False`) then accepts whatever `dumps` wrote -/
def Entry.Rep (e : Entry) : Prop := dumpsOk e.serialize = true

/-- `_set_mtime` only ever stores None or a number (state.py:100) -/
def Entry.MtimeOk (e : Entry) : Prop := e.s0.mtime.isNumOrNone = true ∧ e.s1.mtime.isNumOrNone = true

instance (e : Entry) : Decidable e.Rep := by unfold Entry.Rep; infer_instance
instance (e : Entry) : Decidable e.MtimeOk := by unfold Entry.MtimeOk; infer_instance

def Side.vals (s : Side) : List Val :=
  [s.side, s.hash, s.changed, s.syncHash, s.path, s.syncPath, s.oid, s.tempFile, s.size, s.mtime]

/-- `Rep`, field by field -/
theorem Entry.rep_iff (e : Entry) :
    e.Rep ↔ (∀ v ∈ e.s0.vals ++ e.s1.vals, dumpsOk v = true) ∧ intOk e.priority = true := by
  obtain ⟨⟨o0, a0, b0, c0, d0, e0, f0, g0, x0, h0, i0, j0, v0, w0⟩, ⟨o1, a1, b1, c1, d1, e1, f1, g1, x1, h1, i1, j1, v1, w1⟩, ig, pr, sid⟩ := e
  cases v0 <;> cases v1 <;>
  simp only [Entry.Rep, Entry.serialize, Side.serialize, dumpsOk, dumpsOkKvs, Key.dumpsOk,
    Side.vals, List.cons_append, List.nil_append, List.mem_cons, List.not_mem_nil, or_false, forall_eq_or_imp, forall_eq,
    Bool.and_eq_true, true_and, and_true] <;>
  (constructor <;> intro h <;> simp_all)

/-- **Round trip.**  For every entry whose field values are msgpack-representable: the row `serialize`
    produces loads back, under any storage id, to an entry with the same types, paths, ids, hashes,
    sync markers, existence (including the corrupt marker and the saved existence), ignore reason,
    change stamps, sizes and mtimes — each value up to `norm` (Python lists come back as tuples) —
    with `priority` reset to 0 and `force_sync` reset to False. -/
theorem roundtrip (e : Entry) (sid : Nat) (hrep : e.Rep) (hm : e.MtimeOk) :
    ∃ row, e.row = .ok row ∧ Entry.deserialize sid row = .ok (e.reloaded sid) := by
  refine ⟨norm e.serialize, ?_, ?_⟩
  · have hd : dumpsOk e.serialize = true := hrep
    simp [Entry.row, dumps, hd]
  · simp only [Entry.deserialize, loads, norm_idem]
    obtain ⟨s0, s1, ig, pr, st⟩ := e
    have h0 := Side.deserialize_serialize s0 0 hm.1
    have h1 := Side.deserialize_serialize s1 1 hm.2
    simp only [Entry.serialize, norm, normKvs, Entry.deserializeVal, Val.getItem, Val.getD, lookupKey, decodeIgnored]
    simp [h0, h1, bind, Except.bind, pure, Except.pure, Val.truthy, Ignore.value_ne_empty, Ignore.value_ne_trashed,
      Ignore.ofVal, Ignore.ofValue_value, Entry.reloaded]

/-- what `roundtrip` delivers, read field by field (the property's list) -/
theorem roundtrip_fields (e : Entry) (sid : Nat) (sd : Sd) :
    let s := e.side sd
    let s' := (e.reloaded sid).side sd
    s'.otype = s.otype ∧ s'.path = norm s.path ∧ s'.syncPath = norm s.syncPath ∧ s'.oid = norm s.oid ∧
    s'.hash = norm s.hash ∧ s'.syncHash = norm s.syncHash ∧ s'.exists_ = s.exists_ ∧ s'.savedExists = s.savedExists ∧
    s'.changed = norm s.changed ∧ s'.size = norm s.size ∧ s'.mtime = norm s.mtime ∧ s'.tempFile = norm s.tempFile ∧
    (e.reloaded sid).ignored = e.ignored := by
  cases sd <;> simp [Entry.side, Entry.reloaded, Side.normed]

/-- values without Python lists (bytes, str, int, float, None, nested tuples, dicts of those) come
    back exactly; a list comes back as the tuple with the same elements -/
theorem roundtrip_value_exact (v : Val) (h : noList v = true) : norm v = v := norm_of_noList v h

theorem list_comes_back_as_tuple (xs : List Val) : norm (.arr true xs) = .arr false (normList xs) ∧
    norm (.arr true xs) ≠ .arr true xs := by
  simp [norm]

/-- a second round trip changes nothing more -/
theorem roundtrip_stable (v : Val) : norm (norm v) = norm v := norm_idem v

/-- a dict-typed hash with a non-string key (once dropped on load: fixed finding
    `dict-hash-nonstring-key-row-dropped-on-load`) is representable and round-trips like any other -/
def intKeyEntry : Entry :=
  { Entry.fresh .file with s0 := { Side.fresh 0 .file with oid := .str "a", hash := .map [(.int 1, .int 2)] } }

theorem dict_hash_nonstring_key_roundtrips :
    intKeyEntry.Rep ∧ intKeyEntry.row = .ok (norm intKeyEntry.serialize) ∧
    Entry.deserialize 1 (norm intKeyEntry.serialize) = .ok (intKeyEntry.reloaded 1) ∧
    (intKeyEntry.reloaded 1).s0.hash = .map [(.int 1, .int 2)] := by
  refine ⟨by decide, rfl, rfl, rfl⟩

/-! ## rows written by older releases -/

/-- a side as releases before 10/21/19 wrote it: boolean/None `exists`, no `size`, `mtime`,
    `_saved_exists` -/
structure LegacySide where
  otype : OType
  side : Val
  hash : Val
  changed : Val
  syncHash : Val
  syncPath : Val
  path : Val
  oid : Val
  exists_ : Option Bool
  tempFile : Val

def LegacySide.toVal (s : LegacySide) : Val :=
  .map [ (.str "otype", .str s.otype.value), (.str "side", s.side), (.str "hash", s.hash), (.str "changed", s.changed),
         (.str "sync_hash", s.syncHash), (.str "path", s.path), (.str "sync_path", s.syncPath), (.str "oid", s.oid),
         (.str "exists", match s.exists_ with | none => .nil | some b => .bool b), (.str "temp_file", s.tempFile) ]

def LegacySide.loaded (s : LegacySide) : Side :=
  { otype := s.otype, side := norm s.side, hash := norm s.hash, changed := norm s.changed, syncHash := norm s.syncHash,
    syncPath := norm s.syncPath, path := norm s.path, oid := norm s.oid,
    exists_ := (match s.exists_ with | none => .unknown | some true => .exists_ | some false => .trashed),
    tempFile := norm s.tempFile, size := .nil, mtime := .nil, savedExists := none, forceSync := .bool false }

/-- the legacy ways of recording the ignore reason: the key `ignored` (possibly the old spelling
    `'trashed'`), or the boolean keys `discarded` / `conflicted`; no `priority` key -/
inductive LegacyIgnore where
  | reason (r : Ignore)
  | trashed
  | flags (discarded conflicted : Bool)

def LegacyIgnore.keys : LegacyIgnore → List (Key × Val)
  | .reason r => [(.str "ignored", .str r.value)]
  | .trashed => [(.str "ignored", .str "trashed")]
  | .flags d c => [(.str "discarded", .bool d), (.str "conflicted", .bool c)]

def LegacyIgnore.loaded : LegacyIgnore → Ignore
  | .reason r => r
  | .trashed => .discarded
  | .flags true _ => .discarded
  | .flags false true => .conflict
  | .flags false false => .none_

def legacyRow (a b : LegacySide) (ig : LegacyIgnore) : Val :=
  .map ([(.str "side0", a.toVal), (.str "side1", b.toVal)] ++ ig.keys)

theorem LegacySide.deserialize_toVal (s : LegacySide) (i : Int) :
    Side.deserialize i (norm s.toVal) = .ok s.loaded := by
  obtain ⟨ot, sd, h, c, sh, sp, p, o, ex, tf⟩ := s
  simp only [LegacySide.toVal, norm, normKvs, Side.deserialize, Val.getItem, Val.getD, lookupKey]
  rcases ex with _ | _ | _ <;>
  simp [OType.ofVal, OType.ofValue_value, Side.plainPost, Side.store, Side.fresh, Val.isNone, Side.loadExists,
    Side.existsPre, ExV.isCorruptMember, Side.isCorrupt, Side.existsPost, translateExists, Side.mtimePost, Val.isNumOrNone,
    LegacySide.loaded, bind, Except.bind, pure, Except.pure, norm, Val.truthy]

/-- **Rows written by older releases still load**: boolean/None existence maps to EXISTS / TRASHED /
    UNKNOWN, the missing `size`, `mtime`, `_saved_exists` and `priority` default, `'trashed'` and
    the `discarded` / `conflicted` flags map to the current reasons; every other field as in
    `roundtrip`. -/
theorem legacy_rows_load (a b : LegacySide) (ig : LegacyIgnore) (sid : Nat) :
    Entry.deserialize sid (norm (legacyRow a b ig)) =
      .ok { s0 := a.loaded, s1 := b.loaded, ignored := ig.loaded, priority := 0, storageId := some sid } := by
  simp only [Entry.deserialize, loads, norm_idem]
  have h0 := LegacySide.deserialize_toVal a 0
  have h1 := LegacySide.deserialize_toVal b 1
  cases ig with
  | reason r =>
    simp only [legacyRow, LegacyIgnore.keys, List.cons_append, List.nil_append, norm, normKvs, Entry.deserializeVal,
      Val.getItem, Val.getD, lookupKey, decodeIgnored]
    simp [h0, h1, bind, Except.bind, pure, Except.pure, Val.truthy, Ignore.value_ne_empty, Ignore.value_ne_trashed,
      Ignore.ofVal, Ignore.ofValue_value, LegacyIgnore.loaded]
  | trashed =>
    simp only [legacyRow, LegacyIgnore.keys, List.cons_append, List.nil_append, norm, normKvs, Entry.deserializeVal,
      Val.getItem, Val.getD, lookupKey, decodeIgnored]
    have hd : Ignore.ofValue "discarded" = some .discarded := by decide
    simp [h0, h1, bind, Except.bind, pure, Except.pure, Val.truthy, LegacyIgnore.loaded, Ignore.ofVal, hd]
  | flags d c =>
    simp only [legacyRow, LegacyIgnore.keys, List.cons_append, List.nil_append, norm, normKvs, Entry.deserializeVal,
      Val.getItem, Val.getD, lookupKey, decodeIgnored]
    cases d <;> cases c <;>
    simp [h0, h1, bind, Except.bind, pure, Except.pure, Val.truthy, LegacyIgnore.loaded]

/-- an unrecognised reason string loads as *not ignored* (state.py:396-398 assigns the fallback
    `DISCARDED` to a local that is never used) — a stated fact about the code as it is -/
theorem unknown_reason_loads_as_none (ser : Val) (r : Val) (hr : r.truthy = true) (hne : (r == Val.str "trashed") = false)
    (hu : Ignore.ofVal r = none) (hg : ser.getD "ignored" (.str "") = .ok r) : decodeIgnored ser = .ok .none_ := by
  simp [decodeIgnored, hg, bind, Except.bind, hr, hne, hu, pure, Except.pure]

/-- the CORRUPT marker with its saved existence survives (a corollary of `roundtrip`, spelled out) -/
theorem corrupt_marker_roundtrip (e : Entry) (sid : Nat) (sd : Sd) (x : Exists)
    (hc : (e.side sd).exists_ = .corrupt) (hs : (e.side sd).savedExists = some x) :
    ((e.reloaded sid).side sd).exists_ = .corrupt ∧ ((e.reloaded sid).side sd).savedExists = some x := by
  cases sd <;> simp_all [Entry.side, Entry.reloaded, Side.normed]

/-- a `_saved_exists` value that is not a member's string loads as UNKNOWN (state.py:271-275);
    a falsy one as None -/
theorem bad_saved_exists_loads_unknown (sv : Val) (ht : sv.truthy = true) (hb : Exists.ofVal sv = none) :
    (if sv.truthy then (match Exists.ofVal sv with | some e => some e | none => some Exists.unknown) else none)
      = some Exists.unknown := by
  simp [ht, hb]

/-! ## priority -/

theorem Entry.deserializeVal_priority (sid : Nat) (ser : Val) (e : Entry)
    (h : Entry.deserializeVal sid ser = .ok e) : e.priority = 0 ∧ e.storageId = some sid := by
  simp only [Entry.deserializeVal, bind, Except.bind, pure, Except.pure] at h
  repeat' split at h
  all_goals first | (injection h with h; subst h; exact ⟨rfl, rfl⟩) | cases h

/-- **`deserialize` never restores `priority`** (state.py:404 writes the default into the dict, not
    into the entry): whatever the row says, a loaded entry has priority 0.  `priority` is not in
    the property's field list; stated so that nobody relies on it. -/
theorem priority_not_restored (sid : Nat) (row : Val) (e : Entry)
    (h : Entry.deserialize sid row = .ok e) : e.priority = 0 := by
  simp only [Entry.deserialize] at h
  split at h
  · cases h
  · exact (Entry.deserializeVal_priority sid _ e h).1

/-- concretely: an entry punted to priority 3 comes back with 0 -/
example : ∃ e : Entry, e.priority = 3 ∧ e.Rep ∧ e.MtimeOk ∧ (e.reloaded 7).priority = 0 :=
  ⟨{ Entry.fresh .file with priority := 3 }, rfl, by decide, by decide, rfl⟩

/-- the hypotheses of `roundtrip` are satisfiable by a non-trivial entry (bytes hash, nested tuple
    sync hash with a dict, unicode path, corrupt marker, list-typed remote hash) -/
example : ∃ e : Entry, e.Rep ∧ e.MtimeOk ∧ e.s0.exists_ = .corrupt ∧ (e.reloaded 1).s1.hash ≠ e.s1.hash :=
  ⟨{ Entry.fresh .file with
      s0 := { Side.fresh 0 .file with oid := .str "é", path := .str "/é中", hash := .bin "00ff",
                                        syncHash := .arr false [.int 1, .map [(.str "k", .bin "01")]],
                                        exists_ := .corrupt, savedExists := some .exists_, mtime := .float 4610000000000000000 },
      s1 := { Side.fresh 1 .file with oid := .int 5, hash := .arr true [.int 1, .int 2] } },
   by decide, by decide, rfl, by decide⟩

end CS.Codec

/-
Part 2: the persistence layer (`CS.Persist`): hooked writes, dirty set, `storage_commit`, loader.
-/
namespace CS.Persist
open CS.Codec CS.Storage
set_option linter.unusedVariables false

/-- `read_all(tag)` of the SQLite backend, in terms of the table read as a map -/
theorem mem_rowsOf (t : Sqlite.Table Val) (h : Sqlite.Inv t) (k : Nat) (row : Val) :
    (k, row) ∈ rowsOf (.sqlite t) ↔ Sqlite.abs t tag k = some row := by
  rw [Sqlite.abs_eq_some_iff t h]
  simp only [rowsOf, Backend.step, Sqlite.step, List.mem_map, List.mem_filter, beq_iff_eq, Prod.mk.injEq]
  constructor
  · rintro ⟨⟨tg, n, v⟩, ⟨r, ⟨hr, htag⟩, he⟩, h1, h2⟩
    simp only [Prod.mk.injEq] at he
    obtain ⟨rid, rtag, rval⟩ := r
    simp only at he htag h1 h2
    obtain ⟨e1, e2, e3⟩ := he
    subst e1 e2 e3 htag h1 h2
    exact hr
  · intro hr
    exact ⟨(tag, k, row), ⟨⟨k, tag, row⟩, ⟨hr, rfl⟩, rfl⟩, rfl, rfl⟩

/-- **What "storage is exact" means.**  `silent` (ghost) is the set of entries that were changed on a
    path that reaches no dirty mark — the CORRUPT early returns of `SideState.__setattr__`, the ousting
    write of `_change_path`, a hook aborted by an exception — and not dirtied since.  With
    `silent = []` this is the property's statement: the rows of the tag are exactly the
    serialisations of the live non-trash entries, one row each. -/
structure Exact (st : St) : Prop where
  /-- no missing row: every live non-trash entry has a row and it is its current serialisation -/
  live_have_rows : ∀ (i : Nat) (e : Entry), st.ents[i]? = some e → i ∉ st.silent → e.isTrash = false →
    ∃ k row, e.storageId = some k ∧ e.row = .ok row ∧ (k, row) ∈ rowsOf st.store
  /-- no stale row: every row of the tag belongs to a live entry, which (unless silently changed) is
      not trash and serialises to exactly that row -/
  rows_have_owner : ∀ (k : Nat) (row : Val), (k, row) ∈ rowsOf st.store →
    ∃ (i : Nat) (e : Entry), st.ents[i]? = some e ∧ e.storageId = some k ∧
      (i ∉ st.silent → e.isTrash = false ∧ e.row = .ok row)
  /-- one owner per row -/
  owner_unique : ∀ (i j : Nat) (ei ej : Entry) (k : Nat), st.ents[i]? = some ei → st.ents[j]? = some ej →
    ei.storageId = some k → ej.storageId = some k → i = j
  /-- trash entries keep no storage id (so no later write on them can reach a row) -/
  trash_have_none : ∀ (i : Nat) (e : Entry), st.ents[i]? = some e → i ∉ st.silent → e.isTrash = true → e.storageId = none

theorem exact_of_inv (st : St) (h : Inv st) (hd : st.dirty = []) : Exact st := by
  obtain ⟨t, hs, hc, hst⟩ := h
  have hnd : ∀ i, i ∉ st.dirty ∨ i ∈ ([] : List Nat) := fun i => Or.inl (by rw [hd]; simp)
  refine ⟨?_, ?_, ?_, ?_⟩
  · intro i e he hsil ht
    have := hst i e he (hnd i) hsil
    unfold Stored at this
    cases hk : e.storageId with
    | none => simp only [hk] at this; rw [this] at ht; cases ht
    | some k =>
      simp only [hk] at this
      obtain ⟨_, row, hr, ha⟩ := this
      exact ⟨k, row, rfl, hr, by rw [hs]; exact (mem_rowsOf t hc.tinv k row).2 ha⟩
  · intro k row hm
    rw [hs] at hm
    have ha := (mem_rowsOf t hc.tinv k row).1 hm
    obtain ⟨i, hi⟩ := hc.nostale k (by rw [ha]; simp)
    simp only [sidOf, Option.map_eq_some_iff] at hi
    obtain ⟨e, he, hk⟩ := hi
    refine ⟨i, e, he, hk, fun hsil => ?_⟩
    have := hst i e he (hnd i) hsil
    unfold Stored at this
    simp only [hk] at this
    obtain ⟨ht, row', hr, ha'⟩ := this
    rw [ha] at ha'; injection ha' with ha'; subst ha'
    exact ⟨ht, hr⟩
  · intro i j ei ej k hi hj hki hkj
    exact hc.uniq i j k (by rw [sidOf_of_ent hi, hki]) (by rw [sidOf_of_ent hj, hkj])
  · intro i e he hsil ht
    have := hst i e he (hnd i) hsil
    unfold Stored at this
    cases hk : e.storageId with
    | none => rfl
    | some k => simp only [hk] at this; rw [this.1] at ht; cases ht

/-- **The invariant that is true of the code**, for every sequence of entry creations, hooked writes
    and commits from an empty database (no bound on the length): see `Inv` (Proofs/PersistInv.lean). -/
theorem persistence_invariant (ops : List Op) : Inv (run (St.init (.sqlite [])) ops) :=
  Inv_run ops _ Inv_init

/-- **After `storage_commit`, storage is exact** — for every sequence of entry creations, hooked
    attribute writes and commits, whenever a commit returns normally.  (Before the repair of
    `stale-storage-id-after-row-delete` this needed the hypothesis that no `_storage_update` had run
    on an entry whose row had been deleted.) -/
theorem commit_makes_storage_exact (ops : List Op) :
    let st := run (St.init (.sqlite [])) ops
    (step st .commit).1 = .ok () → Exact (step st .commit).2 := by
  intro st hok
  have := Inv_commit st (persistence_invariant ops)
  exact exact_of_inv _ this.1 (this.2.1 hok)

/-- … and a commit never raises the `ValueError` of `Storage.update` (no row is ever missing): the
    only exception it can raise is the `OverflowError` of `msgpack.dumps` on an integer outside 64 bits -/
theorem commit_raises_only_overflow (ops : List Op) :
    let st := run (St.init (.sqlite [])) ops
    (step st .commit).1 = .ok () ∨ (step st .commit).1 = .error (.py .overflow) :=
  (Inv_commit _ (persistence_invariant ops)).2.2

/-- the same at any moment at which nothing is waiting in the dirty set -/
theorem storage_exact_when_clean (ops : List Op) :
    let st := run (St.init (.sqlite [])) ops
    st.dirty = [] → Exact st :=
  fun hd => exact_of_inv _ (persistence_invariant ops) hd

/-- hooked writes never touch storage or storage ids, and every entry they change is covered by the
    dirty set or the ghost set (the dirty-marking discipline) -/
theorem hooked_write_frame (st : St) (c : Call) : LeX none st (step st (.write c)).2 :=
  (Pres_hook (fuelFor st) c).run st

def wOid (i : Nat) (sd : Sd) (v : Val) : Op := .write (.side i sd (.plain .oid (.val v)))

/-! ### the repaired finding `stale-storage-id-after-row-delete`, kernel-checked on its exact replay -/

def staleIdOps : List Op :=
  [ .new .file, wOid 0 false (.str "a"), .commit,
    .new .file, wOid 1 false (.str "b"), .commit,
    wOid 1 false .nil, .commit,                          -- entry 1 is trash: row 2 deleted, storage id forgotten
    .new .file, wOid 2 false (.str "c"), .commit,        -- entry 2 gets rowid 2
    .write (.side 1 false (.plain .hash (.val (.str "x")))), .commit ]   -- touching the trash entry harms nobody

theorem storage_id_forgotten_after_row_delete :
    let st := run (St.init (.sqlite [])) staleIdOps
    st.dirty = [] ∧ st.silent = [] ∧ (st.ents.map Entry.isTrash) = [false, true, false] ∧
    (st.ents.map Entry.storageId) = [some 1, none, some 2] ∧ (rowsOf st.store).map (·.1) = [1, 2] := by decide

def resurrectOps : List Op :=
  [ .new .file, wOid 0 false (.str "a"), .commit, wOid 0 false .nil, .commit, wOid 0 false (.str "a"), .commit ]

theorem resurrected_entry_gets_a_new_row :
    let st := run (St.init (.sqlite [])) resurrectOps
    st.dirty = [] ∧ (st.ents.map Entry.isTrash) = [false] ∧ (st.ents.map Entry.storageId) = [some 1] ∧
    (rowsOf st.store).map (·.1) = [1] := by decide

/-! ### what the statement with `silent = []` excludes: a stated fact, kernel-checked

**the CORRUPT marker is set without a dirty mark** (`SideState.__setattr__`, the two early returns):
alone, it is not persisted by the next commit.  (In the engine `handle_corrupt` continues with
`mark_changed` on the same entry, and `update_entry` with `mark_changed`.) -/
def corruptOps : List Op :=
  [ .new .file, wOid 0 false (.str "a"), .write (.side 0 false (.exists_ (.enum .exists_))), .commit,
    .write (.side 0 false (.exists_ (.enum .corrupt))), .commit ]

theorem corrupt_mark_alone_not_persisted :
    let st := run (St.init (.sqlite [])) corruptOps
    st.dirty = [] ∧ st.silent = [0] ∧
    (st.ents.map fun e => (e.s0.exists_, e.s0.savedExists)) = [(.corrupt, some .exists_)] ∧
    ((rowsOf st.store).map fun r => (Entry.deserialize r.1 r.2).toOption.map fun e => (e.s0.exists_, e.s0.savedExists))
      = [some (.exists_, none)] := by decide

/-! ### reload -/

/-- **the loader, specified**: the rebuilt state holds one entry per row that deserialises, in row
    order (a row that does not is deleted, nothing else is) -/
theorem reload_ents (b : Backend) : (reload b).ents = loadedEntries (rowsOf b) := by
  have := (loadRows_spec (rowsOf b) (St.init b) (Loaded_init b)).2
  simpa [reload, St.init] using this

/-- what the rebuilt state finds under a (string) id is an entry that carries that id … -/
theorem reload_lookup_sound (b : Backend) (sd : Sd) (s : String) (j : Nat)
    (h : lookupOid (reload b) sd (.str s) = some j) :
    ∃ e, (reload b).ents[j]? = some e ∧ (e.side sd).oid = .str s :=
  (loadRows_spec (rowsOf b) (St.init b) (Loaded_init b)).1.sound sd s j h

/-- … and every rebuilt entry is found under each of its (string) ids, unless a later row carries
    the same id -/
theorem reload_lookup_complete (b : Backend) (sd : Sd) (s : String) (i : Nat) (e : Entry)
    (he : (reload b).ents[i]? = some e) (ho : (e.side sd).oid = .str s) :
    ∃ j, lookupOid (reload b) sd (.str s) = some j ∧ i ≤ j :=
  (loadRows_spec (rowsOf b) (St.init b) (Loaded_init b)).1.complete sd s i e he ho

/-- nothing is indexed under the key None (repaired finding `loader-indexes-absent-side-under-none`) -/
theorem reload_none_key_absent (b : Backend) (sd : Sd) (stale : Bool) :
    lookupOid (reload b) sd .nil = none ∧ lookupPath (reload b) sd .nil stale = [] := by
  have h := (loadRows_spec (rowsOf b) (St.init b) (Loaded_init b)).1.noneAbsent sd
  have h2 : dget ((reload b).ix sd).paths Val.nil = none := h.2
  exact ⟨h.1, by simp [lookupPath, h2]⟩

/-- the rebuilt pending set: exactly the rebuilt entries with a truthy change stamp on a side that
    has an id (repaired finding `reload-pending-set-differs`) -/
theorem reload_pending_spec (b : Backend) (i : Nat) :
    i ∈ (reload b).changeset ↔ ∃ e, (reload b).ents[i]? = some e ∧ e.pendingOnLoad = true :=
  (loadRows_spec (rowsOf b) (St.init b) (Loaded_init b)).1.pending i

theorem mem_loadedEntries (rows : List (Nat × Val)) (e : Entry) :
    e ∈ loadedEntries rows ↔ ∃ k row, (k, row) ∈ rows ∧ Entry.deserialize k row = .ok e := by
  induction rows with
  | nil => simp [loadedEntries]
  | cons a r ih =>
    obtain ⟨k, row⟩ := a
    simp only [loadedEntries]
    cases hd : Entry.deserialize k row with
    | ok e' =>
      simp only [List.mem_cons, ih]
      constructor
      · rintro (h | ⟨k', row', hm, hd'⟩)
        · subst h; exact ⟨k, row, Or.inl rfl, hd⟩
        · exact ⟨k', row', Or.inr hm, hd'⟩
      · rintro ⟨k', row', hm | hm, hd'⟩
        · injection hm with h1 h2; subst h1; subst h2; rw [hd] at hd'; injection hd' with hd'; exact Or.inl hd'.symm
        · exact Or.inr ⟨k', row', hm, hd'⟩
    | error err =>
      simp only [ih, List.mem_cons]
      constructor
      · rintro ⟨k', row', hm, hd'⟩; exact ⟨k', row', Or.inr hm, hd'⟩
      · rintro ⟨k', row', hm | hm, hd'⟩
        · injection hm with h1 h2; subst h1; subst h2; rw [hd] at hd'; cases hd'
        · exact ⟨k', row', hm, hd'⟩

theorem norm_eq_str (v : Val) (s : String) (h : norm v = .str s) : v = .str s := by
  cases v <;> simp_all [norm]

theorem reloaded_side_oid (e : Entry) (k : Nat) (sd : Sd) : ((e.reloaded k).side sd).oid = norm (e.side sd).oid := by
  cases sd <;> rfl

theorem reloaded_pending (e : Entry) (k : Nat) : (e.reloaded k).pendingOnLoad = e.pendingOnLoad := by
  simp [Entry.pendingOnLoad, Entry.reloaded, Side.normed, norm_isNone, norm_truthy]

theorem not_trash_of_oid (e : Entry) (sd : Sd) (s : String) (h : (e.side sd).oid = .str s) : e.isTrash = false := by
  cases sd <;> simp_all [Entry.side, Entry.isTrash, Val.isNone]

/-- every row of an exact storage decodes to the reloaded image of its live owner -/
theorem exact_row_decodes (st : St) (hex : Exact st) (hsil : st.silent = [])
    (hrep : ∀ (i : Nat) (e : Entry), st.ents[i]? = some e → e.isTrash = false → e.Rep ∧ e.MtimeOk)
    (k : Nat) (row : Val) (e' : Entry) (hrow : (k, row) ∈ rowsOf st.store) (hd : Entry.deserialize k row = .ok e') :
    ∃ (i : Nat) (e : Entry), st.ents[i]? = some e ∧ e.isTrash = false ∧ e.storageId = some k ∧ e' = e.reloaded k := by
  have hns : ∀ i, i ∉ st.silent := fun i => by rw [hsil]; simp
  obtain ⟨i, e, hei, hk, hlive⟩ := hex.rows_have_owner k row hrow
  obtain ⟨ht, hr⟩ := hlive (hns i)
  obtain ⟨hR, hM⟩ := hrep i e hei ht
  obtain ⟨row', hr', hd'⟩ := roundtrip e k hR hM
  rw [hr] at hr'; injection hr' with hr'; subst hr'
  rw [hd] at hd'; injection hd' with hd'
  exact ⟨i, e, hei, ht, hk, hd'⟩

/-- every live non-trash entry of an exact storage is rebuilt by the loader as its reloaded image -/
theorem exact_entry_reloaded (st : St) (hex : Exact st) (hsil : st.silent = [])
    (hrep : ∀ (i : Nat) (e : Entry), st.ents[i]? = some e → e.isTrash = false → e.Rep ∧ e.MtimeOk)
    (i : Nat) (e : Entry) (hei : st.ents[i]? = some e) (ht : e.isTrash = false) :
    ∃ (k j : Nat), e.storageId = some k ∧ (reload st.store).ents[j]? = some (e.reloaded k) := by
  have hns : ∀ i, i ∉ st.silent := fun i => by rw [hsil]; simp
  obtain ⟨k, row, hk, hr, hrow⟩ := hex.live_have_rows i e hei (hns i) ht
  obtain ⟨hR, hM⟩ := hrep i e hei ht
  obtain ⟨row', hr', hd'⟩ := roundtrip e k hR hM
  rw [hr] at hr'; injection hr' with hr'; subst hr'
  have hmem : e.reloaded k ∈ loadedEntries (rowsOf st.store) := (mem_loadedEntries _ _).2 ⟨k, row, hrow, hd'⟩
  rw [← reload_ents] at hmem
  obtain ⟨j, hj⟩ := List.getElem?_of_mem hmem
  exact ⟨k, j, hk, hj⟩

/-- **Reload, relative to the live entries**: take a live state whose storage is exact (the
    conclusion of `commit_makes_storage_exact`, nothing silently changed) and whose live entries are
    msgpack-representable.  Then, for every side and every string id:
    (1) what the state rebuilt from storage finds under that id is the reloaded image (`roundtrip`)
        of a live non-trash entry that carries that id, under its own storage id;
    (2) every live non-trash entry that carries that id is found under it after the reload. -/
theorem reload_equiv_entries (st : St) (hex : Exact st) (hsil : st.silent = [])
    (hrep : ∀ (i : Nat) (e : Entry), st.ents[i]? = some e → e.isTrash = false → e.Rep ∧ e.MtimeOk) (sd : Sd) (s : String) :
    (∀ j, lookupOid (reload st.store) sd (.str s) = some j →
      ∃ (i : Nat) (e : Entry) (k : Nat), st.ents[i]? = some e ∧ e.isTrash = false ∧ e.storageId = some k ∧ (e.side sd).oid = .str s ∧
        (reload st.store).ents[j]? = some (e.reloaded k)) ∧
    (∀ (i : Nat) (e : Entry), st.ents[i]? = some e → e.isTrash = false → (e.side sd).oid = .str s →
      ∃ j, lookupOid (reload st.store) sd (.str s) = some j) := by
  constructor
  · intro j hj
    obtain ⟨e', he', ho'⟩ := reload_lookup_sound st.store sd s j hj
    have hmem : e' ∈ loadedEntries (rowsOf st.store) := by
      rw [← reload_ents]; exact List.mem_of_getElem? he'
    obtain ⟨k, row, hrow, hd⟩ := (mem_loadedEntries _ _).1 hmem
    obtain ⟨i, e, hei, ht, hk, heq⟩ := exact_row_decodes st hex hsil hrep k row e' hrow hd
    subst heq
    refine ⟨i, e, k, hei, ht, hk, ?_, he'⟩
    rw [reloaded_side_oid] at ho'
    exact norm_eq_str _ _ ho'
  · intro i e hei ht ho
    obtain ⟨k, i', hk, hi'⟩ := exact_entry_reloaded st hex hsil hrep i e hei ht
    have ho2 : ((e.reloaded k).side sd).oid = .str s := by rw [reloaded_side_oid, ho]; rfl
    obtain ⟨j, hj, _⟩ := reload_lookup_complete st.store sd s i' _ hi' ho2
    exact ⟨j, hj⟩

/-- a change stamp on a side whose id is truthy (the live rule of `updated(key="changed")`) -/
def _root_.CS.Codec.Entry.pendingTruthy (e : Entry) : Bool :=
  (e.s0.oid.truthy && e.s0.changed.truthy) || (e.s1.oid.truthy && e.s1.changed.truthy)

/-- what C08 needs of the live indexes — exactly what C11 proves of every reachable state
    (`CS.State.live_index_ok`): the live id index returns exactly the entry that carries a string id,
    nothing under None, and every entry with a change stamp on a side that has a (truthy) id is pending.
    (The converse of the last clause is false of live states: C11's open finding
    `pending-flag-without-id`, here `pending_set_after_reload_narrower`.) -/
structure LiveIndexOK (st : St) : Prop where
  sound : ∀ (sd : Sd) (s : String) (i : Nat), lookupOid st sd (.str s) = some i →
    ∃ e, st.ents[i]? = some e ∧ (e.side sd).oid = .str s
  complete : ∀ (sd : Sd) (s : String) (i : Nat) (e : Entry), st.ents[i]? = some e → (e.side sd).oid = .str s →
    lookupOid st sd (.str s) = some i
  none_absent : ∀ (sd : Sd), lookupOid st sd .nil = none
  pending : ∀ (i : Nat) (e : Entry), st.ents[i]? = some e → e.pendingTruthy = true → i ∈ st.changeset

theorem not_trash_of_pendingOnLoad (e : Entry) (h : e.pendingOnLoad = true) : e.isTrash = false := by
  cases ht : e.isTrash
  · rfl
  · simp [Entry.pendingOnLoad, Entry.isTrash] at h ht; simp [ht.1, ht.2] at h

/-- **The pending set after a reload, exactly** (no hypothesis on the live indexes): on exact storage
    with representable entries, the rows that are pending in the rebuilt state are precisely the rows of
    the live entries that carry a change stamp on a side that has an id. -/
theorem reload_pending_exact (st : St) (hex : Exact st) (hsil : st.silent = [])
    (hrep : ∀ (i : Nat) (e : Entry), st.ents[i]? = some e → e.isTrash = false → e.Rep ∧ e.MtimeOk) (k : Nat) :
    (∃ (j : Nat) (e' : Entry), j ∈ (reload st.store).changeset ∧ (reload st.store).ents[j]? = some e' ∧ e'.storageId = some k) ↔
    (∃ (i : Nat) (e : Entry), st.ents[i]? = some e ∧ e.storageId = some k ∧ e.pendingOnLoad = true) := by
  constructor
  · rintro ⟨j, e', hjc, hje, hk'⟩
    obtain ⟨e'', hje', hp⟩ := (reload_pending_spec st.store j).1 hjc
    rw [hje] at hje'; injection hje' with hje'; subst hje'
    have hmem : e' ∈ loadedEntries (rowsOf st.store) := by
      rw [← reload_ents]; exact List.mem_of_getElem? hje
    obtain ⟨k0, row, hrow, hd⟩ := (mem_loadedEntries _ _).1 hmem
    obtain ⟨i, e, hei, ht, hk, heq⟩ := exact_row_decodes st hex hsil hrep k0 row e' hrow hd
    subst heq
    have : k0 = k := by simpa [Entry.reloaded] using hk'
    subst this
    rw [reloaded_pending] at hp
    exact ⟨i, e, hei, hk, hp⟩
  · rintro ⟨i, e, hei, hk, hp⟩
    obtain ⟨k0, j, hk0, hj⟩ := exact_entry_reloaded st hex hsil hrep i e hei (not_trash_of_pendingOnLoad e hp)
    rw [hk] at hk0; injection hk0 with hk0; subst hk0
    exact ⟨j, e.reloaded k, (reload_pending_spec st.store j).2 ⟨_, hj, by rw [reloaded_pending]; exact hp⟩, hj, rfl⟩

/-- **Reload equivalence — what is true.**  On exact storage, with representable entries and the live
    index facts C11 proves (`LiveIndexOK`):
    (1) for every side and every key that is None or a string, the state rebuilt from storage answers
        `lookup_oid` with the reloaded image of exactly the entry the live state answers with (nothing if
        the live state has nothing);
    (2) the pending set of the rebuilt state is *narrower or equal*: a row is pending after the reload iff
        its live entry carries a change stamp on a side that has an id (`reload_pending_exact`), and every
        such entry whose stamped side's id is truthy is pending in the live state as well.
    The live pending set can be strictly wider — entries whose stamped sides all lack an id (and trash
    entries, which have no row): `pending_set_after_reload_narrower`. -/
theorem reload_equiv (st : St) (hex : Exact st) (hsil : st.silent = [])
    (hrep : ∀ (i : Nat) (e : Entry), st.ents[i]? = some e → e.isTrash = false → e.Rep ∧ e.MtimeOk)
    (hix : LiveIndexOK st) :
    (∀ (sd : Sd) (key : Val), (key = .nil ∨ ∃ s, key = .str s) →
      (lookupOid (reload st.store) sd key).bind (fun j => (reload st.store).ents[j]?) =
      (lookupOid st sd key).bind (fun i => (st.ents[i]?).bind (fun e => e.storageId.map e.reloaded))) ∧
    (∀ k : Nat,
      (∃ (j : Nat) (e' : Entry), j ∈ (reload st.store).changeset ∧ (reload st.store).ents[j]? = some e' ∧ e'.storageId = some k) →
      ∃ (i : Nat) (e : Entry), st.ents[i]? = some e ∧ e.storageId = some k ∧ e.pendingOnLoad = true ∧
        (e.pendingTruthy = true → i ∈ st.changeset)) := by
  constructor
  · intro sd key hkey
    rcases hkey with hkey | ⟨s, hkey⟩
    · subst hkey
      rw [(reload_none_key_absent st.store sd false).1, hix.none_absent sd]; rfl
    · subst hkey
      obtain ⟨h1, h2⟩ := reload_equiv_entries st hex hsil hrep sd s
      cases hl : lookupOid st sd (.str s) with
      | none =>
        cases hr : lookupOid (reload st.store) sd (.str s) with
        | none => rfl
        | some j =>
          obtain ⟨i, e, k, hei, _, _, ho, _⟩ := h1 j hr
          rw [hix.complete sd s i e hei ho] at hl; cases hl
      | some i =>
        obtain ⟨e, hei, ho⟩ := hix.sound sd s i hl
        obtain ⟨j, hj⟩ := h2 i e hei (not_trash_of_oid e sd s ho) ho
        obtain ⟨i', e', k, hei', _, hk, ho', hje⟩ := h1 j hj
        have := hix.complete sd s i' e' hei' ho'
        rw [hl] at this; injection this with this; subst this
        rw [hei] at hei'; injection hei' with hei'; subst hei'
        simp [hj, hje, hei, hk]
  · intro k hr
    obtain ⟨i, e, hei, hk, hp⟩ := (reload_pending_exact st hex hsil hrep k).1 hr
    exact ⟨i, e, hei, hk, hp, fun ht => hix.pending i e hei ht⟩

/-- when every id is None or truthy (no `''`, `0`, `b''` … used as an id) the two stamps coincide, so
    every row that is pending after the reload is pending in the live state -/
theorem reload_pending_subset (st : St) (hex : Exact st) (hsil : st.silent = [])
    (hrep : ∀ (i : Nat) (e : Entry), st.ents[i]? = some e → e.isTrash = false → e.Rep ∧ e.MtimeOk)
    (hix : LiveIndexOK st)
    (hids : ∀ (i : Nat) (e : Entry) (sd : Sd), st.ents[i]? = some e → (e.side sd).oid.isNone = false → (e.side sd).oid.truthy = true)
    (k : Nat)
    (hr : ∃ (j : Nat) (e' : Entry), j ∈ (reload st.store).changeset ∧ (reload st.store).ents[j]? = some e' ∧ e'.storageId = some k) :
    ∃ (i : Nat) (e : Entry), i ∈ st.changeset ∧ st.ents[i]? = some e ∧ e.storageId = some k := by
  obtain ⟨i, e, hei, hk, hp, hc⟩ := (reload_equiv st hex hsil hrep hix).2 k hr
  refine ⟨i, e, hc ?_, hei, hk⟩
  have h0 := hids i e false hei
  have h1 := hids i e true hei
  simp only [Entry.side] at h0 h1
  simp only [Entry.pendingOnLoad, Bool.or_eq_true, Bool.and_eq_true, Bool.not_eq_true'] at hp
  simp only [Entry.pendingTruthy, Bool.or_eq_true, Bool.and_eq_true]
  rcases hp with ⟨a, b⟩ | ⟨a, b⟩
  · exact Or.inl ⟨h0 a, b⟩
  · exact Or.inr ⟨h1 a, b⟩

/-- **the live pending set is not contained in the reloaded one** (kernel-checked; open finding
    `pending-set-after-reload-narrower`, root cause C11's `pending-flag-without-id`): a change stamp on
    an id-less side, then the *other* side gets an id — `_change_oid` makes the entry pending because
    "a side is stamped", the loader (and `updated(key="changed")`) only count stamps on sides that have
    an id.  The entry is live, stored, pending before the reload and not after it. -/
def narrowerOps : List Op :=
  [ .new .file, .write (.side 0 false (.plain .changed (.val (.int 5)))), wOid 0 true (.str "b"), .commit ]

theorem pending_set_after_reload_narrower :
    let st := run (St.init (.sqlite [])) narrowerOps
    st.dirty = [] ∧ st.silent = [] ∧ (st.ents.map Entry.isTrash) = [false] ∧ (rowsOf st.store).map (·.1) = [1] ∧
    st.changeset = [0] ∧ (reload st.store).changeset = [] ∧ (reload st.store).ents.length = 1 ∧
    (st.ents.map Entry.pendingOnLoad) = [false] := by decide

/-- the repaired findings on their exact replays (kernel-checked): after the reload nothing answers
    to None, and a change stamp on an id-less side is not pending -/
def noneKeyOps : List Op := [ .new .file, wOid 0 false (.str "a"), .commit ]

theorem reload_none_key_replay :
    let st := run (St.init (.sqlite [])) noneKeyOps
    st.dirty = [] ∧ lookupOid st true .nil = none ∧ lookupPath st true .nil true = [] ∧
    lookupOid (reload st.store) true .nil = none ∧ lookupPath (reload st.store) true .nil true = [] ∧
    lookupPath (reload st.store) false .nil false = [] ∧ lookupOid (reload st.store) false (.str "a") = some 0 := by decide

def pendingOps : List Op :=
  [ .new .file, wOid 0 false (.str "a"), .write (.side 0 true (.plain .changed (.val (.int 5)))), .commit ]

theorem reload_pending_replay :
    let st := run (St.init (.sqlite [])) pendingOps
    st.dirty = [] ∧ st.silent = [] ∧ st.changeset = [] ∧ (reload st.store).changeset = [] := by decide

/-! ### event intake -/

theorem commit_ok_clears_dirty (a : St) (h : (step a .commit).1 = .ok ()) : (step a .commit).2.dirty = [] := by
  have he : step a .commit = storageCommit a := rfl
  rw [he] at h ⊢
  rw [storageCommit_eq] at h ⊢
  rcases hm : forEach a.dirty storageUpdate a with ⟨r | r, s'⟩
  · simp only [hm] at h; cases h
  · rfl

/-- **Every event-intake step ends with an empty dirty set**: whatever mixture of walk events
    (`from_walk = True`: start-up walk or `CloudSync.walk()`) and provider events is delivered, if the
    step returns normally and the dirty set was empty before it, nothing is left waiting — each event is
    committed on its own, walk events included. -/
theorem intake_step_commits (evs : List IntakeEvent) : ∀ (st : St), st.dirty = [] →
    (intakeStep st evs).1 = .ok () → (intakeStep st evs).2.dirty = [] := by
  induction evs with
  | nil => intro st hd _; exact hd
  | cons ev rest ih =>
    intro st hd hok
    simp only [intakeStep] at hok ⊢
    rcases hp : processEvent st ev with ⟨r | r, st'⟩
    · simp only [hp] at hok; cases hok
    · simp only [hp] at hok ⊢
      have hc : (step (run st ev.writes) .commit).1 = .ok () := by
        have : processEvent st ev = step (run st ev.writes) .commit := rfl
        rw [this] at hp; rw [hp]
      have hd' := commit_ok_clears_dirty _ hc
      have : processEvent st ev = step (run st ev.writes) .commit := rfl
      rw [this] at hp
      rw [hp] at hd'
      exact ih st' hd' hok

/-- … and, from an empty database, storage is exact after it (intake steps are runs of the operation
    language: `commit_makes_storage_exact` applies to them) -/
theorem intake_step_exact (ops : List Op) (evs : List IntakeEvent) :
    let st := run (St.init (.sqlite [])) ops
    st.dirty = [] → (intakeStep st evs).1 = .ok () → Exact (intakeStep st evs).2 := by
  intro st hd hok
  have hinv : ∀ (evs : List IntakeEvent) (a : St), Inv a → Inv (intakeStep a evs).2 := by
    intro evs
    induction evs with
    | nil => intro a h; exact h
    | cons ev rest ih =>
      intro a h
      simp only [intakeStep]
      have h1 : Inv (processEvent a ev).2 := Inv_step _ .commit (Inv_run ev.writes a h)
      rcases hp : processEvent a ev with ⟨r | r, a'⟩
      · simp only [hp] at h1 ⊢; exact h1
      · simp only [hp] at h1 ⊢; exact ih a' h1
  exact exact_of_inv _ (hinv evs st (persistence_invariant ops)) (intake_step_commits evs st hd hok)

instance : DecidableEq (Except HErr Unit) := fun a b =>
  match a, b with
  | .ok (), .ok () => isTrue rfl
  | .error x, .error y => if h : x = y then isTrue (by rw [h]) else isFalse (fun c => h (by injection c))
  | .ok (), .error _ => isFalse (fun c => by cases c)
  | .error _, .ok () => isFalse (fun c => by cases c)

def exampleOps : List Op :=
  [ .new .dir, wOid 0 false (.str "d"), .write (.side 0 false (.plain .path (.val (.str "/a")))),
    .new .file, wOid 1 false (.str "f"), .write (.side 1 false (.plain .path (.val (.str "/a/f")))),
    .write (.side 1 false (.plain .hash (.val (.bin "00ff")))), .commit,
    .new .file, wOid 2 true (.str "x"), .commit, wOid 2 true .nil, .commit,
    .write (.side 0 false (.plain .path (.val (.str "/b")))) ]

def exampleFinal : Except HErr Unit × St := step (run (St.init (.sqlite [])) exampleOps) .commit

/-- the hypotheses of `commit_makes_storage_exact` and `reload_equiv_entries` are satisfiable by a
    non-trivial run: two entries, a folder rename that drags a child along, an entry that becomes
    trash and loses its row, commits in between; the final commit returns normally, nothing is
    silently changed, two rows are stored, and the reload finds the child -/
example :
    exampleFinal.1 = .ok () ∧ exampleFinal.2.silent = [] ∧
    (exampleFinal.2.ents.map fun e => e.s0.path) = [.str "/b", .str "/b/f", .nil] ∧
    (exampleFinal.2.ents.map Entry.storageId) = [some 1, some 2, none] ∧
    (rowsOf exampleFinal.2.store).map (·.1) = [1, 2] ∧
    lookupOid (reload exampleFinal.2.store) false (.str "f") = some 1 := by decide +kernel

end CS.Persist
