import Csverif.Props.C08
import Csverif.Props.C11
/-
C08 × C11: the live-index hypothesis of `CS.Persist.reload_equiv` discharged from C11's `IndexInv`.

The two layers model the same `SyncState` independently (C11: Model/State.lean, typed ids/paths, a clock, no storage;
C08: Model/Codec.lean `CS.Persist`, arbitrary Python values, storage ids, storage).  What is proved here is the transport:
whenever a C08 state `st` and a C11 state `t` *agree* on what both have (same entries by index; ids that are None or strings
and equal; the same truthiness of the change stamps; the same answers of the id index; C11's pending entries pending in `st`),
C11's invariant on `t` gives `LiveIndexOK st`, hence `reload_equiv` with no index hypothesis on `st`.

NOT proved: that the states the two models reach by the same operations agree (a simulation between the two hook
transcriptions).  What blocks a cheap proof: the models differ in value domain and dict-key equality (`Val` with Python's
`1 == True` vs `Option Str`), in the recursion fuel convention, in the order of ghost/dirty bookkeeping, and C11's operations
(`update`, `split`, `__setitem__`, clock) have no counterpart here while commits/storage ids have none there; both are tied to
the same real `SyncState` by differential execution (harness/c08_codec.py, harness/c11_state.py), not to each other.
-/
namespace CS.Persist
open CS.Codec

def trSd : Sd → CS.State.Sd
  | false => .L
  | true => .R

/-- ids both models can express: None and strings -/
def trOid : Val → Option CS.State.Oid
  | .nil => some none
  | .str s => some (some s.toList)
  | _ => none

/-- the two states agree on what both models have -/
structure Agree (st : St) (t : CS.State.St) : Prop where
  len : t.ents.length = st.ents.length
  oid : ∀ (i : Nat) (sd : Sd) (e : Entry), st.ents[i]? = some e → trOid (e.side sd).oid = some (t.side i (trSd sd)).oid
  changed : ∀ (i : Nat) (sd : Sd) (e : Entry), st.ents[i]? = some e →
    (e.side sd).changed.truthy = (t.side i (trSd sd)).changed.truthy
  lookup : ∀ (sd : Sd) (k : Val) (k' : CS.State.Oid), trOid k = some k' → lookupOid st sd k = t.lookupOid (trSd sd) k'
  pending : ∀ i, i ∈ t.cs → i ∈ st.changeset

theorem trOid_str {v : Val} {l : List Char} (h : trOid v = some (some l)) : v = .str (String.ofList l) := by
  cases v <;> simp [trOid] at h
  subst h; simp

theorem truthy_of_trOid {v : Val} {k : CS.State.Oid} (h : trOid v = some k) (ht : v.truthy = true) : CS.State.truthyS k = true := by
  cases v <;> simp [trOid] at h
  · subst h; simp [Val.truthy] at ht
  · subst h
    rename_i s
    simp only [Val.truthy, bne_iff_ne, ne_eq] at ht
    cases hl : s.toList with
    | nil => exact absurd (by rw [← String.ofList_toList (s := s), hl]) ht
    | cons c r => simp [CS.State.truthyS]

/-- C11's invariant, transported: the live-index facts `reload_equiv` needs -/
theorem liveIndexOK_of_c11 (st : St) (t : CS.State.St) (hi : CS.State.IndexInv t) (hag : Agree st t) : LiveIndexOK st := by
  obtain ⟨hs, hc, hn, hp⟩ := CS.State.live_index_ok t hi
  refine ⟨?_, ?_, ?_, ?_⟩
  · intro sd s i hl
    rw [hag.lookup sd (.str s) (some s.toList) rfl] at hl
    obtain ⟨hlt, ho⟩ := hs _ _ _ hl
    rw [hag.len] at hlt
    obtain ⟨e, he⟩ : ∃ e, st.ents[i]? = some e := ⟨st.ents[i], by simp [hlt]⟩
    refine ⟨e, he, ?_⟩
    have := hag.oid i sd e he
    rw [ho] at this
    rw [trOid_str this]; simp
  · intro sd s i e he ho
    have h1 := hag.oid i sd e he
    rw [ho] at h1
    simp only [trOid, Option.some.injEq] at h1
    have h2 := hc (trSd sd) i (by rw [← h1]; simp)
    rw [← h1] at h2
    rw [hag.lookup sd (.str s) (some s.toList) rfl]; exact h2
  · intro sd
    rw [hag.lookup sd .nil none rfl]; exact hn _
  · intro i e he hpt
    apply hag.pending
    apply hp
    simp only [Entry.pendingTruthy, Bool.or_eq_true, Bool.and_eq_true] at hpt
    rcases hpt with ⟨a, b⟩ | ⟨a, b⟩
    · refine ⟨.L, ?_, ?_⟩
      · have := hag.changed i false e he; simp only [trSd] at this; rw [← this]; exact b
      · exact truthy_of_trOid (hag.oid i false e he) a
    · refine ⟨.R, ?_, ?_⟩
      · have := hag.changed i true e he; simp only [trSd] at this; rw [← this]; exact b
      · exact truthy_of_trOid (hag.oid i true e he) a

/-- **`reload_equiv` with C11's invariant in place of the index hypothesis**: for a C08 state that agrees with a
    C11 state satisfying `IndexInv` (every state C11's operations reach under its guards: `CS.State.run_inv_init`) -/
theorem reload_equiv_c11 (st : St) (t : CS.State.St) (hi : CS.State.IndexInv t) (hag : Agree st t)
    (hex : Exact st) (hsil : st.silent = [])
    (hrep : ∀ (i : Nat) (e : Entry), st.ents[i]? = some e → e.isTrash = false → e.Rep ∧ e.MtimeOk) :
    (∀ (sd : Sd) (key : Val), (key = .nil ∨ ∃ s, key = .str s) →
      (lookupOid (reload st.store) sd key).bind (fun j => (reload st.store).ents[j]?) =
      (lookupOid st sd key).bind (fun i => (st.ents[i]?).bind (fun e => e.storageId.map e.reloaded))) ∧
    (∀ k : Nat,
      (∃ (j : Nat) (e' : Entry), j ∈ (reload st.store).changeset ∧ (reload st.store).ents[j]? = some e' ∧ e'.storageId = some k) →
      ∃ (i : Nat) (e : Entry), st.ents[i]? = some e ∧ e.storageId = some k ∧ e.pendingOnLoad = true ∧
        (e.pendingTruthy = true → i ∈ st.changeset)) :=
  reload_equiv st hex hsil hrep (liveIndexOK_of_c11 st t hi hag)

/-- the agreement is satisfiable non-trivially: the empty states, and a hand-checked pair after
    `new file; ent[LOCAL].oid = 'a'` on both models -/
example : Agree (St.init (.sqlite [])) CS.State.init :=
  ⟨rfl, fun i sd e h => by simp [St.init] at h, fun i sd e h => by simp [St.init] at h,
   fun sd k k' _ => by cases sd <;> rfl, fun i h => by simp [CS.State.init] at h⟩

end CS.Persist
