import Csverif.Gen.PuntSites
import Csverif.Props.C17Punt
/-
C17 — the tie between the source and the audited `except`-clause tables of Model/SchedSites.lean.
`Gen/PuntSites.lean` is regenerated from the source tree by tools/gen_punt_sites.py on every run of the check; this module
is rebuilt then (it is deliberately NOT imported by Csverif.lean: a change of the source must break only this obligation,
not the build of the library).  If a handler of `_sync_one_entry` / `do` / `sync` changes its classes, their order, or what
its body reaches (punt / finished / backoff / raise), or any `except` clause anywhere in `SyncManager` is added, removed,
reordered or rewritten, `decide` fails here and the check searches for a failing input (the starvation family).
-/
namespace CS.SchedSites
open CS.Gen CS.Faults CS.SchedLoop

/-- the generated tables are exactly the audited ones -/
theorem gen_table_eq_audited :
    PuntSites.syncOneEntry = auditedSyncOneEntry ∧ PuntSites.doClauses = auditedDo ∧
    PuntSites.syncClauses = auditedSync ∧ PuntSites.syncCalledPlain = auditedSyncCalledPlain ∧
    PuntSites.sites = auditedSites ∧ PuntSites.unmapped = 0 := by decide +kernel

/-- checked on the generated table itself: every `Exception` the sync work can raise lands in a clause that punts -/
theorem gen_every_exception_punts :
    ∀ e ∈ Exc.all, isSub e .exception_ = true →
      ∃ c, catches PuntSites.syncOneEntry e = some c ∧ c.punts = true ∧ c.finishes = false := by decide

/-- the hypothesis of `loop_no_starvation_failures`, discharged for the source as it is -/
theorem gen_progress : ProgressOnFailure PuntSites.syncOneEntry :=
  progressOnFailure_of_all _ (by decide)

/-- the generated `prioritize`-site tables are exactly the audited ones -/
theorem gen_prio_sites_eq_audited :
    PuntSites.prioChangePath = auditedPrioChangePath ∧
    PuntSites.prioChangeOid = auditedPrioChangeOid ∧
    PuntSites.prioUpdate = auditedPrioUpdate ∧
    PuntSites.prioUpdateEntry = auditedPrioUpdateEntry ∧
    PuntSites.prioUpdateKids = auditedPrioUpdateKids ∧
    PuntSites.prioUpdateKidsOf = auditedPrioUpdateKidsOf ∧
    PuntSites.prioGetLatest = auditedPrioGetLatest ∧
    PuntSites.prioSplit = auditedPrioSplit ∧
    PuntSites.prioSetItem = auditedPrioSetItem ∧
    PuntSites.prioPunt = auditedPrioPunt ∧
    PuntSites.prioFinished = auditedPrioFinished := by decide +kernel

/-- in `_change_path` the priority refresh is reached on every path that changes the path: the only `return` before the
    `prioritize(` call is the one for an unchanged path, the call and the write are guarded by `if path:` only, and the
    kids are updated (each through `_change_path` again) before it -/
theorem gen_change_path_always_reprioritises :
    returnsBeforePrioritize PuntSites.prioChangePath = [["prior_path == path"]] ∧
    (PuntSites.prioChangePath.filter (fun i => i.kind == "prioritize")).map (·.guards) = [["path"]] ∧
    (PuntSites.prioUpdateKidsOf.filter (fun i => i.kind == "continue")).map (·.guards.length) = [3] := by decide +kernel

end CS.SchedSites
