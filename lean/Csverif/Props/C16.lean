import Csverif.Proofs.MockRun
import Csverif.Proofs.FsHash
/-
C16 — offline-runnable providers honour the provider contract.
Models: Model/Tree.lean (reference tree), Model/MockFS.lean (providers/mock.py, Provider.connect),
Model/FsHash.lean (FileSystemProvider hash functions).
-/
set_option linter.unusedVariables false
set_option linter.unusedSectionVars false

/-! ## Filesystem provider: data hash = file hash, for every length -/
namespace CS.FsHash
variable {B Hh : Type}

/-- `hash_data(bytes)` is the hash `info` reports for a file holding exactly those bytes (fresh or
    cleared cache entry — `create` and `upload` clear it), for every length, the 1024 and 2048
    boundaries included: both are the full digest. -/
theorem fs_hash_agree [DecidableEq Hh] (D : List B → Hh) (mtime : Nat) (bs : List B) :
    hashData D bs = (fastHashPath D CacheEnt.fresh mtime bs).2 := by
  rw [hashData_eq_digest, fastHashPath_fresh]

/-- a second look at the same file (same mtime, same bytes) answers from the cache with the same hash -/
theorem fs_hash_agree_cached [DecidableEq Hh] (D : List B → Hh) (mtime : Nat) (bs : List B) :
    (fastHashPath D (fastHashPath D CacheEnt.fresh mtime bs).1 mtime bs).2 = hashData D bs := by
  rw [hashData_eq_digest]
  simp only [fastHashPath, CacheEnt.fresh, fastHashData_final, fastHashData_fst]
  by_cases h : bs.length ≤ 1024
  · simp [h, fastInput_short bs (by omega)]
  · simp [h]

/-- equal bytes ⇔ equal hashes, given a collision-free digest (hypothesis, not axiom) -/
theorem fs_hash_data_injective (D : List B → Hh) (hD : Function.Injective D) (a b : List B) :
    hashData D a = hashData D b ↔ a = b := by
  rw [hashData_eq_digest, hashData_eq_digest]
  exact ⟨fun h => hD h, fun h => by rw [h]⟩

/-- What the code did before commit 231899d (`return self._fast_hash_data(file_like)[0]`): it agreed with
    the file hash exactly up to 2048 bytes. -/
theorem fs_hash_old_agree_iff_le_2048 [DecidableEq Hh] (D : List B → Hh) (hD : Function.Injective D)
    (mtime : Nat) (bs : List B) :
    hashDataOld D bs = (fastHashPath D CacheEnt.fresh mtime bs).2 ↔ bs.length ≤ 2048 := by
  rw [fastHashPath_fresh, hashDataOld, fastHashData_fst]
  constructor
  · intro h
    have := hD h
    by_cases hl : bs.length ≤ 2048
    · exact hl
    · have h2 := fastInput_length_long bs (by omega)
      rw [this] at h2
      omega
  · intro h
    rw [fastInput_short bs h]

/-- kernel-checked witness for the pre-fix code at 2049 bytes (identity digest) -/
theorem fs_hash_old_witness_2049 :
    hashDataOld (id : List Nat → List Nat) (List.replicate 2049 0) ≠
      (fastHashPath id CacheEnt.fresh 0 (List.replicate 2049 0)).2 := by
  intro h
  have := (fs_hash_old_agree_iff_le_2048 (id : List Nat → List Nat) (fun _ _ h => h) 0 (List.replicate 2049 0)).1 h
  rw [List.length_replicate] at this
  omega

example : hashData (id : List Nat → List Nat) [1, 2, 3] = [1, 2, 3] := by decide

end CS.FsHash

/-! ## Filesystem provider: integer cursors -/
namespace CS.FsCursor

/-- `current_cursor = k` for any int `0 ≤ k ≤ latest` then a drain: exactly the stamps `k+1 … latest` -/
theorem fs_rewind_replays_suffix (s : St) (k : Nat) (hk : k ≤ s.latest) :
    (setCursor s (.int k)).2 = .ok ∧
    (drain (setCursor s (.int k)).1).2 = (List.range (s.latest - k)).map (fun i => k + i + 1) ∧
    (drain (setCursor s (.int k)).1).2.length = s.latest - k ∧
    (drain (setCursor s (.int k)).1).1.cursor = s.latest := by
  have h1 : ¬ k > s.latest + 1 := by omega
  simp [setCursor, h1, drain, Nat.max_eq_right hk]

/-- the setter's other branches: `latest + 1` is accepted (nothing to drain), beyond that and non-ints are
    CloudCursorError and change nothing, `None` jumps to the latest cursor -/
theorem fs_setCursor_branches (s : St) :
    (setCursor s (.int (s.latest + 1))).2 = .ok ∧ (drain (setCursor s (.int (s.latest + 1))).1).2 = [] ∧
    (∀ k, k > s.latest + 1 → setCursor s (.int k) = (s, .cursorErr)) ∧
    setCursor s .other = (s, .cursorErr) ∧
    (setCursor s .none).1.cursor = s.latest ∧ (drain (setCursor s .none).1).2 = [] := by
  refine ⟨by simp [setCursor], by simp [setCursor, drain], ?_, rfl, rfl, by simp [setCursor, drain]⟩
  intro k hk
  simp [setCursor, hk]

example : (drain (setCursor { cursor := 3, latest := 3 } (.int 0)).1).2 = [1, 2, 3] := by decide

end CS.FsCursor

/-! ## Reference tree: a rename onto an occupied name is refused or replaces only an empty folder -/
namespace CS.Tree
variable {C : Type}

/-- **rename_never_destroys_other_bytes** — for every tree (a map: distinct keys), every target, every destination and
    whatever the outcome: each file of the tree is still a file with the same content after `rename` (at its own key or
    at the key it moved to).  Together with `rename_refused_changes_nothing` this is the clause the filesystem provider
    and the mock are compared against: a rename onto an occupied name is refused with Exists — or replaces an *empty
    folder*, the only entry `rename` ever removes — and never costs another object its bytes. -/
theorem rename_never_destroys_other_bytes (cfg : Cfg) (t : T C) (hn : (t.map (·.1)).Nodup) (tg : Option Path) (dst : Path)
    (k : Path) (n : Node C) (hk : (k, n) ∈ t) (hfile : n.kind = .file) :
    ∃ k' n', (k', n') ∈ (rename cfg t tg dst).1 ∧ n'.kind = .file ∧ n'.content = n.content :=
  rename_keeps_every_file cfg t hn tg dst k n hk hfile

/-- a refused rename changes nothing -/
theorem rename_refused_is_noop (cfg : Cfg) (t : T C) (tg : Option Path) (dst : Path) (e : Err)
    (h : (rename cfg t tg dst).2 = .err e) : (rename cfg t tg dst).1 = t :=
  rename_refused_changes_nothing cfg t tg dst e h

end CS.Tree

/-! ## Provider.connect: credentials of another identity are refused -/
namespace CS.Conn
variable {Cr : Type}

/-- provider.py:141-156.  Once an identity is established (a non-empty `connection_id`), connecting with
    credentials that log in as a different identity raises CloudTokenError, leaves the provider
    disconnected and keeps the established identity. -/
theorem connect_rejects_other_identity (impl : Option Cr → Option String) (s : St Cr) (creds : Option Cr)
    (i j : String) (hi : s.connId = some i) (hne : i ≠ "") (hj : impl creds = some j) (hij : j ≠ i) :
    (connect impl s creds).2 = .tokenError ∧
    isConnected (connect impl s creds).1 = false ∧
    (connect impl s creds).1.connId = some i := by
  have h1 : idSet (some i) = true := by simp [idSet, hne]
  have h2 : (some i != some j) = true := by
    simp only [bne_iff_ne, ne_eq, Option.some.injEq]; exact fun h => hij h.symm
  simp [connect, hj, hi, h1, h2, isConnected]

/-- the established identity never changes, whatever is called afterwards -/
theorem connect_identity_stable (impl : Option Cr → Option String) (ops : List (Op Cr)) (s : St Cr) (i : String)
    (hi : s.connId = some i) (hne : i ≠ "") : (run impl s ops).connId = some i := by
  induction ops generalizing s with
  | nil => exact hi
  | cons op ops ih =>
    simp only [run]
    apply ih
    have hset : idSet (some i) = true := by simp [idSet, hne]
    have hconn : ∀ cr, (connect impl s cr).1.connId = some i := by
      intro cr
      simp only [connect, hi, hset, if_true]
      cases impl cr with
      | none => simp [hi]
      | some newId => simp only; split <;> simp [hi]
    cases op with
    | connect cr => exact hconn cr
    | disconnect => simpa [step, disconnect] using hi
    | reconnect =>
      simp only [step, reconnect]
      split
      · exact hi
      · exact hconn _

/-- a successful connect leaves the provider connected as exactly the identity the credentials belong to -/
theorem connect_ok_identity (impl : Option Cr → Option String) (s : St Cr) (creds : Option Cr)
    (h : (connect impl s creds).2 = .ok) :
    ∃ j, impl creds = some j ∧ isConnected (connect impl s creds).1 = true ∧
      (idSet s.connId = true → s.connId = some j) := by
  simp only [connect] at h ⊢
  cases hi : impl creds with
  | none => simp [hi] at h
  | some j =>
    refine ⟨j, rfl, ?_, ?_⟩
    · simp only [hi] at h ⊢
      split
      · split
        · rename_i h1 h2; simp [h1, h2] at h
        · simp only [isConnected, Bool.and_true]
          cases hc : s.connId with
          | none => rename_i h1 _; simp [hc, idSet] at h1
          | some _ => rfl
      · simp [isConnected]
    · intro hs
      simp only [hi, hs, if_true] at h
      split at h
      · cases h
      · rename_i hne; simpa using hne

/-- quirk kept by the model: the empty string is falsy in Python, so an identity "" is never
    protected — a provider whose connect_impl returns "" accepts any later identity -/
theorem connect_empty_identity_not_protected :
    let impl : Option String → Option String := fun c => c
    let s1 := (connect impl (init : St String) (some "")).1
    (connect impl s1 (some "bob")).2 = .ok ∧ (connect impl s1 (some "bob")).1.connId = some "bob" := by
  decide

example : (connect (fun c => c) (init : St String) (some "alice")).1.connId = some "alice" := by decide

end CS.Conn

namespace CS.MockFS
open CS.Path
open CS.Tree (Kind Err)
variable {C H : Type}

/-! ## Mock provider: hash reported for a file = hash of the same bytes by the data-hash function -/

/-- whatever `download` hands back, `info_oid` and `hash_oid` report the hash that `hash_data`
    computes from exactly those bytes -/
theorem hash_info_eq_hash_data (c : Cfg) (fl : Flavour) (hc : HashCfg C H) (s : St C) (oid : Str) (x : C)
    (hd : (step c fl hc s (.download oid)).2 = .data x) :
    (∃ i, (step c fl hc s (.infoOid oid)).2 = .info i ∧ i.hash = some (hc.hashOf x) ∧ i.size = hc.sizeOf x) ∧
    (step c fl hc s (.hashOid oid)).2 = .hash (some (hc.hashOf x)) ∧
    (step c fl hc s (.hashData x)).2 = .hash (some (hc.hashOf x)) := by
  cases hg : getObj s oid with
  | none => simp [step, download, hg] at hd
  | some ho =>
    obtain ⟨h, o⟩ := ho
    simp only [step, download, hg] at hd
    cases hl : o.live with
    | false => simp [hl] at hd
    | true =>
      simp only [hl, Bool.not_true, Bool.false_eq_true, if_false] at hd
      cases hk : o.kind with
      | dir => simp [hk] at hd
      | file =>
        cases hcn : o.contents with
        | none => simp [hk, hcn] at hd
        | some y =>
          simp only [hk, hcn, Res.data.injEq] at hd
          subst hd
          refine ⟨⟨infoOfObj c hc o, ?_, ?_, ?_⟩, ?_, rfl⟩
          · simp [step, liveObj, hg, hl]
          · simp [infoOfObj, objHash, hk, hcn]
          · simp [infoOfObj, objSize, hcn]
          · simp [step, liveObj, hg, hl, objHash, hk, hcn]

/-- equal bytes ⇔ equal hashes for the mock's data hash, given an injective `_hash_func` -/
theorem hash_data_injective (c : Cfg) (fl : Flavour) (hc : HashCfg C H) (hinj : Function.Injective hc.hashOf)
    (s : St C) (x y : C) :
    (step c fl hc s (.hashData x)).2 = (step c fl hc s (.hashData y)).2 ↔ x = y := by
  simp only [step, Res.hash.injEq, Option.some.injEq]
  exact ⟨fun h => hinj h, fun h => by rw [h]⟩

/-! ## Mock provider: every successful mutation is eventually an event -/

/-- the log is append-only over every call sequence -/
theorem event_log_append_only (c : Cfg) (fl : Flavour) (hc : HashCfg C H) (ops : List (Op C)) (s : St C) :
    ∃ t, (run c fl hc s ops).1.events = s.events ++ t := by
  induction ops generalizing s with
  | nil => exact ⟨[], by simp [run]⟩
  | cons op ops ih =>
    simp only [run]
    obtain ⟨t1, h1⟩ := step_ext c fl hc s op
    obtain ⟨t2, h2⟩ := ih (step c fl hc s op).1
    exact ⟨t1 ++ t2, by rw [h2, h1]; simp⟩

/-- draining `events()` from a cursor yields exactly the log entries from that cursor on, in log
    order, each stamped with its own index, and moves the cursor to the end -/
theorem drain_yields_all_from_cursor (fl : Flavour) (s : St C) :
    (drain fl s).2 = ((s.events.drop s.cursor).zipIdx s.cursor).map (fun (pe, i) => translateEvent fl pe i) ∧
    (drain fl s).1.cursor = max s.cursor s.events.length ∧
    (drain fl s).1.events = s.events := ⟨rfl, rfl, rfl⟩

/-- the k-th log entry is delivered by a drain from any cursor at or before it -/
theorem drain_delivers (fl : Flavour) (s : St C) (k : Nat) (pe : MEv) (hk : s.cursor ≤ k)
    (hpe : s.events[k]? = some pe) : translateEvent fl pe k ∈ (drain fl s).2 := by
  simp only [drain, List.mem_map]
  refine ⟨(pe, k), ?_, rfl⟩
  rw [List.mem_zipIdx_iff_le_and_getElem?_sub]
  refine ⟨hk, ?_⟩
  rw [List.getElem?_drop]
  have : s.cursor + (k - s.cursor) = k := by omega
  rw [this]; exact hpe

/-- nothing is delivered twice: a drain right after a drain is empty -/
theorem drain_twice_empty (fl : Flavour) (s : St C) : (drain fl (drain fl s).1).2 = [] := by
  simp only [drain, List.map_eq_nil_iff]
  have : s.events.length ≤ max s.cursor s.events.length := Nat.le_max_right _ _
  simp [List.drop_eq_nil_of_le this]

/-- `_translate_event`: id and existence flag of the delivered event are those of the log entry
    (default flavours: no oid-less folder trash events) -/
theorem translateEvent_id_exists (fl : Flavour) (hno : fl.oidlessTrash = false) (pe : MEv) (k : Nat) :
    (translateEvent fl pe k).oid = some pe.oid ∧ (translateEvent fl pe k).live = !pe.trashed ∧
    (translateEvent fl pe k).prior = pe.prior ∧ (translateEvent fl pe k).cursor = k := by
  simp [translateEvent, hno]


/-! ## Mock provider refines the reference tree -/

/-- the path configuration of every mock flavour satisfies the hypotheses -/
theorem mkCfg_COk2 (cs : Bool) : COk2 (mkCfg cs false) where
  ok := ⟨by intro a ha; simp [mkCfg] at ha; subst ha; show '\\' ≠ '/'; decide, simpleLower_idem, simpleLower_eq_slash, rfl⟩
  sep := rfl
  lowerAlt := by
    intro a ha x hx
    simp [mkCfg] at ha hx
    subst ha
    exact (simpleLower_eq_backslash x).1 hx

/-- **mock_refines_tree** — for every call sequence, both id styles and both case modes, every operation
    (folder renames included: everything beneath the folder moves with it, an empty folder at the destination is
    replaced): every return value and error class of the mock is the reference tree's (`ResRel`: same kind / hash /
    size / path / name, same error class, listings equal as sets, returned id = path for path style), and after every
    call the live part of the object table, read through its path keys, *is* the tree (`Rel`), which stays well
    formed (`Tree.TWf`: every entry's parent is a directory entry).

    Hypotheses (`Guarded`, evaluated along the run): path arguments are clean; `delete` does not target the root;
    `rename` never targets the root, is handed an id (not a path) by id-style callers, and its destination does not lie
    strictly beneath its source (open finding mock-rename-into-own-subtree).  Path-style flavours additionally need
    case-folded names (`Clean`), which is vacuous when case sensitive; see `path_ci_*` below for what happens
    otherwise. -/
theorem mock_refines_tree {c : Cfg} (hc : COk2 c) (fl : Flavour) (hfs : c.sep ∉ fl.forbidden) (hcfg : HashCfg C H)
    (ops : List (Op C)) (hg : Guarded c fl hcfg (init c fl) ops) :
    Agree c fl hcfg (init c fl) (Tree.init : Tree.T C) ops :=
  (agree_of_inv hc hfs hcfg ops (init_inv_rel hc fl).1 (init_inv_rel hc fl).2 Tree.twf_init hg).1

/-- the object-table invariant holds in every reachable state -/
theorem reachable_inv {c : Cfg} (hc : COk2 c) (fl : Flavour) (hfs : c.sep ∉ fl.forbidden) (hcfg : HashCfg C H)
    (ops : List (Op C)) (hg : Guarded c fl hcfg (init c fl) ops) :
    Inv c fl (run c fl hcfg (init c fl) ops).1 :=
  (agree_of_inv hc hfs hcfg ops (init_inv_rel hc fl).1 (init_inv_rel hc fl).2 Tree.twf_init hg).2

/-! ## Object ids -/

/-- **oid_is_normalized_path** — path-style flavours: in every reachable state every object's id is its path,
    and that path is its own normal form -/
theorem oid_is_normalized_path {c : Cfg} (hc : COk2 c) (fl : Flavour) (hoip : fl.oip = true)
    (hfs : c.sep ∉ fl.forbidden) (hcfg : HashCfg C H)
    (ops : List (Op C)) (hg : Guarded c fl hcfg (init c fl) ops) (k : Str) (h : Nat) (o : Obj C)
    (hget : getObj (run c fl hcfg (init c fl) ops).1 k = some (h, o)) :
    o.oid = o.path ∧ o.oid = norm c o.path := by
  have hi := reachable_inv hc fl hfs hcfg ops hg
  have hho := (getObj_some.1 hget).2
  have h1 := hi.pathOid hoip h o hho
  exact ⟨h1, by rw [h1, norm_eq_self_of_oip hc (hi.clean h o hho) hoip]⟩

/-- id-style flavours: whatever `rename` returns on success is the id it was given (any object kind, any state) -/
theorem rename_returns_given_oid (c : Cfg) (fl : Flavour) (hcfg : HashCfg C H) (s : St C) (oid p x : Str)
    (hid : fl.oip = false) (h : (rename c fl hcfg s oid p).2 = .oid x) : x = oid := by
  cases hg : getObj s oid with
  | none => simp [rename, hg] at h
  | some ho =>
    obtain ⟨hh, o⟩ := ho
    simp only [rename, hg] at h
    split at h
    · cases h
    · split at h
      · cases h
      · split at h
        · cases h
        · split at h
          · simp only [Res.oid.injEq] at h; exact h.symm
          · split at h
            · cases h
            · simp only [renameFinish] at h
              split at h
              · cases h
              · rename_i o2 _
                split at h
                · cases h
                · split at h
                  · cases h
                  · rename_i hn2
                    simp only [Res.oid.injEq] at h
                    subst h
                    simpa [hid] using hn2

/-- **oid_stable_under_rename** — renaming a file or a folder (guarded call in a reachable state): the returned id
    is the given id for id-style flavours, and it resolves to a live object that now reports the new path -/
theorem oid_stable_under_rename {c : Cfg} (hc : COk2 c) {fl : Flavour} (hcfg : HashCfg C H) {s : St C} {t : Tree.T C}
    (hi : Inv c fl s) (hr : Rel c s t) (hw : Tree.TWf t) (oid p x : Str) (hok : OpOk c fl s (.rename oid p))
    (hres : (step c fl hcfg s (.rename oid p)).2 = .oid x) :
    (fl.oip = false → x = oid) ∧
    (∃ i, (step c fl hcfg (step c fl hcfg s (.rename oid p)).1 (.infoOid x)).2 = .info i ∧ i.oid = x ∧ i.path = p) := by
  refine ⟨fun hid => rename_returns_given_oid c fl hcfg s oid p x hid hres, ?_⟩
  obtain ⟨o', h1, h2, h3⟩ := (sim_rename hc hcfg hi hr hw oid p hok).1 x hres
  refine ⟨infoOfObj c hcfg o', ?_, h3, h2⟩
  show (match liveObj (rename c fl hcfg s oid p).1 x with
    | some ob => Res.info (infoOfObj c hcfg ob) | none => Res.none) = _
  rw [h1]

/-! ## info / listing / exists / download agree with each other -/

/-- **info_listing_exists_download_agree** (in every state satisfying the invariant, hence every reachable one):
    1. `exists_path` / `exists_oid` are exactly "`info_path` / `info_oid` is not None";
    2. what `info_oid` reports is what `info_path` reports for the reported path;
    3. every `listdir` entry is what `info_oid` reports for the entry's id and what `info_path` reports for its path;
    4. `download` succeeds exactly on what `info_oid` calls a file, and the hash matches (see `hash_info_eq_hash_data`). -/
theorem info_listing_exists_download_agree {c : Cfg} (hc : COk2 c) {fl : Flavour} (hcfg : HashCfg C H) {s : St C}
    (hi : Inv c fl s) :
    (∀ p, (step c fl hcfg s (.existsPath p)).2 = .bool (infoPath c s p).isSome ∧
          ((infoPath c s p).isSome = false ↔ (step c fl hcfg s (.infoPath p)).2 = .none)) ∧
    (∀ oid i, (step c fl hcfg s (.infoOid oid)).2 = .info i →
          (step c fl hcfg s (.infoPath i.path)).2 = .info i ∧ (step c fl hcfg s (.existsOid oid)).2 = .bool true) ∧
    (∀ oid l e, (step c fl hcfg s (.listdir oid)).2 = .list l → e ∈ l →
          (step c fl hcfg s (.infoOid e.oid)).2 = .info e ∧ (step c fl hcfg s (.infoPath e.path)).2 = .info e) ∧
    (∀ oid x, (step c fl hcfg s (.download oid)).2 = .data x →
          ∃ i, (step c fl hcfg s (.infoOid oid)).2 = .info i ∧ i.kind = .file ∧ i.hash = some (hcfg.hashOf x)) := by
  -- a live object is found again under its own path and its own id
  have hback : ∀ (h : Nat) (o : Obj C), s.heap[h]? = some o → o.live = true →
      infoPath c s o.path = some (h, o) ∧ liveObj s o.oid = some o := by
    intro h o hho hl
    constructor
    · rw [infoPath_eq]; exact pv_some.2 ⟨hi.filed h o hho hl, hho, hl⟩
    · rw [liveObj_eq, pv_some.2 ⟨hi.oidFiled h o hho hl, hho, hl⟩]; rfl
  refine ⟨?_, ?_, ?_, ?_⟩
  · intro p
    refine ⟨rfl, ?_⟩
    simp only [step]
    cases infoPath c s p with
    | none => simp
    | some ho => simp
  · intro oid i hinfo
    simp only [step, liveObj_eq] at hinfo ⊢
    cases hp : pv s oid with
    | none => rw [hp] at hinfo; cases hinfo
    | some ho =>
      obtain ⟨h, o⟩ := ho
      rw [hp] at hinfo
      simp only [Option.map_some, Res.info.injEq] at hinfo
      subst hinfo
      obtain ⟨_, h2, h3⟩ := pv_some.1 hp
      have := (hback h o h2 h3).1
      simp only [infoOfObj] at this ⊢
      rw [this]
      simp
  · intro oid l e hlist he
    simp only [step] at hlist
    cases hld : listdir c hcfg s oid with
    | none => rw [hld] at hlist; cases hlist
    | some l' =>
      rw [hld] at hlist
      simp only [Res.list.injEq] at hlist
      subst hlist
      unfold listdir at hld
      cases hg : getObj s oid with
      | none => rw [hg] at hld; cases hld
      | some hf =>
        obtain ⟨fh, f⟩ := hf
        rw [hg] at hld
        simp only at hld
        split at hld
        · simp only [Option.some.injEq] at hld
          subst hld
          obtain ⟨⟨h', o', nm⟩, hm, rfl⟩ := List.mem_map.1 he
          obtain ⟨_, hho', hl', hcn⟩ := mem_listHandles.1 hm
          have hfh := (getObj_some.1 hg).2
          have hclf := clean_C hc (hi.clean fh f hfh)
          have hclo := clean_C hc (hi.clean h' o' hho')
          -- the entry's name is the last component, i.e. what info reports as name
          have hname : nm = (split c o'.path).2 := by
            rw [hclf.2.1, hclo.2.1, childName_canon hc.toCOk hclf.1 hclo.1] at hcn
            split at hcn
            · conv => rhs; rw [hclo.2.1]
              rw [name_canon hc hclo.1, hcn]; rfl
            · cases hcn
          have hent : Info.mk o'.kind o'.oid (objHash hcfg o') o'.path (objSize hcfg o') nm = infoOfObj c hcfg o' := by
            rw [hname]; rfl
          dsimp only
          rw [hent]
          obtain ⟨hb1, hb2⟩ := hback h' o' hho' hl'
          constructor
          · simp only [step, infoOfObj, hb2]
          · simp only [step, infoOfObj, hb1]
        · cases hld
  · intro oid x hd
    obtain ⟨⟨i, h1, h2, _⟩, _, _⟩ := hash_info_eq_hash_data c fl hcfg s oid x hd
    refine ⟨i, h1, ?_, h2⟩
    -- kind: download only hands out files
    cases hg : getObj s oid with
    | none => simp [step, download, hg] at hd
    | some ho =>
      obtain ⟨h, o⟩ := ho
      simp only [step, download, hg] at hd
      cases hl : o.live with
      | false => simp [hl] at hd
      | true =>
        simp only [hl, Bool.not_true, Bool.false_eq_true, if_false] at hd
        cases hk : o.kind with
        | dir => simp [hk] at hd
        | file =>
          simp only [step, liveObj, hg, hl, if_true, Res.info.injEq] at h1
          rw [← h1]; exact hk

/-! ## Every successful mutation appends the right event -/

theorem create_appends_event (c : Cfg) (fl : Flavour) (hcfg : HashCfg C H) (s : St C) (p : Str) (d : C) (i : Info H)
    (h : (step c fl hcfg s (.create p d)).2 = .info i) :
    (step c fl hcfg s (.create p d)).1.events = s.events ++
      [{ action := .create, oid := i.oid, kind := .file, path := i.path, prior := none, trashed := false }] := by
  simp only [step, create] at h ⊢
  by_cases h1 : hasForbidden fl p = true
  · simp [h1] at h
  · by_cases h2 : (infoPath c s p).isSome = true
    · simp [h1, h2] at h
    · cases h3 : verifyParent c s p with
      | some e => simp [h1, h2, h3] at h
      | none =>
        simp only [h1, h2, h3, Bool.false_eq_true, if_false] at h ⊢
        simp only [Res.info.injEq] at h
        subst h
        rfl

theorem mkdir_appends_event (c : Cfg) (fl : Flavour) (hcfg : HashCfg C H) (s : St C) (p : Str) (x : Str)
    (hnew : infoPath c s p = none) (h : (step c fl hcfg s (.mkdir p)).2 = .oid x) :
    ∃ path, (step c fl hcfg s (.mkdir p)).1.events = s.events ++
      [{ action := .create, oid := x, kind := .dir, path := path, prior := none, trashed := false }] := by
  simp only [step, mkdir] at h ⊢
  cases h3 : verifyParent c s p with
  | some e => simp [h3] at h
  | none =>
    by_cases h1 : hasForbidden fl p = true
    · simp [h3, h1] at h
    · simp only [h3, h1, hnew, Bool.false_eq_true, if_false] at h ⊢
      simp only [Res.oid.injEq] at h
      subst h
      exact ⟨_, rfl⟩

theorem upload_appends_event (c : Cfg) (fl : Flavour) (hcfg : HashCfg C H) (s : St C) (oid : Str) (d : C) (i : Info H)
    (h : (step c fl hcfg s (.upload oid d)).2 = .info i) :
    (step c fl hcfg s (.upload oid d)).1.events = s.events ++
      [{ action := .update, oid := i.oid, kind := i.kind, path := i.path, prior := none, trashed := false }] := by
  cases hg : getObj s oid with
  | none => simp [step, upload, hg] at h
  | some ho =>
    obtain ⟨hh, o⟩ := ho
    simp only [step, upload, hg] at h ⊢
    cases hl : o.live with
    | false => simp [hl] at h
    | true =>
      simp only [hl, Bool.not_true, Bool.false_eq_true, if_false] at h ⊢
      split at h
      · cases h
      · rename_i hk
        simp only [hk, Bool.false_eq_true, if_false]
        simp only [Res.info.injEq] at h
        subst h
        simp [registerEvent, infoOfObj, hl]

theorem delete_appends_event (c : Cfg) (fl : Flavour) (hcfg : HashCfg C H) (s : St C) (oid : Str) (o : Obj C)
    (hlive : liveObj s oid = some o) (h : (step c fl hcfg s (.delete oid)).2 = .unit) :
    (step c fl hcfg s (.delete oid)).1.events = s.events ++
      [{ action := .delete, oid := o.oid, kind := o.kind, path := o.path, prior := none, trashed := true }] := by
  cases hg : getObj s oid with
  | none => simp [liveObj, hg] at hlive
  | some ho =>
    obtain ⟨hh, o'⟩ := ho
    simp only [liveObj, hg] at hlive
    split at hlive
    · rename_i hl
      simp only [Option.some.injEq] at hlive
      subst hlive
      simp only [step, delete, hg, hl, Bool.not_true, Bool.false_eq_true, if_false] at h ⊢
      revert h
      cases hb : (if (o'.kind == Kind.dir) = true then dirBlocked c hcfg s o'.oid else none) with
      | some e => intro h; cases h
      | none => intro _; rfl
    · cases hlive

/-- renaming a file to another path (guarded call, reachable state) appends a rename event carrying the returned
    id, `exists = True`, and — path style — the previous id as `prior_oid` -/
theorem rename_appends_event {c : Cfg} (hc : COk2 c) {fl : Flavour} (hcfg : HashCfg C H) {s : St C}
    (hi : Inv c fl s) (oid p : Str) (hok : OpOk c fl s (.rename oid p)) (h : Nat) (o : Obj C)
    (hg : getObj s oid = some (h, o)) (hl : o.live = true) (hk : o.kind = .file) (hmoved : o.path ≠ p)
    (x : Str) (hres : (step c fl hcfg s (.rename oid p)).2 = .oid x) :
    (step c fl hcfg s (.rename oid p)).1.events = s.events ++
      [{ action := .rename, oid := x, kind := .file, path := p,
         prior := if fl.oip then some o.oid else none, trashed := false }] := by
  obtain ⟨hp, hpn, harg, _⟩ := hok
  have hho := (getObj_some.1 hg).2
  have hoeq := oid_of_resolved hc hi harg hg
  -- the tail of `rename` once nothing blocks it
  have htail : ((if (o.path == p) = true then (s, Res.oid oid)
        else match renameMove c fl s h o p with
          | (s2, some e) => (s2, Res.err e)
          | (s2, none) => (s2, renameFinish fl s2 h o oid)) : St C × Res C H).2 = .oid x →
      ((if (o.path == p) = true then (s, Res.oid oid)
        else match renameMove c fl s h o p with
          | (s2, some e) => (s2, Res.err e)
          | (s2, none) => (s2, renameFinish fl s2 h o oid)) : St C × Res C H).1.events = s.events ++
      [{ action := .rename, oid := x, kind := .file, path := p,
         prior := if fl.oip then some o.oid else none, trashed := false }] := by
    have h1 : ¬ (o.path == p) = true := by simpa using hmoved
    rw [if_neg h1]
    obtain ⟨sR, hsr, hheap, _, _, _⟩ := renameSingle_spec hc hi hho (hi.filed h o hho hl) hp hpn true
    have hmove : renameMove c fl s h o p = (sR, none) := by
      simp only [renameMove, hk, beq_self_eq_true, if_true]; exact hsr
    rw [hmove]
    simp only
    intro hres
    -- the event is the one registered by `_rename_single_object`
    have hev : sR.events = s.events ++
        [{ action := .rename, oid := (refiled fl o p).oid, kind := (refiled fl o p).kind,
           path := (refiled fl o p).path, prior := if fl.oip then some o.oid else none,
           trashed := !(refiled fl o p).live }] := by
      have := congrArg (fun r => r.1.events) hsr
      simp only at this
      rw [← this]
      obtain ⟨_, hpp, _⟩ := clean_C hc hp
      have hrs : rstrip '/' p = p := by
        conv => lhs; rw [hpp]
        conv => rhs; rw [hpp]
        rw [← hc.sep]; exact rstrip_canon (clean_C hc hp).1.1 hpn
      obtain ⟨s1, hu, _, hev1, _⟩ := unstore_spec (c := c) (s := s) (o := o) (hi.filed h o hho hl)
      simp only [renameSingle, hho, hrs, hu, if_true, registerEvent_events, store_events, hev1]
      rfl
    have hlt : h < s.heap.length := by
      rcases List.getElem?_eq_some_iff.1 hho with ⟨hl', _⟩; exact hl'
    have hget : sR.heap[h]? = some (refiled fl o p) := by
      rw [hheap, List.getElem?_set]; simp [hlt]
    simp only [renameFinish, hget] at hres
    split at hres
    · cases hres
    · split at hres
      · cases hres
      · simp only [Res.oid.injEq] at hres
        rw [hev, ← hres]
        simp [refiled, hk, hl]
  simp only [step, rename, hg, hl, Bool.not_true, Bool.false_eq_true, if_false] at hres ⊢
  revert hres
  cases hvp : verifyParent c s p with
  | some e => intro hres; cases hres
  | none =>
    simp only
    rw [conflict_file hc hcfg hi hg hl hk hoeq]
    cases hpd : pv s (norm c p) with
    | none =>
      simp only [hho, Option.getD_some]
      exact htail
    | some cho =>
      obtain ⟨ch, co⟩ := cho
      by_cases hch : ch = h
      · simp only [hch, if_true, hho, Option.getD_some]
        exact htail
      · simp only [hch, if_false]
        intro hres; cases hres

/-- the loop of a folder rename (every object beneath the folder is re-filed) logs nothing: only the folder
    itself generates an event (mock.py:527-535 "only parent generates event") — any state, any paths -/
theorem folder_rename_children_log_nothing (c : Cfg) (fl : Flavour) (s : St C) (oldPath newPath : Str) :
    (renameChildren c fl s oldPath newPath).1.events = s.events :=
  renameChildren_events c fl s oldPath newPath

/-- **every_mutation_is_eventually_an_event** — the pieces put together: an event appended by a successful
    mutation stays in the log whatever is called afterwards (`event_log_append_only`), and a drain of
    `events()` from any cursor at or before it delivers it, with its id and existence flag, in log order
    (`drain_yields_all_from_cursor`, `drain_delivers`, `translateEvent_id_exists`). -/
theorem every_mutation_is_eventually_an_event (c : Cfg) (fl : Flavour) (hno : fl.oidlessTrash = false)
    (hcfg : HashCfg C H) (s : St C) (op : Op C) (ev : MEv)
    (happ : (step c fl hcfg s op).1.events = s.events ++ [ev])
    (later : List (Op C)) (cur : Nat) (hcur : cur ≤ s.events.length) :
    let s' := (run c fl hcfg (step c fl hcfg s op).1 later).1
    ∃ e ∈ (drain fl { s' with cursor := cur }).2,
      e.oid = some ev.oid ∧ e.live = !ev.trashed ∧ e.prior = ev.prior ∧ e.cursor = s.events.length := by
  intro s'
  obtain ⟨t, ht⟩ := event_log_append_only c fl hcfg later (step c fl hcfg s op).1
  have hidx : s'.events[s.events.length]? = some ev := by
    show (run c fl hcfg (step c fl hcfg s op).1 later).1.events[s.events.length]? = some ev
    rw [ht, happ, List.append_assoc]
    simp
  refine ⟨translateEvent fl ev s.events.length, drain_delivers fl { s' with cursor := cur } s.events.length ev hcur hidx, ?_⟩
  exact translateEvent_id_exists fl hno ev _

/-! ## Rewinding the cursor -/

/-- **rewind_replays_suffix** — `current_cursor = c` for an int `c ≥ -1` (model value `k = c + 1`, so the
    initial cursor -1 is `k = 0` and Python's cursor 0 — exactly one event consumed — is `k = 1`), followed by a
    drain of `events()`: exactly the log entries with Python index `> c` are delivered, in log order, each
    stamped with its own index; nothing else; the cursor ends at the latest cursor. -/
theorem rewind_replays_suffix (c : Cfg) (fl : Flavour) (hcfg : HashCfg C H) (s : St C) (k : Nat) :
    let s1 := (step c fl hcfg s (.setCursor (.int k))).1
    (step c fl hcfg s (.setCursor (.int k))).2 matches .unit ∧
    s1.events = s.events ∧
    (drain fl s1).2 = ((s.events.drop k).zipIdx k).map (fun (pe, i) => translateEvent fl pe i) ∧
    (drain fl s1).2.length = s.events.length - k ∧
    (k ≤ s.events.length → (drain fl s1).1.cursor = s.events.length) :=
  ⟨rfl, rfl, rfl, by simp [drain, step, setCursor], fun hk => by simp [drain, step, setCursor, Nat.max_eq_right hk]⟩

/-- a cursor saved earlier (`k ≤` the log length then) still replays everything logged since, whatever was
    called in between: the drain after the rewind delivers every entry the intermediate calls appended -/
theorem rewind_to_saved_cursor_replays_everything_since (c : Cfg) (fl : Flavour) (hcfg : HashCfg C H) (s : St C)
    (ops : List (Op C)) (k : Nat) (hk : k ≤ s.events.length) :
    let s' := (run c fl hcfg s ops).1
    let s1 := (step c fl hcfg s' (.setCursor (.int k))).1
    ∃ t, s'.events = s.events ++ t ∧
      (drain fl s1).2 = (((s.events ++ t).drop k).zipIdx k).map (fun (pe, i) => translateEvent fl pe i) ∧
      (drain fl s1).2.length = (s.events.length - k) + t.length := by
  intro s' s1
  obtain ⟨t, ht⟩ := event_log_append_only c fl hcfg ops s
  refine ⟨t, ht, ?_, ?_⟩
  · show ((s'.events.drop k).zipIdx k).map _ = _
    rw [ht]
  · show (((s'.events.drop k).zipIdx k).map _).length = _
    rw [ht]; simp; omega

/-- the other two branches of the setter: `None` jumps to the latest cursor (the next drain is empty), anything
    that is not an int raises CloudCursorError and changes nothing -/
theorem setCursor_none_and_other (c : Cfg) (fl : Flavour) (hcfg : HashCfg C H) (s : St C) :
    (drain fl (step c fl hcfg s (.setCursor .none)).1).2 = [] ∧
    (step c fl hcfg s (.setCursor .none)).1.cursor = s.events.length ∧
    (step c fl hcfg s (.setCursor .other)).2 matches .cursorErr ∧
    (step c fl hcfg s (.setCursor .other)).1.cursor = s.cursor ∧
    (step c fl hcfg s (.setCursor .other)).1.events = s.events := by
  refine ⟨?_, rfl, rfl, rfl, rfl⟩
  simp [drain, step, setCursor]

/-! ## Kernel-checked witnesses: where the contract is *not* met, and non-vacuity -/

def wH : HashCfg Nat Nat := { hashOf := id, sizeOf := id }

def asBool : Res Nat Nat → Option Bool
  | .bool b => some b
  | _ => none

def asOid : Res Nat Nat → Option Str
  | .oid o => some o
  | _ => none

def infoOidPath : Res Nat Nat → Option (Str × Str)
  | .info i => some (i.oid, i.path)
  | _ => none

def listLen : Res Nat Nat → Option Nat
  | .list l => some l.length
  | _ => none

def isNone : Res Nat Nat → Bool
  | .none => true
  | _ => false

/-- open finding mock-path-ci-recreate-hits-tombstone: path-style, case-insensitive, a name with an upper-case
    letter.  After create; delete; create the new file exists by path but not by the id `create` returned. -/
theorem path_ci_recreate_hits_tombstone :
    let c := mkCfg false false
    let fl : Flavour := { oip := true }
    let s := (run c fl wH (init c fl) [.create "/A".toList 1, .delete "/A".toList, .create "/A".toList 2]).1
    asBool (step c fl wH s (.existsPath "/A".toList)).2 = some true ∧
    asBool (step c fl wH s (.existsOid "/A".toList)).2 = some false := by
  decide +kernel

/-- open finding mock-path-ci-listdir-twice, and the reason `oid_is_normalized_path` needs folded names there:
    the id is the raw path "/A", the normalised path is "/a", and both are '/'-keys of the same object -/
theorem path_ci_listdir_twice :
    let c := mkCfg false false
    let fl : Flavour := { oip := true }
    let s := (run c fl wH (init c fl) [.create "/A".toList 1]).1
    listLen (step c fl wH s (.listdir "/".toList)).2 = some 2 ∧
    infoOidPath (step c fl wH s (.infoPath "/a".toList)).2 = some ("/A".toList, "/A".toList) ∧
    norm c "/A".toList = "/a".toList := by
  decide +kernel

/-- open finding mock-rename-into-own-subtree: id-style; the folder ends up at /a/b while /a no longer exists -/
theorem rename_into_own_subtree_orphans :
    let c := mkCfg true false
    let fl : Flavour := { oip := false }
    let s := (run c fl wH (init c fl) [.mkdir "/a".toList, .rename "1".toList "/a/b".toList]).1
    infoOidPath (step c fl wH s (.infoOid "1".toList)).2 = some ("1".toList, "/a/b".toList) ∧
    isNone (step c fl wH s (.infoPath "/a".toList)).2 = true := by
  decide +kernel

/-- what the model does for the part the refinement theorem leaves to the correspondence: a folder rename
    re-files the children (their ids kept, id style) and logs one event, for the folder only -/
theorem folder_rename_moves_children_one_event :
    let c := mkCfg true false
    let fl : Flavour := { oip := false }
    let s0 := (run c fl wH (init c fl) [.mkdir "/a".toList, .create "/a/f".toList 7]).1
    let s := (step c fl wH s0 (.rename "1".toList "/b".toList)).1
    infoOidPath (step c fl wH s (.infoPath "/b/f".toList)).2 = some ("2".toList, "/b/f".toList) ∧
    isNone (step c fl wH s (.infoPath "/a/f".toList)).2 = true ∧
    s.events.length = s0.events.length + 1 := by
  decide +kernel

/-- a guard of the form "whatever the id resolves to satisfies a decidable condition on its path", by evaluation -/
theorem guard_by_eval (s : St Nat) (oid : Str) (P : Str → Prop) [DecidablePred P]
    (h : (match pv s oid with | some ho => decide (P ho.2.path) | none => true) = true) :
    ∀ (h' : Nat) (o : Obj Nat), pv s oid = some (h', o) → P o.path := by
  intro h' o hp
  rw [hp] at h
  simpa using h

/-- the rename guard on the source's path -/
def RenGuard (c : Cfg) (dst : Str) (path : Str) : Prop :=
  foldL c (Path.C c path) <+: foldL c (Path.C c dst) → foldL c (Path.C c path) = foldL c (Path.C c dst)

instance (c : Cfg) (dst path : Str) : Decidable (RenGuard c dst path) := by unfold RenGuard; infer_instance

/-- non-vacuity: a concrete guarded call sequence (clean paths, a folder rename, a file rename, a delete) -/
example : Guarded (mkCfg true false) ({ oip := false } : Flavour) wH (init (mkCfg true false) { oip := false })
    [.mkdir "/d".toList, .create "/d/f".toList 3, .rename "1".toList "/e".toList, .rename "2".toList "/e/g".toList,
     .delete "2".toList] := by
  have hcl : ∀ (l : List Str), (∀ f ∈ l, f ≠ [] ∧ '/' ∉ f ∧ '\\' ∉ f) →
      Clean (mkCfg true false) ({ oip := false } : Flavour) (canon '/' l) := by
    intro l hl
    refine ⟨l, ⟨fun f hf => ⟨(hl f hf).1, (hl f hf).2.1⟩, fun f hf a ha => ?_⟩, rfl, fun h => by cases h⟩
    simp [mkCfg] at ha; subst ha; exact (hl f hf).2.2
  refine ⟨hcl ["d".toList] (by decide), hcl ["d".toList, "f".toList] (by decide),
    ⟨hcl ["e".toList] (by decide), ?_, ?_, ?_⟩, ⟨hcl ["e".toList, "g".toList] (by decide), ?_, ?_, ?_⟩, ?_, trivial⟩
  · decide +kernel
  · intro _; decide
  · exact guard_by_eval _ _ (RenGuard (mkCfg true false) "/e".toList) (by decide +kernel)
  · decide +kernel
  · intro _; decide
  · exact guard_by_eval _ _ (RenGuard (mkCfg true false) "/e/g".toList) (by decide +kernel)
  · show resolve (mkCfg true false) _ "2".toList ≠ some []
    decide +kernel

end CS.MockFS
