import Csverif.Proofs.Crash
import Csverif.Props.C02
/-
C07 — crash consistency: dying immediately before any individual storage write or immediately after any individual provider
write loses nothing.

What is proved here (about the executable specification of Model/Spec/Crash.lean, which the driver layer `monc07` runs on the
effect log of every real engine run):

  * `check_crash_consistent` — if the checker accepts a complete log then EVERY prefix of it (in particular every crash cut:
    before a storage write, after an engine provider write — `crash_points_consistent`) is itself accepted and leaves the
    storage `Consistent`: no stored row records content as synced that no provider write put there
    (`storage_never_claims_unreflected_work`) and no stored cursor is ahead of the committed events (`cursor_never_ahead`).
    Induction over the log (`effect_consistent` is the inductive step, universally quantified over states and effects).
  * `provider_write_before_commit`, `cursor_write_after_events` — the same two orderings read off the LOG itself: the provider
    write / the handled events occur at earlier positions.
  * `half_recorded_create_is_recognised` and friends — the decision logic of `_create_synced`/`create_synced` and of the same-hash
    merge never turns an already transferred file into a conflict or a duplicate, and never adopts different content.
  * `recovered_iff` — the recovery verdict the monitor computes after restart + quiescence is exactly the property's outcome clause.

What is NOT proved: that the real engine's recovery reaches that verdict (there is no Lean model of the engine; that half is the
crash enumeration on the real engine, judged by `recovered`), see DESIGN.md section 6 "recovery outcome partial".
-/
namespace CS.Spec.Crash
set_option linter.unusedVariables false

/-! ## 1. the inductive step -/

private theorem rows_step (st : St) (e : Eff) (hv : violation st e = none)
    (h : ∀ row ∈ st.rows, (∀ t, row.cl = some t → t ∈ (st.side false).puts) ∧ (∀ t, row.cr = some t → t ∈ (st.side true).puts)) :
    ∀ row ∈ (effect st e).rows, (∀ t, row.cl = some t → t ∈ ((effect st e).side false).puts) ∧
      (∀ t, row.cr = some t → t ∈ ((effect st e).side true).puts) := by
  have mono : ∀ row ∈ st.rows, (∀ t, row.cl = some t → t ∈ ((effect st e).side false).puts) ∧
      (∀ t, row.cr = some t → t ∈ ((effect st e).side true).puts) := fun row hm =>
    ⟨fun t ht => effect_puts_mono st e false t ((h row hm).1 t ht),
     fun t ht => effect_puts_mono st e true t ((h row hm).2 t ht)⟩
  cases e with
  | rowCreate eid cl cr =>
    obtain ⟨_, h2, h3⟩ := (violation_rowCreate _ _ _ _).1 hv
    intro row hm
    simp only [effect, List.mem_cons] at hm
    rcases hm with rfl | hm
    · exact ⟨(claimOk_iff _ _).1 h2, (claimOk_iff _ _).1 h3⟩
    · exact h row hm
  | rowUpdate eid cl cr =>
    obtain ⟨_, h2, h3⟩ := (violation_rowUpdate _ _ _ _).1 hv
    intro row hm
    simp only [effect, List.mem_cons, List.mem_filter] at hm
    rcases hm with rfl | ⟨hm, _⟩
    · exact ⟨(claimOk_iff _ _).1 h2, (claimOk_iff _ _).1 h3⟩
    · exact h row hm
  | rowDelete eid =>
    intro row hm
    simp only [effect, List.mem_filter] at hm
    exact h row hm.1
  | otherWrite => exact mono
  | cursorWrite s c => intro row hm; exact mono row (by simpa [effect] using hm)
  | walkWrite s => intro row hm; exact mono row (by simpa [effect] using hm)
  | providerWrite s eng put => intro row hm; exact mono row (by simpa [effect] using hm)
  | eventApplied s i r => intro row hm; exact mono row (by simpa [effect] using hm)

private theorem cursor_step (st : St) (e : Eff) (hv : violation st e = none) (s : Side)
    (h : (st.side s).CursorOk) : ((effect st e).side s).CursorOk := by
  cases e with
  | rowCreate eid cl cr => cases s <;> exact h
  | rowUpdate eid cl cr => cases s <;> exact h
  | rowDelete eid => cases s <;> exact h
  | otherWrite => exact h
  | cursorWrite s' c =>
    by_cases hs : s = s'
    · subst hs
      have g := (violation_cursorWrite _ _ _).1 hv
      simp only [effect, side_setSide]
      intro hw c' hc' i hi
      simp only [Option.some.injEq] at hc'
      subst hc'
      exact (covered_iff _ _).1 (g hw) i hi
    · simpa [effect, side_setSide_ne _ _ _ _ hs] using h
  | walkWrite s' =>
    by_cases hs : s = s'
    · subst hs
      simp only [effect, side_setSide]
      intro _ c' hc' i hi
      left
      simp only at hc'
      rw [hc']
      simp only [Option.getD_some]
      exact Nat.le_trans hi (Nat.le_max_right _ _)
    · simpa [effect, side_setSide_ne _ _ _ _ hs] using h
  | providerWrite s' eng put =>
    by_cases hs : s = s'
    · subst hs
      simp only [effect, side_setSide]
      exact h
    · simpa [effect, side_setSide_ne _ _ _ _ hs] using h
  | eventApplied s' j r =>
    by_cases hs : s = s'
    · subst hs
      simp only [effect, side_setSide]
      intro hw c' hc' i hi
      rcases h hw c' hc' i hi with h1 | h1
      · exact Or.inl h1
      · exact Or.inr (List.mem_cons_of_mem _ h1)
    · simpa [effect, side_setSide_ne _ _ _ _ hs] using h

/-- THE INDUCTIVE STEP (all states, all effects): an accepted effect keeps the storage consistent -/
theorem effect_consistent (st : St) (e : Eff) (hv : violation st e = none) (hc : Consistent st) :
    Consistent (effect st e) := by
  rw [consistent_iff_sides] at hc ⊢
  exact ⟨rows_step st e hv hc.1, fun s => cursor_step st e hv s (hc.2 s)⟩

theorem step_consistent (st st' : St) (e : Eff) (h : step st e = .ok st') (hc : Consistent st) : Consistent st' := by
  obtain ⟨hv, rfl⟩ := (step_ok_iff _ _ _).1 h
  exact effect_consistent st e hv hc

theorem init_consistent : Consistent St.init := by decide

/-- every accepted run from a consistent storage ends in a consistent storage (induction over the log) -/
theorem run_consistent (st st' : St) (log : Log) (h : run st log = .ok st') (hc : Consistent st) : Consistent st' := by
  induction log generalizing st with
  | nil => simp [run_nil] at h; subst h; exact hc
  | cons x xs ih =>
    obtain ⟨s1, h1, h2⟩ := (run_cons_ok_iff _ _ _ _).1 h
    obtain ⟨_, hv, rfl⟩ := (stepN_ok_iff _ _ _).1 h1
    exact ih _ h2 (effect_consistent st x.e hv hc)

/-! ## 2. prefix closure: every crash instant of an accepted run -/

/-- the checker is prefix-closed -/
theorem run_take (st st' : St) (log : Log) (h : run st log = .ok st') (k : Nat) :
    ∃ s1, run st (log.take k) = .ok s1 ∧ run s1 (log.drop k) = .ok st' := by
  have := (run_append_ok_iff st st' (log.take k) (log.drop k)).1 (by rw [List.take_append_drop]; exact h)
  exact this

theorem check_take (log : Log) (h : check log = true) (k : Nat) : check (log.take k) = true := by
  obtain ⟨st, hst⟩ := (check_iff _).1 h
  obtain ⟨s1, h1, _⟩ := run_take _ _ _ hst k
  exact (check_iff _).2 ⟨s1, h1⟩

/-- C07 (c), main theorem: if the checker accepts the complete log of a run, then for EVERY crash point `k` the log prefix
    is accepted and the storage it leaves behind never claims unreflected work -/
theorem check_crash_consistent (log : Log) (h : check log = true) :
    ∀ k, ∃ st, run St.init (log.take k) = .ok st ∧ Consistent st := by
  intro k
  obtain ⟨st, hst⟩ := (check_iff _).1 h
  obtain ⟨s1, h1, _⟩ := run_take _ _ _ hst k
  exact ⟨s1, h1, run_consistent _ _ _ h1 init_consistent⟩

/-- … in particular for the crash instants the property names: immediately before a storage write, immediately after an
    engine-issued provider write -/
theorem crash_points_consistent (log : Log) (h : check log = true) (k : Nat) (hk : CrashCut log k) :
    ∃ st, run St.init (log.take k) = .ok st ∧ Consistent st :=
  check_crash_consistent log h k

/-- C07 (a) `cursor_never_ahead`: at every prefix of an accepted log, on every side whose walk marker is stored, every event
    up to the STORED cursor is handled (its state effect committed) or covered by the completed walk -/
theorem cursor_never_ahead (log : Log) (h : check log = true) (k : Nat) (st : St)
    (hst : run St.init (log.take k) = .ok st) (s : Side) (c : Nat)
    (hw : (st.side s).walked = true) (hc : (st.side s).cursor = some c) :
    ∀ i, i ≤ c → i ≤ (st.side s).base ∨ i ∈ (st.side s).handled := by
  have := ((consistent_iff_sides st).1 (run_consistent _ _ _ hst init_consistent)).2 s
  exact this hw c hc

/-- C07 `storage_never_claims_unreflected_work`: at every prefix of an accepted log, every content a STORED row records as
    synced on a side was put on that side by a provider write -/
theorem storage_never_claims_unreflected_work (log : Log) (h : check log = true) (k : Nat) (st : St)
    (hst : run St.init (log.take k) = .ok st) (row : Row) (hm : row ∈ st.rows) :
    (∀ t, row.cl = some t → t ∈ st.l.puts) ∧ (∀ t, row.cr = some t → t ∈ st.r.puts) :=
  (run_consistent _ _ _ hst init_consistent).1 row hm

/-- the executable twin the driver evaluates at every crash instant agrees with `Consistent` -/
theorem consistentB_spec (st : St) : consistentB st = true ↔ Consistent st := consistentB_iff st

/-- effects are numbered by position: an accepted log is `0, 1, 2, …` -/
theorem check_numbered (log : Log) (h : check log = true) (i : Nat) (x : NEff) (hx : log[i]? = some x) : x.n = i := by
  obtain ⟨st, hst⟩ := (check_iff _).1 h
  obtain ⟨s1, h1, h2⟩ := run_take _ _ _ hst i
  have hn := run_next _ _ _ h1
  have hi : i < log.length := by
    rcases Nat.lt_or_ge i log.length with hlt | hge
    · exact hlt
    · rw [List.getElem?_eq_none hge] at hx; cases hx
  have hd : log.drop i = x :: log.drop (i + 1) := by
    rw [List.drop_eq_getElem_cons hi]
    rw [List.getElem?_eq_getElem hi] at hx
    simp only [Option.some.injEq] at hx
    rw [hx]
  rw [hd] at h2
  obtain ⟨s2, h3, _⟩ := (run_cons_ok_iff _ _ _ _).1 h2
  obtain ⟨hn2, _, _⟩ := (stepN_ok_iff _ _ _).1 h3
  rw [hn2, hn]
  simp [St.init, List.length_take, Nat.min_eq_left (Nat.le_of_lt hi)]

/-! ## 3. the two orderings read off the log itself -/

theorem effect_puts_iff (st : St) (e : Eff) (s : Side) (t : Nat) :
    t ∈ ((effect st e).side s).puts ↔ t ∈ (st.side s).puts ∨ ∃ eng, e = .providerWrite s eng (some t) := by
  cases e with
  | rowCreate eid cl cr => cases s <;> simp [effect, St.side]
  | rowUpdate eid cl cr => cases s <;> simp [effect, St.side]
  | rowDelete eid => cases s <;> simp [effect, St.side]
  | otherWrite => simp [effect]
  | cursorWrite s' c =>
    by_cases hs : s = s'
    · subst hs; simp [effect]
    · simp [effect, side_setSide_ne _ _ _ _ hs]
  | walkWrite s' =>
    by_cases hs : s = s'
    · subst hs; simp [effect]
    · simp [effect, side_setSide_ne _ _ _ _ hs]
  | eventApplied s' i r =>
    by_cases hs : s = s'
    · subst hs; simp [effect]
    · simp [effect, side_setSide_ne _ _ _ _ hs]
  | providerWrite s' eng put =>
    by_cases hs : s = s'
    · subst hs
      cases put with
      | none => simp [effect]
      | some u =>
        simp only [effect, side_setSide, Option.toList_some, List.cons_append, List.nil_append, List.mem_cons,
          Eff.providerWrite.injEq, true_and, Option.some.injEq, exists_and_right, exists_eq', eq_comm (a := u)]
        exact or_comm
    · have : ∀ eng', ¬ (Eff.providerWrite s' eng put = Eff.providerWrite s eng' (some t)) := by
        intro eng' h; injection h with h1 _ _; exact hs h1.symm
      simp [effect, side_setSide_ne _ _ _ _ hs, this]

theorem effect_handled_iff (st : St) (e : Eff) (s : Side) (i : Nat) :
    i ∈ ((effect st e).side s).handled ↔ i ∈ (st.side s).handled ∨ ∃ r, e = .eventApplied s i r := by
  cases e with
  | rowCreate eid cl cr => cases s <;> simp [effect, St.side]
  | rowUpdate eid cl cr => cases s <;> simp [effect, St.side]
  | rowDelete eid => cases s <;> simp [effect, St.side]
  | otherWrite => simp [effect]
  | cursorWrite s' c =>
    by_cases hs : s = s'
    · subst hs; simp [effect]
    · simp [effect, side_setSide_ne _ _ _ _ hs]
  | walkWrite s' =>
    by_cases hs : s = s'
    · subst hs; simp [effect]
    · simp [effect, side_setSide_ne _ _ _ _ hs]
  | providerWrite s' eng put =>
    by_cases hs : s = s'
    · subst hs; simp [effect]
    · simp [effect, side_setSide_ne _ _ _ _ hs]
  | eventApplied s' j r0 =>
    by_cases hs : s = s'
    · subst hs
      simp only [effect, side_setSide, List.mem_cons, Eff.eventApplied.injEq, true_and, eq_comm (a := j),
        exists_and_left, exists_eq', and_true]
      exact or_comm
    · have : ∀ r, ¬ (Eff.eventApplied s' j r0 = Eff.eventApplied s i r) := by
        intro r h; injection h with h1 _ _; exact hs h1.symm
      simp [effect, side_setSide_ne _ _ _ _ hs, this]

/-- the contents ever put on a side are exactly those of the provider writes in the log so far -/
theorem mem_puts_iff (st0 st : St) (pre : Log) (h : run st0 pre = .ok st) (s : Side) (t : Nat) :
    t ∈ (st.side s).puts ↔ t ∈ (st0.side s).puts ∨ ∃ y ∈ pre, ∃ eng, y.e = .providerWrite s eng (some t) := by
  induction pre generalizing st0 with
  | nil => simp [run_nil] at h; subst h; simp
  | cons x xs ih =>
    obtain ⟨s1, h1, h2⟩ := (run_cons_ok_iff _ _ _ _).1 h
    obtain ⟨_, _, rfl⟩ := (stepN_ok_iff _ _ _).1 h1
    rw [ih _ h2]
    have : ({ effect st0 x.e with next := st0.next + 1 } : St).side s = (effect st0 x.e).side s := by cases s <;> rfl
    rw [this, effect_puts_iff]
    simp only [List.mem_cons, exists_eq_or_imp, or_assoc]

theorem mem_handled_iff (st0 st : St) (pre : Log) (h : run st0 pre = .ok st) (s : Side) (i : Nat) :
    i ∈ (st.side s).handled ↔ i ∈ (st0.side s).handled ∨ ∃ y ∈ pre, ∃ r, y.e = .eventApplied s i r := by
  induction pre generalizing st0 with
  | nil => simp [run_nil] at h; subst h; simp
  | cons x xs ih =>
    obtain ⟨s1, h1, h2⟩ := (run_cons_ok_iff _ _ _ _).1 h
    obtain ⟨_, _, rfl⟩ := (stepN_ok_iff _ _ _).1 h1
    rw [ih _ h2]
    have : ({ effect st0 x.e with next := st0.next + 1 } : St).side s = (effect st0 x.e).side s := by cases s <;> rfl
    rw [this, effect_handled_iff]
    simp only [List.mem_cons, exists_eq_or_imp, or_assoc]

/-- C07 (b) `provider_write_before_commit`: in an accepted log, a storage row write that records content `t` as synced on a side
    is preceded, at an earlier position of the log, by a provider write that put `t` on that side -/
theorem provider_write_before_commit (log pre post : Log) (x : NEff) (h : check log = true)
    (hl : log = pre ++ x :: post) (eid : Nat) (cl cr : Option Nat)
    (hx : x.e = .rowCreate eid cl cr ∨ x.e = .rowUpdate eid cl cr) :
    (∀ t, cl = some t → ∃ y ∈ pre, ∃ eng, y.e = .providerWrite false eng (some t)) ∧
    (∀ t, cr = some t → ∃ y ∈ pre, ∃ eng, y.e = .providerWrite true eng (some t)) := by
  obtain ⟨st, hst⟩ := (check_iff _).1 h
  subst hl
  obtain ⟨s1, h1, h2⟩ := (run_append_ok_iff _ _ _ _).1 hst
  obtain ⟨s2, h3, _⟩ := (run_cons_ok_iff _ _ _ _).1 h2
  obtain ⟨_, hv, _⟩ := (stepN_ok_iff _ _ _).1 h3
  have key : s1.l.claimOk cl = true ∧ s1.r.claimOk cr = true := by
    rcases hx with hx | hx
    · rw [hx] at hv; exact ((violation_rowCreate _ _ _ _).1 hv).2
    · rw [hx] at hv; exact ((violation_rowUpdate _ _ _ _).1 hv).2
  constructor
  · intro t ht
    have := (mem_puts_iff _ _ _ h1 false t).1 ((claimOk_iff _ _).1 key.1 t ht)
    simpa [St.init, SideSt.init, St.side] using this
  · intro t ht
    have := (mem_puts_iff _ _ _ h1 true t).1 ((claimOk_iff _ _).1 key.2 t ht)
    simpa [St.init, SideSt.init, St.side] using this

/-- C07 (a) on the log: in an accepted log, a cursor write made while the side's walk marker is stored only stores a cursor
    each of whose events is covered by the completed walk or was handled at an earlier position of the log -/
theorem cursor_write_after_events (log pre post : Log) (x : NEff) (h : check log = true)
    (hl : log = pre ++ x :: post) (s : Side) (c : Nat) (hx : x.e = .cursorWrite s c)
    (st : St) (hst : run St.init pre = .ok st) (hw : (st.side s).walked = true) :
    ∀ i, i ≤ c → i ≤ (st.side s).base ∨ ∃ y ∈ pre, ∃ r, y.e = .eventApplied s i r := by
  obtain ⟨stf, hf⟩ := (check_iff _).1 h
  subst hl
  obtain ⟨s1, h1, h2⟩ := (run_append_ok_iff _ _ _ _).1 hf
  rw [hst] at h1
  injection h1 with h1
  subst h1
  obtain ⟨s2, h3, _⟩ := (run_cons_ok_iff _ _ _ _).1 h2
  obtain ⟨_, hv, _⟩ := (stepN_ok_iff _ _ _).1 h3
  rw [hx] at hv
  have g := (covered_iff _ _).1 ((violation_cursorWrite _ _ _).1 hv hw)
  intro i hi
  rcases g i hi with h1 | h1
  · exact Or.inl h1
  · have := (mem_handled_iff _ _ _ hst s i).1 h1
    right
    simpa [St.init, SideSt.init, St.side] using this

/-- C07 (a'), "committed" means STORED: in an accepted log an event is only ever reported handled-with-row `eid` while row `eid`
    is in the abstract storage — i.e. it was created at an earlier position and not deleted since -/
theorem handled_event_has_stored_row (log pre post : Log) (x : NEff) (h : check log = true)
    (hl : log = pre ++ x :: post) (s : Side) (i eid : Nat) (hx : x.e = .eventApplied s i (some eid))
    (st : St) (hst : run St.init pre = .ok st) : st.hasRow eid = true := by
  obtain ⟨stf, hf⟩ := (check_iff _).1 h
  subst hl
  obtain ⟨s1, h1, h2⟩ := (run_append_ok_iff _ _ _ _).1 hf
  rw [hst] at h1
  injection h1 with h1
  subst h1
  obtain ⟨s2, h3, _⟩ := (run_cons_ok_iff _ _ _ _).1 h2
  obtain ⟨_, hv, _⟩ := (stepN_ok_iff _ _ _).1 h3
  rw [hx] at hv
  exact (violation_eventApplied _ _ _ _).1 hv

/-! ## 4. a half-recorded transfer is recognised, not duplicated (manager.py:698-781, 1634-1655) -/

/-- `half_recorded_create_is_recognised`: the provider says "exists", the object found at the path has the hash of the content
    being created → the entry is finished and records exactly that object; no punt, no peer guess (= no hash conflict, so no
    '.conflicted' copy), whatever the priority -/
theorem half_recorded_create_is_recognised (i : Info) (tp : Nat) (priority : Int) :
    createSynced .existsErr (some i) i.hash tp priority =
      ⟨.finished, some ⟨i.oid, i.hash, i.path.getD tp⟩, none, false⟩ := by
  simp [createSynced, createSyncedInner, record]

/-- adoption is indistinguishable from having created the object just now -/
theorem adoption_equals_fresh_create (i : Info) (tp : Nat) (priority : Int) (ip : Option Info) (h : Nat) :
    createSynced .existsErr (some i) i.hash tp priority = createSynced (.ok i.oid i.hash i.path) ip h tp priority := by
  simp [createSynced, createSyncedInner, record]

/-- different content at the path is never adopted (nothing is recorded as synced; the entry is punted) -/
theorem different_content_never_adopted (i : Info) (tempHash tp : Nat) (priority : Int) (hne : tempHash ≠ i.hash) :
    (createSynced .existsErr (some i) tempHash tp priority).recorded = none ∧
    (createSynced .existsErr (some i) tempHash tp priority).ret = .punt := by
  have : (tempHash != i.hash) = true := by simp [hne]
  by_cases hp : priority > 0 <;> simp [createSynced, createSyncedInner, this, hp]

/-- an entry is recorded as synced only for an object the provider itself reported, with the content that was to be written
    (decision-level `provider_write_before_commit`) -/
theorem recorded_only_if_present (cr : CreateRes) (ip : Option Info) (tempHash tp : Nat) (priority : Int) (r : Recorded)
    (h : (createSynced cr ip tempHash tp priority).recorded = some r) :
    (∃ oid hash path, cr = .ok oid hash path ∧ r = record ⟨oid, hash, path⟩ tp) ∨
    (∃ i, cr = .existsErr ∧ ip = some i ∧ tempHash = i.hash ∧ r = record i tp) := by
  cases cr with
  | ok oid hash path =>
    left
    simp [createSynced, createSyncedInner] at h
    exact ⟨oid, hash, path, rfl, h.symm⟩
  | existsErr =>
    right
    cases ip with
    | none =>
      by_cases hp : priority > 0 <;> by_cases hp1 : priority > 1 <;> simp [createSynced, createSyncedInner, hp, hp1] at h
    | some i =>
      by_cases hh : tempHash = i.hash
      · subst hh
        simp [createSynced, createSyncedInner] at h
        exact ⟨i, rfl, rfl, rfl, h.symm⟩
      · have : (tempHash != i.hash) = true := by simp [hh]
        by_cases hp : priority > 0 <;> simp [createSynced, createSyncedInner, this, hp] at h
  | notFoundErr => by_cases hp : priority > 5 <;> simp [createSynced, createSyncedInner, hp] at h
  | nameErr => simp [createSynced, createSyncedInner] at h
  | otherErr => simp [createSynced, createSyncedInner] at h

/-- a peer guess (the seed of a hash conflict) is only ever written when the content at the path differs -/
theorem peer_guess_only_if_differs (cr : CreateRes) (ip : Option Info) (tempHash tp : Nat) (priority : Int) (g : Nat × Nat)
    (h : (createSynced cr ip tempHash tp priority).peerGuess = some g) :
    ∃ i, cr = .existsErr ∧ ip = some i ∧ tempHash ≠ i.hash ∧ g = (i.oid, i.hash) ∧ priority > 0 := by
  cases cr with
  | ok oid hash path => simp [createSynced, createSyncedInner] at h
  | existsErr =>
    cases ip with
    | none =>
      by_cases hp : priority > 0 <;> by_cases hp1 : priority > 1 <;> simp [createSynced, createSyncedInner, hp, hp1] at h
    | some i =>
      by_cases hh : tempHash = i.hash
      · subst hh; simp [createSynced, createSyncedInner] at h
      · have : (tempHash != i.hash) = true := by simp [hh]
        by_cases hp : priority > 0
        · simp [createSynced, createSyncedInner, this, hp] at h
          exact ⟨i, rfl, rfl, hh, h.symm, hp⟩
        · simp [createSynced, createSyncedInner, this, hp] at h
  | notFoundErr => by_cases hp : priority > 5 <;> simp [createSynced, createSyncedInner, hp] at h
  | nameErr => simp [createSynced, createSyncedInner] at h
  | otherErr => simp [createSynced, createSyncedInner] at h

/-- same-hash merge (1641-1649): two entries for the same content are merged, the resolver is not called -/
theorem same_hash_merges_without_conflict (h : Nat) :
    handleSplitConflict true true true h h = .merged := by
  simp [handleSplitConflict]

/-- the resolver (hence a '.conflicted' copy) is only reached for a folder or for genuinely different content -/
theorem resolver_only_if_differs (f d e : Bool) (dh rh : Nat)
    (h : handleSplitConflict f d e dh rh = .resolverCalled) : f = false ∨ dh ≠ rh := by
  cases f with
  | false => exact Or.inl rfl
  | true =>
    right
    intro heq
    subst heq
    cases d <;> cases e <;> simp [handleSplitConflict] at h

/-- the complete decision table of `create_synced` over a small alphabet (2 ids × 2 hashes, priorities -1..6), kernel-checked:
    whenever the object at the path carries the content being created the call finishes with that object recorded -/
theorem create_table_same_hash :
    ∀ oid ∈ [0, 1], ∀ hash ∈ [0, 1], ∀ path ∈ [none, some 7], ∀ p ∈ ([-1, 0, 1, 2, 3, 6] : List Int),
      createSynced .existsErr (some ⟨oid, hash, path⟩) hash 9 p = ⟨.finished, some ⟨oid, hash, path.getD 9⟩, none, false⟩ := by
  decide

/-! ## 5. the recovery verdict is exactly the property's outcome clause -/

open CS.Spec in
theorem noDup_iff (h : List LEv) (tr : Tree) :
    noDup h tr = true ↔ ∀ t ∈ tr.tags, tr.tags.count t ≤ writesOf h t := by
  simp only [noDup, List.all_eq_true, decide_eq_true_eq]

open CS.Spec in
theorem noArtefact_iff (tr : Tree) : noArtefact tr = true ↔ ∀ e ∈ tr, isConflicted e.1 = false := by
  simp only [noArtefact, Bool.not_eq_true', List.any_eq_false, Bool.not_eq_true]

open CS.Spec in
/-- `recovered` = converged ∧ no user content lost ∧ nothing duplicated ∧ (one-sided history → no '.conflicted' artefact) -/
theorem recovered_iff (h : List LEv) (oneSided : Bool) (l r : Tree) :
    recovered h oneSided l r = true ↔
      converged l r = true ∧
      (∀ t ∈ live h, t ∈ l.tags ∨ t ∈ r.tags) ∧
      (∀ t ∈ l.tags, l.tags.count t ≤ writesOf h t) ∧ (∀ t ∈ r.tags, r.tags.count t ≤ writesOf h t) ∧
      (oneSided = true → (∀ e ∈ l, isConflicted e.1 = false) ∧ (∀ e ∈ r, isConflicted e.1 = false)) := by
  simp only [recovered, Bool.and_eq_true, Bool.or_eq_true, Bool.not_eq_true', noLoss_iff, noDup_iff, noArtefact_iff,
    and_assoc]
  cases oneSided <;> simp

open CS.Spec in
/-- the recovery verdict implies C01's and C02's verdicts -/
theorem recovered_implies_converged_noLoss (h : List LEv) (o : Bool) (l r : Tree) (hr : recovered h o l r = true) :
    converged l r = true ∧ noLoss h l r = true := by
  simp only [recovered, Bool.and_eq_true] at hr
  exact ⟨hr.1.1.1.1, hr.1.1.1.2⟩

/-! ## 6. kernel-checked witnesses: each rule of the checker is needed, and the hypotheses are satisfiable -/

/-- a run in the shape the real engine produces: first start (cursor, walk marker), a user create on L, the event, the transfer
    to R, the commit — accepted, and consistent at every cut -/
def sampleLog : Log :=
  [⟨0, .cursorWrite false 0⟩, ⟨1, .walkWrite false⟩, ⟨2, .providerWrite false false (some 1)⟩,
   ⟨3, .rowCreate 3 none none⟩, ⟨4, .eventApplied false 1 (some 3)⟩, ⟨5, .cursorWrite false 1⟩,
   ⟨6, .providerWrite true true (some 1)⟩, ⟨7, .rowUpdate 3 (some 1) (some 1)⟩]

theorem sample_accepted : check sampleLog = true := by decide

/-- the same run with the commit BEFORE the provider write is rejected -/
theorem check_rejects_commit_before_provider_write :
    check [⟨0, .cursorWrite false 0⟩, ⟨1, .walkWrite false⟩, ⟨2, .providerWrite false false (some 1)⟩,
      ⟨3, .rowCreate 3 none none⟩, ⟨4, .eventApplied false 1 (some 3)⟩, ⟨5, .cursorWrite false 1⟩,
      ⟨6, .rowUpdate 3 (some 1) (some 1)⟩, ⟨7, .providerWrite true true (some 1)⟩] = false := by decide

/-- … and with the cursor saved BEFORE the event it covers is committed -/
theorem check_rejects_cursor_before_event :
    check [⟨0, .cursorWrite false 0⟩, ⟨1, .walkWrite false⟩, ⟨2, .providerWrite false false (some 1)⟩,
      ⟨3, .cursorWrite false 1⟩, ⟨4, .rowCreate 3 none none⟩, ⟨5, .eventApplied false 1 (some 3)⟩] = false := by decide

/-- an event reported handled while its entry exists only in memory (no stored row) is rejected: the cursor may not move
    past it (the shape: id-style provider, new path-less entries whose first storage write is skipped) -/
theorem check_rejects_handled_without_row :
    check [⟨0, .cursorWrite false 0⟩, ⟨1, .walkWrite false⟩, ⟨2, .providerWrite false false (some 1)⟩,
      ⟨3, .eventApplied false 1 (some 3)⟩, ⟨4, .cursorWrite false 1⟩] = false := by decide

/-- … and if the harness (correctly) does not report the event handled, the cursor write is what is rejected -/
theorem check_rejects_cursor_past_uncommitted_entry :
    check [⟨0, .cursorWrite false 0⟩, ⟨1, .walkWrite false⟩, ⟨2, .providerWrite false false (some 1)⟩,
      ⟨3, .cursorWrite false 1⟩] = false := by decide

/-- without the rule the storage left by a crash right after the early commit WOULD claim unreflected work: the state is not
    `Consistent` (so `Consistent` is not vacuous and the rule is what excludes it) -/
theorem early_commit_state_inconsistent :
    ¬ Consistent ⟨7, [⟨3, some 1, some 1⟩], ⟨[1], [1], 0, some 1, true⟩, ⟨[], [], 0, none, false⟩⟩ := by decide

/-- before the walk marker is stored a cursor may be ahead (a restart walks again): accepted, and `Consistent` -/
theorem cursor_before_walk_marker_ok :
    check [⟨0, .cursorWrite true 5⟩, ⟨1, .rowCreate 1 none none⟩, ⟨2, .walkWrite true⟩, ⟨3, .eventApplied true 6 none⟩,
      ⟨4, .cursorWrite true 6⟩] = true := by decide

/-- non-vacuity of the main theorem's conclusion on the sample: the crash cut after the engine's provider write (k = 7) leaves
    a consistent storage that does NOT yet claim the transfer -/
example : ∃ st, run St.init (sampleLog.take 7) = .ok st ∧ Consistent st ∧ st.rows = [⟨3, none, none⟩] ∧ CrashCut sampleLog 7 := by
  refine ⟨_, rfl, by decide, rfl, Or.inr ⟨6, _, rfl, rfl, rfl⟩⟩

end CS.Spec.Crash
