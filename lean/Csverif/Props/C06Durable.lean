import Csverif.Proofs.Durable
/-
C06 - durable coverage of the intake step (Model/Durable.lean): with the dirty set and the commit explicit,

  durable_coverage        for EVERY sequence of steps - faults and restarts anywhere - that respects the write order of the
                          code as it is (dirty set empty whenever the walk marker or the cursor is written; a walk only without a
                          stored marker):
                            marker stored  =>  every entry the walk found is stored
                            cursor stored at p  =>  every event recorded beyond the cursor of its time and <= p is stored
  restart_rediscovers     hence after any restart what a walk found is stored, or the next engine walks again
  monitor_sound           the executable monitor the harness runs over recorded write-order traces of the real EventManager
                          accepts only disciplined traces
  batch_commit_breaks     kernel-checked witness: with ONE commit at the end of the batch (marker written before it), a fault after
                          the walk and a restart leave "marker stored, finding not stored, no walk needed"
The order itself is tied to the source by the recorded traces (harness, layer `durable`) and by Props/C06Sites.lean.
-/
namespace CS.Durable
set_option linter.unusedVariables false

theorem dcB_iff (s : St) : dcB s = true ↔ DC s := by
  have key : ∀ p : Int, (∀ x ∈ s.seen, p < x ∨ Ent.ev x ∈ s.stored) ↔ (∀ i ∈ s.seen, i ≤ p → Ent.ev i ∈ s.stored) := by
    intro p
    constructor
    · intro h i hi hle
      rcases h i hi with h | h
      · omega
      · exact h
    · intro h i hi
      by_cases hle : i ≤ p
      · exact Or.inr (h i hi hle)
      · exact Or.inl (by omega)
  unfold dcB DC
  cases hm : s.marker <;> cases hc : s.cursor with
  | none => simp [List.contains_iff_mem]
  | some p =>
    simp [List.contains_iff_mem]
    first
      | exact key p
      | (intro _; exact key p)

/-- **durable_coverage** -/
theorem durable_coverage (steps : List Step) (hd : Disciplined {} steps) : DC (run {} steps) :=
  (run_inv {} steps hd init_inv).1

/-- … at every point of the run, not only at its end -/
theorem durable_coverage_prefix (pre post : List Step) (hd : Disciplined {} (pre ++ post)) : DC (run {} pre) := by
  have : ∀ (s : St) (a b : List Step), Disciplined s (a ++ b) → Disciplined s a := by
    intro s a
    induction a generalizing s with
    | nil => intro _ _; trivial
    | cons x xs ih => intro b h; exact ⟨h.1, ih _ b h.2⟩
  exact durable_coverage pre (this {} pre post hd)

/-- **restart_rediscovers**: after a restart, what the last walk found is stored - or the new engine needs a walk -
    and every recorded event at or below the stored cursor is stored (those above it are replayed, restart_replays_suffix) -/
theorem restart_rediscovers (s : St) (h : DC s) :
    ((step s .restart).needWalk = true ∨ ∀ e ∈ s.found, e ∈ s.stored) ∧
    (∀ p, s.cursor = some p → ∀ i ∈ s.seen, i ≤ p → Ent.ev i ∈ s.stored) := by
  refine ⟨?_, h.2⟩
  cases hm : s.marker
  · left; simp [step, hm]
  · right; exact h.1 hm

/-- **monitor_sound**: a trace the monitor accepts is disciplined and keeps durable coverage at every step -/
theorem monitor_sound (s : St) (n : Nat) (steps : List Step) (h : monitor s n steps = none) :
    Disciplined s steps ∧ (DC s → DC (run s steps)) := by
  induction steps generalizing s n with
  | nil => exact ⟨trivial, id⟩
  | cons a as ih =>
    simp only [monitor] at h
    split at h
    · simp at h
    · rename_i hok
      split at h
      · simp at h
      · rename_i hdc
        have hok' : ok s a = true := by simpa using hok
        have hdc' : DC (step s a) := (dcB_iff _).mp (by simpa using hdc)
        obtain ⟨hd, hrun⟩ := ih (step s a) (n + 1) h
        exact ⟨⟨hok', hd⟩, fun _ => hrun hdc'⟩

/-- the intake step after a lost cursor in the order of the code as it is: marker dropped, cursor re-seeded, each finding
    committed before the marker, each event committed before the cursor - cut by a fault after the walk, then a restart -/
def currentOrderCut : List Step :=
  [.dropMarker, .writeCursor 5, .walkBegin, .walkRecord 0, .commit, .walkRecord 1, .commit, .writeMarker, .fault, .restart]

/-- the same with one commit for the whole batch (the marker is still written right after the walk loop) -/
def batchOrderCut : List Step :=
  [.dropMarker, .writeCursor 5, .walkBegin, .walkRecord 0, .walkRecord 1, .writeMarker, .fault, .restart]

theorem current_order_is_safe :
    monitor {} 0 currentOrderCut = none ∧ (run {} currentOrderCut).stored = [.w 1, .w 0] := by decide

/-- **batch_commit_breaks** (kernel-checked): the discipline is violated at the marker write, durable coverage is lost, and the
    restarted engine has no reason to walk again while nothing the walk found is stored -/
theorem batch_commit_breaks :
    monitor {} 0 batchOrderCut = some (5, .writeMarker, true) ∧
    dcB (run {} batchOrderCut) = false ∧ (run {} batchOrderCut).needWalk = false ∧
    (run {} batchOrderCut).stored = [] ∧ (run {} batchOrderCut).marker = true := by decide

theorem batch_commit_not_DC : ¬ DC (run {} batchOrderCut) := by
  rw [← dcB_iff]; decide

end CS.Durable
