import Csverif.Model.SqlSite
import Csverif.Gen.SqlSites
/-
C09 — static tie of the storage model to the SQL that cloudsync/sync/sqlite_storage.py really issues.

`Gen/SqlSites.lean` is regenerated from the repo under test on every run of the C09 check (tools/gen_sql_sites.py).
This module is deliberately NOT imported by `Csverif.lean`: a changed table must break C09's obligation, not the build
of the other properties; the C09 harness builds it explicitly (harness/c09_storage.py `sql_sites_obligation`).

`auditedSqlSites` is the table as read and audited by hand against Model/Storage.lean `Sqlite.step`:
  * every statement goes through `self.__db_execute`, whose two `self.db.execute` calls and the `fetchall` are inside
    `with self._mutex:` (statement atomicity: the hypothesis of `creates_survive`);
  * one statement per interface operation, none in a loop, none with LIMIT / OFFSET / ORDER BY, no early `return` /
    `raise` before it: the Python control flow around the cursor calls does not depend on the number of rows, so the
    un-paged model `Sqlite.step … (.readAll tag)` is what the code computes for every table size
    (cf. `paged_read_all_invisible` / `paged_off_by_one_loses_row` in Props/C09.lean for what a paged rewrite must satisfy);
  * the statements that address one row carry the key `WHERE id = ? AND tag = ?` (model: `Sqlite.hits`), `read_all(tag)`
    carries `WHERE tag = ?` (model: `filter (·.tag == tag)`), `read_all()` no `WHERE` at all.
A rewrite of any statement, a new loop, LIMIT, cache-style early exit or a cursor call outside the mutex changes the generated
table, `sql_sites_are_known` stops checking, and the C09 check searches for a failing input with the size-scaling generators.
-/
namespace CS.Storage

def auditedSqlSites : List SqlSite := [
  { method := "SqliteStorage.__db_connect", kind := "call", callee := "self.close",
    sql := "",
    toks := [],
    params := "", ctx := "If", inLoop := false, underMutex := false,
    hasLimit := false, hasOffset := false, hasOrderBy := false, result := "", exitsBefore := 0 },
  { method := "SqliteStorage.__db_connect", kind := "call", callee := "sqlite3.connect",
    sql := "",
    toks := [],
    params := "self._filename", ctx := "", inLoop := false, underMutex := false,
    hasLimit := false, hasOffset := false, hasOrderBy := false, result := "", exitsBefore := 0 },
  { method := "SqliteStorage.__db_execute", kind := "stmt", callee := "self.db.execute",
    sql := "{param:sql}",
    toks := ["{param:sql}"],
    params := "parameters", ctx := "With(self._mutex)>Try", inLoop := false, underMutex := true,
    hasLimit := false, hasOffset := false, hasOrderBy := false, result := ".fetchall", exitsBefore := 0 },
  { method := "SqliteStorage.__db_execute", kind := "stmt", callee := "self.db.execute",
    sql := "{param:sql}",
    toks := ["{param:sql}"],
    params := "parameters", ctx := "With(self._mutex)>Except(sqlite3.OperationalError)", inLoop := false, underMutex := true,
    hasLimit := false, hasOffset := false, hasOrderBy := false, result := ".fetchall", exitsBefore := 0 },
  { method := "SqliteStorage.__db_execute", kind := "call", callee := "retval.fetchall",
    sql := "",
    toks := [],
    params := "", ctx := "With(self._mutex)>If", inLoop := false, underMutex := true,
    hasLimit := false, hasOffset := false, hasOrderBy := false, result := "", exitsBefore := 0 },
  { method := "SqliteStorage._ensure_table_exists", kind := "stmt", callee := "self.__db_execute",
    sql := "PRAGMA journal_mode=WAL;",
    toks := ["PRAGMA", "JOURNAL_MODE", "=", "WAL", ";"],
    params := "", ctx := "", inLoop := false, underMutex := true,
    hasLimit := false, hasOffset := false, hasOrderBy := false, result := "", exitsBefore := 0 },
  { method := "SqliteStorage._ensure_table_exists", kind := "stmt", callee := "self.__db_execute",
    sql := "PRAGMA busy_timeout=5000;",
    toks := ["PRAGMA", "BUSY_TIMEOUT", "=", "5000", ";"],
    params := "", ctx := "", inLoop := false, underMutex := true,
    hasLimit := false, hasOffset := false, hasOrderBy := false, result := "", exitsBefore := 0 },
  { method := "SqliteStorage._ensure_table_exists", kind := "stmt", callee := "self.__db_execute",
    sql := "CREATE TABLE IF NOT EXISTS cloud (id INTEGER PRIMARY KEY, tag TEXT NOT NULL, serialization BLOB)",
    toks := ["CREATE", "TABLE", "IF", "NOT", "EXISTS", "CLOUD", "(", "ID", "INTEGER", "PRIMARY", "KEY", ",", "TAG", "TEXT", "NOT", "NULL", ",", "SERIALIZATION", "BLOB", ")"],
    params := "", ctx := "", inLoop := false, underMutex := true,
    hasLimit := false, hasOffset := false, hasOrderBy := false, result := "", exitsBefore := 0 },
  { method := "SqliteStorage._ensure_table_exists", kind := "stmt", callee := "self.__db_execute",
    sql := "CREATE INDEX IF NOT EXISTS cloud_tag_ix on cloud(tag)",
    toks := ["CREATE", "INDEX", "IF", "NOT", "EXISTS", "CLOUD_TAG_IX", "ON", "CLOUD", "(", "TAG", ")"],
    params := "", ctx := "", inLoop := false, underMutex := true,
    hasLimit := false, hasOffset := false, hasOrderBy := false, result := "", exitsBefore := 0 },
  { method := "SqliteStorage._ensure_table_exists", kind := "stmt", callee := "self.__db_execute",
    sql := "CREATE INDEX IF NOT EXISTS cloud_id_ix on cloud(id)",
    toks := ["CREATE", "INDEX", "IF", "NOT", "EXISTS", "CLOUD_ID_IX", "ON", "CLOUD", "(", "ID", ")"],
    params := "", ctx := "", inLoop := false, underMutex := true,
    hasLimit := false, hasOffset := false, hasOrderBy := false, result := "", exitsBefore := 0 },
  { method := "SqliteStorage.create", kind := "stmt", callee := "self.__db_execute",
    sql := "INSERT INTO cloud (tag, serialization) VALUES (?, ?)",
    toks := ["INSERT", "INTO", "CLOUD", "(", "TAG", ",", "SERIALIZATION", ")", "VALUES", "(", "?", ",", "?", ")"],
    params := "[tag, serialization]", ctx := "", inLoop := false, underMutex := true,
    hasLimit := false, hasOffset := false, hasOrderBy := false, result := ".lastrowid", exitsBefore := 0 },
  { method := "SqliteStorage.update", kind := "stmt", callee := "self.__db_execute",
    sql := "UPDATE cloud SET serialization = ? WHERE id = ? AND tag = ?",
    toks := ["UPDATE", "CLOUD", "SET", "SERIALIZATION", "=", "?", "WHERE", "ID", "=", "?", "AND", "TAG", "=", "?"],
    params := "[serialization, eid, tag]", ctx := "", inLoop := false, underMutex := true,
    hasLimit := false, hasOffset := false, hasOrderBy := false, result := ".rowcount", exitsBefore := 0 },
  { method := "SqliteStorage.delete", kind := "stmt", callee := "self.__db_execute",
    sql := "DELETE FROM cloud WHERE id = ? AND tag = ?",
    toks := ["DELETE", "FROM", "CLOUD", "WHERE", "ID", "=", "?", "AND", "TAG", "=", "?"],
    params := "[eid, tag]", ctx := "", inLoop := false, underMutex := true,
    hasLimit := false, hasOffset := false, hasOrderBy := false, result := ".rowcount", exitsBefore := 0 },
  { method := "SqliteStorage.read_all", kind := "stmt", callee := "self.__db_execute",
    sql := "SELECT id, tag, serialization FROM cloud WHERE tag = ?",
    toks := ["SELECT", "ID", ",", "TAG", ",", "SERIALIZATION", "FROM", "CLOUD", "WHERE", "TAG", "=", "?"],
    params := "[tag]", ctx := "If", inLoop := false, underMutex := true,
    hasLimit := false, hasOffset := false, hasOrderBy := false, result := "fetch=True for", exitsBefore := 0 },
  { method := "SqliteStorage.read_all", kind := "stmt", callee := "self.__db_execute",
    sql := "SELECT id, tag, serialization FROM cloud",
    toks := ["SELECT", "ID", ",", "TAG", ",", "SERIALIZATION", "FROM", "CLOUD"],
    params := "", ctx := "If>else", inLoop := false, underMutex := true,
    hasLimit := false, hasOffset := false, hasOrderBy := false, result := "fetch=True for", exitsBefore := 0 },
  { method := "SqliteStorage.read_all", kind := "loop", callee := "",
    sql := "for row in rows",
    toks := [],
    params := "", ctx := "", inLoop := false, underMutex := false,
    hasLimit := false, hasOffset := false, hasOrderBy := false, result := "", exitsBefore := 0 },
  { method := "SqliteStorage.read", kind := "stmt", callee := "self.__db_execute",
    sql := "SELECT serialization FROM cloud WHERE id = ? and tag = ?",
    toks := ["SELECT", "SERIALIZATION", "FROM", "CLOUD", "WHERE", "ID", "=", "?", "AND", "TAG", "=", "?"],
    params := "[eid, tag]", ctx := "", inLoop := false, underMutex := true,
    hasLimit := false, hasOffset := false, hasOrderBy := false, result := "fetch=True for", exitsBefore := 0 },
  { method := "SqliteStorage.read", kind := "loop", callee := "",
    sql := "for row in rows",
    toks := [],
    params := "", ctx := "", inLoop := false, underMutex := false,
    hasLimit := false, hasOffset := false, hasOrderBy := false, result := "", exitsBefore := 0 },
  { method := "SqliteStorage.close", kind := "call", callee := "self.db.close",
    sql := "",
    toks := [],
    params := "", ctx := "Try", inLoop := false, underMutex := false,
    hasLimit := false, hasOffset := false, hasOrderBy := false, result := "", exitsBefore := 0 }
]

/-- the SQL sites of the repo under test are exactly the audited ones -/
theorem sql_sites_are_known : CS.Gen.sqlSites = auditedSqlSites := by decide

/-- one statement per model branch, with the parameters in the order of the placeholders, and the result used the way
    the model says (`lastrowid` → `.id`, `rowcount` → `.count` / `ValueError`, fetched rows → `.val` / `.rows`) -/
theorem sql_statements_match_model :
    stmtShapes auditedSqlSites =
      [ ("SqliteStorage.__db_execute", .passThrough, "parameters", ".fetchall"),
        ("SqliteStorage.__db_execute", .passThrough, "parameters", ".fetchall"),
        ("SqliteStorage._ensure_table_exists", .schema, "", ""),
        ("SqliteStorage._ensure_table_exists", .schema, "", ""),
        ("SqliteStorage._ensure_table_exists", .schema, "", ""),
        ("SqliteStorage._ensure_table_exists", .schema, "", ""),
        ("SqliteStorage._ensure_table_exists", .schema, "", ""),
        ("SqliteStorage.create", .insertTagVal, "[tag, serialization]", ".lastrowid"),
        ("SqliteStorage.update", .updateByIdTag, "[serialization, eid, tag]", ".rowcount"),
        ("SqliteStorage.delete", .deleteByIdTag, "[eid, tag]", ".rowcount"),
        ("SqliteStorage.read_all", .selectAllByTag, "[tag]", "fetch=True for"),
        ("SqliteStorage.read_all", .selectAll, "", "fetch=True for"),
        ("SqliteStorage.read", .selectValByIdTag, "[eid, tag]", "fetch=True for") ] := by decide

/-- `read_all` is a single un-paged SELECT per form: exactly two statement rows, one in each branch of the `if tag is not None`,
    neither in a loop nor with LIMIT / OFFSET / ORDER BY; the only loop of the method iterates over the fetched rows and
    contains no cursor call -/
theorem read_all_is_one_unpaged_select :
    (auditedSqlSites.filter (fun s => s.method == "SqliteStorage.read_all")).map
        (fun s => (s.kind, shapeOf s.toks, s.ctx, s.inLoop, s.hasLimit || s.hasOffset || s.hasOrderBy, s.result)) =
      [ ("stmt", .selectAllByTag, "If", false, false, "fetch=True for"),
        ("stmt", .selectAll, "If>else", false, false, "fetch=True for"),
        ("loop", .other, "", false, false, "") ] := by decide

/-- no statement and no cursor call anywhere in the file depends on the table size: none is inside a loop, none has
    LIMIT / OFFSET / ORDER BY (extractor flags and token lists agree), none can be skipped by an earlier `return` / `raise`;
    no loop of the file contains a cursor call; there is no SQL literal that does not reach a cursor call -/
theorem sql_size_independent :
    (auditedSqlSites.all fun s => s.kind != "stmt" || sizeIndependent s) = true ∧
    (auditedSqlSites.all fun s => s.kind != "call" || !s.inLoop) = true ∧
    (auditedSqlSites.all fun s => s.kind != "loop" || (s.result == "" && !s.inLoop)) = true ∧
    (auditedSqlSites.all fun s => s.kind != "sqlstr") = true ∧
    (auditedSqlSites.all fun s => s.hasLimit == mentions "LIMIT" s.toks && s.hasOffset == mentions "OFFSET" s.toks
        && s.hasOrderBy == mentionsOrderBy s.toks) = true := by decide

/-- every statement, and the only fetch, runs under the connection mutex: the interface methods reach the connection only
    through `__db_execute`, whose `execute` (first try and retry after reconnect) and `fetchall` are inside `with self._mutex:`;
    `fetchone` / `fetchmany` / `executemany` / `executescript` are not used -/
theorem sql_under_mutex :
    (auditedSqlSites.all fun s => s.kind != "stmt" || s.underMutex) = true ∧
    (auditedSqlSites.all fun s => s.kind != "stmt" ||
        (s.callee == "self.__db_execute" || (s.method == "SqliteStorage.__db_execute" && s.callee == "self.db.execute"))) = true ∧
    ((auditedSqlSites.filter (fun s => s.kind == "call")).map (fun s => (s.method, s.callee, s.underMutex)) =
      [ ("SqliteStorage.__db_connect", "self.close", false),
        ("SqliteStorage.__db_connect", "sqlite3.connect", false),
        ("SqliteStorage.__db_execute", "retval.fetchall", true),
        ("SqliteStorage.close", "self.db.close", false) ]) := by decide

/-- the statements that address one row carry the `id AND tag` key exactly where the model's `hits` compares both;
    the tag-wide SELECT carries the tag predicate, the table-wide one no predicate -/
theorem sql_keys_match_model :
    (auditedSqlSites.all fun s => s.kind != "stmt" ||
        (match shapeOf s.toks with
         | .updateByIdTag | .deleteByIdTag | .selectValByIdTag => keyedByIdAndTag s.toks
         | .selectAllByTag => ["WHERE", "TAG", "=", "?"].isSuffixOf s.toks && !mentions "ID" (s.toks.drop 6)
         | .selectAll => !mentions "WHERE" s.toks
         | .insertTagVal | .schema | .passThrough => true
         | .other => false)) = true := by decide

/-- non-vacuity: the audited table has the 13 statement rows, 4 other cursor calls and 2 loops -/
example : ((auditedSqlSites.filter (·.kind == "stmt")).length, (auditedSqlSites.filter (·.kind == "call")).length,
           (auditedSqlSites.filter (·.kind == "loop")).length) = (13, 4, 2) := by decide

end CS.Storage
