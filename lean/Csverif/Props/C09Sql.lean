import Csverif.Model.SqlSite
import Csverif.Gen.SqlSites
/-
C09 — static tie of the storage model to the SQL that cloudsync/sync/sqlite_storage.py really issues.

`Gen/SqlSites.lean` is regenerated from the repo under test on every run of the C09 check (tools/gen_sql_sites.py).
This module is deliberately NOT imported by `Csverif.lean`: a changed table must break C09's obligation, not the build
of the other properties; the C09 harness builds it explicitly (harness/c09_storage.py `sql_sites_obligation`).

`auditedSqlSites` is the table as read and audited by hand against Model/Storage.lean `Sqlite.step`:
  * every statement goes through `self.__db_execute`, whose two `self.db.execute` calls and the `fetchall` are inside
    `with self._mutex:` (statement atomicity: the hypothesis of `creates_survive`);
  * one statement per interface operation, none in a loop, none with LIMIT / OFFSET / ORDER BY, no early `return` /
    `raise` before it: the Python control flow around the cursor calls does not depend on the number of rows, so the
    un-paged model `Sqlite.step … (.readAll tag)` is what the code computes for every table size
    (cf. `paged_read_all_invisible` / `paged_off_by_one_loses_row` in Props/C09.lean for what a paged rewrite must satisfy);
  * the statements that address one row carry the key `WHERE id = ? AND tag = ?` (model: `Sqlite.hits`), `read_all(tag)`
    carries `WHERE tag = ?` (model: `filter (·.tag == tag)`), `read_all()` no `WHERE` at all.
  * connection configuration (round 4): the object only ever uses connections made by `__db_connect` - from `__init__` and from
    the `except sqlite3.OperationalError` branch of `__db_execute` (reconnect, then ONE retry; a second error propagates: model
    `Conn.attempt`); autocommit (`isolation_level=None`) is an argument of the one `sqlite3.connect` call, i.e. set on EVERY
    connect path (`code_cfg_autocommit`: the `Conn.Cfg` of the code is (true, true), the hypothesis `Conn.Good` of
    `conn_run_refines` / `acknowledged_visible_everywhere`); nothing ever leaves autocommit or manages transactions by hand
    (`code_stays_autocommit`); the settings made on the init-only path are `PRAGMA journal_mode=WAL` (a property of the file, kept
    by every later connection) and `PRAGMA busy_timeout=5000` (= the `timeout=5` every connect call passes).
A rewrite of any statement, a new loop, LIMIT, cache-style early exit or a cursor call outside the mutex changes the generated
table, `sql_sites_are_known` stops checking, and the C09 check searches for a failing input with the size-scaling generators.
-/
namespace CS.Storage

def auditedSqlSites : List SqlSite := [
  { method := "SqliteStorage.__init__", kind := "call", callee := "self.__db_connect",
    sql := "",
    toks := ["__db_connect"],
    params := "", ctx := "", inLoop := false, underMutex := false,
    hasLimit := false, hasOffset := false, hasOrderBy := false, result := "", exitsBefore := 0, reach := "init-only" },
  { method := "SqliteStorage.__db_connect", kind := "call", callee := "self.close",
    sql := "",
    toks := ["close"],
    params := "", ctx := "If", inLoop := false, underMutex := false,
    hasLimit := false, hasOffset := false, hasOrderBy := false, result := "", exitsBefore := 0, reach := "connect" },
  { method := "SqliteStorage.__db_connect", kind := "call", callee := "sqlite3.connect",
    sql := "",
    toks := ["connect"],
    params := "self._filename", ctx := "", inLoop := false, underMutex := false,
    hasLimit := false, hasOffset := false, hasOrderBy := false, result := "", exitsBefore := 0, reach := "connect" },
  { method := "SqliteStorage.__db_connect", kind := "connkw", callee := "sqlite3.connect",
    sql := "arg0",
    toks := [],
    params := "self._filename", ctx := "", inLoop := false, underMutex := false,
    hasLimit := false, hasOffset := false, hasOrderBy := false, result := "", exitsBefore := 0, reach := "connect" },
  { method := "SqliteStorage.__db_connect", kind := "connkw", callee := "sqlite3.connect",
    sql := "uri",
    toks := [],
    params := "self._filename.startswith('file:')", ctx := "", inLoop := false, underMutex := false,
    hasLimit := false, hasOffset := false, hasOrderBy := false, result := "", exitsBefore := 0, reach := "connect" },
  { method := "SqliteStorage.__db_connect", kind := "connkw", callee := "sqlite3.connect",
    sql := "check_same_thread",
    toks := [],
    params := "self._filename == ':memory:'", ctx := "", inLoop := false, underMutex := false,
    hasLimit := false, hasOffset := false, hasOrderBy := false, result := "", exitsBefore := 0, reach := "connect" },
  { method := "SqliteStorage.__db_connect", kind := "connkw", callee := "sqlite3.connect",
    sql := "timeout",
    toks := [],
    params := "5", ctx := "", inLoop := false, underMutex := false,
    hasLimit := false, hasOffset := false, hasOrderBy := false, result := "", exitsBefore := 0, reach := "connect" },
  { method := "SqliteStorage.__db_connect", kind := "connkw", callee := "sqlite3.connect",
    sql := "isolation_level",
    toks := [],
    params := "None", ctx := "", inLoop := false, underMutex := false,
    hasLimit := false, hasOffset := false, hasOrderBy := false, result := "", exitsBefore := 0, reach := "connect" },
  { method := "SqliteStorage.__db_execute", kind := "stmt", callee := "self.db.execute",
    sql := "{param:sql}",
    toks := ["{param:sql}"],
    params := "parameters", ctx := "With(self._mutex)>Try", inLoop := false, underMutex := true,
    hasLimit := false, hasOffset := false, hasOrderBy := false, result := ".fetchall", exitsBefore := 0, reach := "any" },
  { method := "SqliteStorage.__db_execute", kind := "call", callee := "self.__db_connect",
    sql := "",
    toks := ["__db_connect"],
    params := "", ctx := "With(self._mutex)>Except(sqlite3.OperationalError)", inLoop := false, underMutex := true,
    hasLimit := false, hasOffset := false, hasOrderBy := false, result := "", exitsBefore := 0, reach := "any" },
  { method := "SqliteStorage.__db_execute", kind := "stmt", callee := "self.db.execute",
    sql := "{param:sql}",
    toks := ["{param:sql}"],
    params := "parameters", ctx := "With(self._mutex)>Except(sqlite3.OperationalError)", inLoop := false, underMutex := true,
    hasLimit := false, hasOffset := false, hasOrderBy := false, result := ".fetchall", exitsBefore := 0, reach := "any" },
  { method := "SqliteStorage.__db_execute", kind := "call", callee := "retval.fetchall",
    sql := "",
    toks := ["fetchall"],
    params := "", ctx := "With(self._mutex)>If", inLoop := false, underMutex := true,
    hasLimit := false, hasOffset := false, hasOrderBy := false, result := "", exitsBefore := 0, reach := "any" },
  { method := "SqliteStorage._ensure_table_exists", kind := "stmt", callee := "self.__db_execute",
    sql := "PRAGMA journal_mode=WAL;",
    toks := ["PRAGMA", "JOURNAL_MODE", "=", "WAL", ";"],
    params := "", ctx := "", inLoop := false, underMutex := true,
    hasLimit := false, hasOffset := false, hasOrderBy := false, result := "", exitsBefore := 0, reach := "init-only" },
  { method := "SqliteStorage._ensure_table_exists", kind := "stmt", callee := "self.__db_execute",
    sql := "PRAGMA busy_timeout=5000;",
    toks := ["PRAGMA", "BUSY_TIMEOUT", "=", "5000", ";"],
    params := "", ctx := "", inLoop := false, underMutex := true,
    hasLimit := false, hasOffset := false, hasOrderBy := false, result := "", exitsBefore := 0, reach := "init-only" },
  { method := "SqliteStorage._ensure_table_exists", kind := "stmt", callee := "self.__db_execute",
    sql := "CREATE TABLE IF NOT EXISTS cloud (id INTEGER PRIMARY KEY, tag TEXT NOT NULL, serialization BLOB)",
    toks := ["CREATE", "TABLE", "IF", "NOT", "EXISTS", "CLOUD", "(", "ID", "INTEGER", "PRIMARY", "KEY", ",", "TAG", "TEXT", "NOT", "NULL", ",", "SERIALIZATION", "BLOB", ")"],
    params := "", ctx := "", inLoop := false, underMutex := true,
    hasLimit := false, hasOffset := false, hasOrderBy := false, result := "", exitsBefore := 0, reach := "init-only" },
  { method := "SqliteStorage._ensure_table_exists", kind := "stmt", callee := "self.__db_execute",
    sql := "CREATE INDEX IF NOT EXISTS cloud_tag_ix on cloud(tag)",
    toks := ["CREATE", "INDEX", "IF", "NOT", "EXISTS", "CLOUD_TAG_IX", "ON", "CLOUD", "(", "TAG", ")"],
    params := "", ctx := "", inLoop := false, underMutex := true,
    hasLimit := false, hasOffset := false, hasOrderBy := false, result := "", exitsBefore := 0, reach := "init-only" },
  { method := "SqliteStorage._ensure_table_exists", kind := "stmt", callee := "self.__db_execute",
    sql := "CREATE INDEX IF NOT EXISTS cloud_id_ix on cloud(id)",
    toks := ["CREATE", "INDEX", "IF", "NOT", "EXISTS", "CLOUD_ID_IX", "ON", "CLOUD", "(", "ID", ")"],
    params := "", ctx := "", inLoop := false, underMutex := true,
    hasLimit := false, hasOffset := false, hasOrderBy := false, result := "", exitsBefore := 0, reach := "init-only" },
  { method := "SqliteStorage.create", kind := "stmt", callee := "self.__db_execute",
    sql := "INSERT INTO cloud (tag, serialization) VALUES (?, ?)",
    toks := ["INSERT", "INTO", "CLOUD", "(", "TAG", ",", "SERIALIZATION", ")", "VALUES", "(", "?", ",", "?", ")"],
    params := "[tag, serialization]", ctx := "", inLoop := false, underMutex := true,
    hasLimit := false, hasOffset := false, hasOrderBy := false, result := ".lastrowid", exitsBefore := 0, reach := "any" },
  { method := "SqliteStorage.update", kind := "stmt", callee := "self.__db_execute",
    sql := "UPDATE cloud SET serialization = ? WHERE id = ? AND tag = ?",
    toks := ["UPDATE", "CLOUD", "SET", "SERIALIZATION", "=", "?", "WHERE", "ID", "=", "?", "AND", "TAG", "=", "?"],
    params := "[serialization, eid, tag]", ctx := "", inLoop := false, underMutex := true,
    hasLimit := false, hasOffset := false, hasOrderBy := false, result := ".rowcount", exitsBefore := 0, reach := "any" },
  { method := "SqliteStorage.delete", kind := "stmt", callee := "self.__db_execute",
    sql := "DELETE FROM cloud WHERE id = ? AND tag = ?",
    toks := ["DELETE", "FROM", "CLOUD", "WHERE", "ID", "=", "?", "AND", "TAG", "=", "?"],
    params := "[eid, tag]", ctx := "", inLoop := false, underMutex := true,
    hasLimit := false, hasOffset := false, hasOrderBy := false, result := ".rowcount", exitsBefore := 0, reach := "any" },
  { method := "SqliteStorage.read_all", kind := "stmt", callee := "self.__db_execute",
    sql := "SELECT id, tag, serialization FROM cloud WHERE tag = ?",
    toks := ["SELECT", "ID", ",", "TAG", ",", "SERIALIZATION", "FROM", "CLOUD", "WHERE", "TAG", "=", "?"],
    params := "[tag]", ctx := "If", inLoop := false, underMutex := true,
    hasLimit := false, hasOffset := false, hasOrderBy := false, result := "fetch=True for", exitsBefore := 0, reach := "any" },
  { method := "SqliteStorage.read_all", kind := "stmt", callee := "self.__db_execute",
    sql := "SELECT id, tag, serialization FROM cloud",
    toks := ["SELECT", "ID", ",", "TAG", ",", "SERIALIZATION", "FROM", "CLOUD"],
    params := "", ctx := "If>else", inLoop := false, underMutex := true,
    hasLimit := false, hasOffset := false, hasOrderBy := false, result := "fetch=True for", exitsBefore := 0, reach := "any" },
  { method := "SqliteStorage.read_all", kind := "loop", callee := "",
    sql := "for row in rows",
    toks := [],
    params := "", ctx := "", inLoop := false, underMutex := false,
    hasLimit := false, hasOffset := false, hasOrderBy := false, result := "", exitsBefore := 0, reach := "any" },
  { method := "SqliteStorage.read", kind := "stmt", callee := "self.__db_execute",
    sql := "SELECT serialization FROM cloud WHERE id = ? and tag = ?",
    toks := ["SELECT", "SERIALIZATION", "FROM", "CLOUD", "WHERE", "ID", "=", "?", "AND", "TAG", "=", "?"],
    params := "[eid, tag]", ctx := "", inLoop := false, underMutex := true,
    hasLimit := false, hasOffset := false, hasOrderBy := false, result := "fetch=True for", exitsBefore := 0, reach := "any" },
  { method := "SqliteStorage.read", kind := "loop", callee := "",
    sql := "for row in rows",
    toks := [],
    params := "", ctx := "", inLoop := false, underMutex := false,
    hasLimit := false, hasOffset := false, hasOrderBy := false, result := "", exitsBefore := 0, reach := "any" },
  { method := "SqliteStorage.close", kind := "call", callee := "self.db.close",
    sql := "",
    toks := ["close"],
    params := "", ctx := "Try", inLoop := false, underMutex := false,
    hasLimit := false, hasOffset := false, hasOrderBy := false, result := "", exitsBefore := 0, reach := "any" }
]

/-- the SQL sites of the repo under test are exactly the audited ones -/
theorem sql_sites_are_known : CS.Gen.sqlSites = auditedSqlSites := by decide

/-- one statement per model branch, with the parameters in the order of the placeholders, and the result used the way
    the model says (`lastrowid` → `.id`, `rowcount` → `.count` / `ValueError`, fetched rows → `.val` / `.rows`) -/
theorem sql_statements_match_model :
    stmtShapes auditedSqlSites =
      [ ("SqliteStorage.__db_execute", .passThrough, "parameters", ".fetchall"),
        ("SqliteStorage.__db_execute", .passThrough, "parameters", ".fetchall"),
        ("SqliteStorage._ensure_table_exists", .schema, "", ""),
        ("SqliteStorage._ensure_table_exists", .schema, "", ""),
        ("SqliteStorage._ensure_table_exists", .schema, "", ""),
        ("SqliteStorage._ensure_table_exists", .schema, "", ""),
        ("SqliteStorage._ensure_table_exists", .schema, "", ""),
        ("SqliteStorage.create", .insertTagVal, "[tag, serialization]", ".lastrowid"),
        ("SqliteStorage.update", .updateByIdTag, "[serialization, eid, tag]", ".rowcount"),
        ("SqliteStorage.delete", .deleteByIdTag, "[eid, tag]", ".rowcount"),
        ("SqliteStorage.read_all", .selectAllByTag, "[tag]", "fetch=True for"),
        ("SqliteStorage.read_all", .selectAll, "", "fetch=True for"),
        ("SqliteStorage.read", .selectValByIdTag, "[eid, tag]", "fetch=True for") ] := by decide

/-- `read_all` is a single un-paged SELECT per form: exactly two statement rows, one in each branch of the `if tag is not None`,
    neither in a loop nor with LIMIT / OFFSET / ORDER BY; the only loop of the method iterates over the fetched rows and
    contains no cursor call -/
theorem read_all_is_one_unpaged_select :
    (auditedSqlSites.filter (fun s => s.method == "SqliteStorage.read_all")).map
        (fun s => (s.kind, shapeOf s.toks, s.ctx, s.inLoop, s.hasLimit || s.hasOffset || s.hasOrderBy, s.result)) =
      [ ("stmt", .selectAllByTag, "If", false, false, "fetch=True for"),
        ("stmt", .selectAll, "If>else", false, false, "fetch=True for"),
        ("loop", .other, "", false, false, "") ] := by decide

/-- no statement and no cursor call anywhere in the file depends on the table size: none is inside a loop, none has
    LIMIT / OFFSET / ORDER BY (extractor flags and token lists agree), none can be skipped by an earlier `return` / `raise`;
    no loop of the file contains a cursor call; there is no SQL literal that does not reach a cursor call -/
theorem sql_size_independent :
    (auditedSqlSites.all fun s => s.kind != "stmt" || sizeIndependent s) = true ∧
    (auditedSqlSites.all fun s => s.kind != "call" || !s.inLoop) = true ∧
    (auditedSqlSites.all fun s => s.kind != "loop" || (s.result == "" && !s.inLoop)) = true ∧
    (auditedSqlSites.all fun s => s.kind != "sqlstr") = true ∧
    (auditedSqlSites.all fun s => s.hasLimit == mentions "LIMIT" s.toks && s.hasOffset == mentions "OFFSET" s.toks
        && s.hasOrderBy == mentionsOrderBy s.toks) = true := by decide

/-- every statement, and the only fetch, runs under the connection mutex: the interface methods reach the connection only
    through `__db_execute`, whose `execute` (first try and retry after reconnect) and `fetchall` are inside `with self._mutex:`;
    `fetchone` / `fetchmany` / `executemany` / `executescript` are not used -/
theorem sql_under_mutex :
    (auditedSqlSites.all fun s => s.kind != "stmt" || s.underMutex) = true ∧
    (auditedSqlSites.all fun s => s.kind != "stmt" ||
        (s.callee == "self.__db_execute" || (s.method == "SqliteStorage.__db_execute" && s.callee == "self.db.execute"))) = true ∧
    ((auditedSqlSites.filter (fun s => s.kind == "call")).map (fun s => (s.method, s.callee, s.underMutex)) =
      [ ("SqliteStorage.__init__", "self.__db_connect", false),
        ("SqliteStorage.__db_connect", "self.close", false),
        ("SqliteStorage.__db_connect", "sqlite3.connect", false),
        ("SqliteStorage.__db_execute", "self.__db_connect", true),
        ("SqliteStorage.__db_execute", "retval.fetchall", true),
        ("SqliteStorage.close", "self.db.close", false) ]) := by decide

/-- the statements that address one row carry the `id AND tag` key exactly where the model's `hits` compares both;
    the tag-wide SELECT carries the tag predicate, the table-wide one no predicate -/
theorem sql_keys_match_model :
    (auditedSqlSites.all fun s => s.kind != "stmt" ||
        (match shapeOf s.toks with
         | .updateByIdTag | .deleteByIdTag | .selectValByIdTag => keyedByIdAndTag s.toks
         | .selectAllByTag => ["WHERE", "TAG", "=", "?"].isSuffixOf s.toks && !mentions "ID" (s.toks.drop 6)
         | .selectAll => !mentions "WHERE" s.toks
         | .insertTagVal | .schema | .passThrough => true
         | .other => false)) = true := by decide

/-! ### connection configuration (round 4) -/

/-- every connection-configuration site, with the call paths that reach it: the connect call and its arguments (run for EVERY
    connection), the two (re)connect sites - `__init__` and the `except sqlite3.OperationalError` branch of `__db_execute` -,
    the per-connection PRAGMAs (init-only path) and the two `close` calls; there is no assignment to `isolation_level` /
    `autocommit` / `row_factory` / `text_factory` anywhere -/
theorem conn_config_sites :
    ((auditedSqlSites.filter (fun s => s.kind == "connkw" || s.kind == "connattr" || s.kind == "call" ||
          (s.kind == "stmt" && s.toks.head? == some "PRAGMA"))).filter (fun s => s.toks != ["fetchall"])).map
        (fun s => (s.method, s.kind, (if s.kind == "call" then s.callee else s.sql), s.params, s.ctx, s.reach)) =
      [ ("SqliteStorage.__init__", "call", "self.__db_connect", "", "", "init-only"),
        ("SqliteStorage.__db_connect", "call", "self.close", "", "If", "connect"),
        ("SqliteStorage.__db_connect", "call", "sqlite3.connect", "self._filename", "", "connect"),
        ("SqliteStorage.__db_connect", "connkw", "arg0", "self._filename", "", "connect"),
        ("SqliteStorage.__db_connect", "connkw", "uri", "self._filename.startswith('file:')", "", "connect"),
        ("SqliteStorage.__db_connect", "connkw", "check_same_thread", "self._filename == ':memory:'", "", "connect"),
        ("SqliteStorage.__db_connect", "connkw", "timeout", "5", "", "connect"),
        ("SqliteStorage.__db_connect", "connkw", "isolation_level", "None", "", "connect"),
        ("SqliteStorage.__db_execute", "call", "self.__db_connect", "", "With(self._mutex)>Except(sqlite3.OperationalError)", "any"),
        ("SqliteStorage._ensure_table_exists", "stmt", "PRAGMA journal_mode=WAL;", "", "", "init-only"),
        ("SqliteStorage._ensure_table_exists", "stmt", "PRAGMA busy_timeout=5000;", "", "", "init-only"),
        ("SqliteStorage.close", "call", "self.db.close", "", "Try", "any") ] := by decide

/-- every connection the object can ever use is configured for autocommit: the `Conn.Cfg` read off the sites is (true, true)
    - the hypothesis `Conn.Good` of the durability theorems of Props/C09.lean -/
theorem code_cfg_autocommit : cfgOf auditedSqlSites = { initAuto := true, reconnAuto := true } := by decide

/-- no statement runs outside autocommit: nothing sets another isolation level, uses `autocommit`, calls `commit()` /
    `rollback()` / `cursor()`, or issues BEGIN / COMMIT / ROLLBACK / SAVEPOINT -/
theorem code_stays_autocommit : staysAutocommit auditedSqlSites = true := by decide

/-- the error path of `__db_execute` is: `execute` inside `try`; on `sqlite3.OperationalError` reconnect and `execute` ONCE more
    (no loop, a second error propagates); `fetchall` outside the `try` (its error propagates) - what `Conn.attempt` / `Conn.step` model -/
theorem reconnect_is_one_retry :
    (auditedSqlSites.filter (fun s => s.method == "SqliteStorage.__db_execute")).map
        (fun s => (s.kind, (if s.kind == "call" then s.callee else s.sql), s.ctx, s.inLoop)) =
      [ ("stmt", "{param:sql}", "With(self._mutex)>Try", false),
        ("call", "self.__db_connect", "With(self._mutex)>Except(sqlite3.OperationalError)", false),
        ("stmt", "{param:sql}", "With(self._mutex)>Except(sqlite3.OperationalError)", false),
        ("call", "retval.fetchall", "With(self._mutex)>If", false) ] := by decide

/-- what the table function says about the R4-C09 shape (the autocommit argument removed from the connect call, an assignment
    on the init-only path instead): only the first connection is in autocommit mode - the configuration of the witness
    `non_autocommit_reconnect_loses_writes` -/
theorem cfg_of_init_only_autocommit :
    cfgOf ((auditedSqlSites.filter (fun s => !(s.kind == "connkw" && s.sql == "isolation_level"))) ++
      [{ method := "SqliteStorage._ensure_table_exists", kind := "connattr", callee := "self.db", sql := "isolation_level", toks := [],
         params := "None", ctx := "", inLoop := false, underMutex := false, hasLimit := false, hasOffset := false,
         hasOrderBy := false, result := "", exitsBefore := 0, reach := "init-only" }]) =
      { initAuto := true, reconnAuto := false } := by decide

/-- non-vacuity: the audited table has the 13 statement rows, 6 other calls, 2 loops and 5 connect arguments -/
example : ((auditedSqlSites.filter (·.kind == "stmt")).length, (auditedSqlSites.filter (·.kind == "call")).length,
           (auditedSqlSites.filter (·.kind == "loop")).length, (auditedSqlSites.filter (·.kind == "connkw")).length) = (13, 6, 2, 5) := by decide

end CS.Storage
