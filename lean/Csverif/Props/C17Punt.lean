import Csverif.Model.SchedSites
import Csverif.Props.C17Loop
/-
C17 — every failure of a sync step defers the entry: the audited `except`-clause tables of Model/SchedSites.lean
discharge the hypothesis `ProgressOnFailure` of the loop-level liveness theorem.

* `audited_every_exception_punts`   whatever `Exception` the sync work raises, the clause of `_sync_one_entry` Python
                                    selects (first match, subclass order) punts the entry and requests a backoff; it
                                    neither finishes the entry nor re-raises.
* `audited_first_match`             which clause each class lands in (`CloudOutOfSpaceError` and
                                    `CloudResourceModifiedError`, subclasses of `CloudTemporaryError`, land in the first).
* `audited_progress`                = `ProgressOnFailure auditedSyncOneEntry`.
* clauses that legitimately do not punt, stated: `audited_base_escapes` (a `BaseException` that is not an `Exception` —
  KeyboardInterrupt, SystemExit — is caught by no clause and leaves `do()` with the entry untouched: the service is being
  torn down); `audited_sync_too_many_retries` (the one clause of `sync()` marks the side FINISHED and is re-raised only
  on request, which `_sync_one_entry` never makes); `audited_do_no_handler`; `audited_punt_only_in_funnel` (no inner
  helper of the sync path punts or backs off in a handler: they convert the classes they know into return codes or
  re-raise, so everything else reaches the funnel).
* `loop_no_starvation_failures`     the liveness law with failures as exception classes: under `ProgressOnFailure`,
                                    as long as an eligible `y` has not been attempted, the iterations that raised —
                                    any class, any number of times, any entry — plus the normal returns that are not pure
                                    requeues number at most `potential y P`.
The tie to the source (generated table = audited table) is Props/C17Sites.lean.
-/
namespace CS.SchedSites
open CS.Faults CS.SchedLoop CS.Sched

theorem exc_all_complete (e : Exc) : e ∈ Exc.all := by cases e <;> decide

theorem progressOnFailure_of_all (cl : List Clause)
    (h : ∀ e ∈ Exc.all, isSub e .exception_ = true → (workOfExc cl e).progress = true) : ProgressOnFailure cl :=
  fun e he => h e (exc_all_complete e) he

/-- which clause of `_sync_one_entry` Python selects for each class -/
theorem audited_first_match :
    (∀ e ∈ [Exc.temporary, .outOfSpace, .resourceModified, .disconnected, .token, .namespace_],
      catches auditedSyncOneEntry e = auditedSyncOneEntry[0]?) ∧
    (∀ e ∈ [Exc.exception_, .cloudException, .fileNotFound, .fileName, .rootMissing, .fileExists, .cursor, .tooManyRetries,
            .corrupt, .backoffError, .otherException],
      catches auditedSyncOneEntry e = auditedSyncOneEntry[1]?) := by decide

/-- every `Exception` is caught, and the clause that catches it punts and backs off, nothing else -/
theorem audited_every_exception_punts (e : Exc) (he : isSub e .exception_ = true) :
    ∃ c, catches auditedSyncOneEntry e = some c ∧ c.punts = true ∧ c.backsOff = true ∧ c.finishes = false ∧
      c.raises = false := by
  have : ∀ e ∈ Exc.all, isSub e .exception_ = true →
      ∃ c, catches auditedSyncOneEntry e = some c ∧ c.punts = true ∧ c.backsOff = true ∧ c.finishes = false ∧
        c.raises = false := by decide
  exact this e (exc_all_complete e) he

theorem audited_progress : ProgressOnFailure auditedSyncOneEntry :=
  progressOnFailure_of_all _ (by decide)

/-- legitimately not punted: a BaseException outside Exception is caught by no clause -/
theorem audited_base_escapes :
    catches auditedSyncOneEntry .otherBase = none ∧ catches auditedSyncOneEntry .baseException = none ∧
    workOfExc auditedSyncOneEntry .otherBase = .stuck := by decide

/-- legitimately not punted: giving up after too many retries finishes the side -/
theorem audited_sync_too_many_retries :
    workOfClause (catches auditedSync .tooManyRetries) = .finished ∧ auditedSyncCalledPlain = true ∧
    (∀ e ∈ Exc.all, e ≠ .tooManyRetries → catches auditedSync e = none) := by decide

theorem audited_do_no_handler : auditedDo = [] := rfl

/-- no handler outside `_sync_one_entry` punts; none outside it and `_validate_provider_roots` backs off -/
theorem audited_punt_only_in_funnel :
    (∀ s ∈ auditedSites, s.punt = true → s.fn = "_sync_one_entry") ∧
    (∀ s ∈ auditedSites, s.backoff = true → s.fn = "_sync_one_entry" ∨ s.fn = "_validate_provider_roots") := by
  decide +kernel

/-! ## the liveness law with failures as exception classes -/

/-- what the sync work of one iteration does: returns normally (finished / punted / requeue), or raises -/
inductive Ev where
  | ok (w : Work)
  | exc (e : Exc)

def Ev.toWork (cl : List Clause) : Ev → Work
  | .ok w => w
  | .exc e => workOfExc cl e

/-- every failure counts towards the bound; a normal return counts unless it is a pure requeue -/
def Ev.counts : Ev → Bool
  | .ok w => w.progress
  | .exc _ => true

def toSteps (cl : List Clause) (evs : List (Ev × Rat)) : List Step :=
  evs.map (fun x => { work := x.1.toWork cl, dur := x.2 })

theorem filter_length_le_map {α β : Type} (p : α → Bool) (q : β → Bool) (f : α → β) (l : List α)
    (h : ∀ x ∈ l, p x = true → q (f x) = true) : (l.filter p).length ≤ ((l.map f).filter q).length := by
  induction l with
  | nil => simp
  | cons a l ih =>
    have iht := ih (fun x hx => h x (List.mem_cons_of_mem _ hx))
    simp only [List.filter_cons, List.map_cons]
    cases hp : p a with
    | true =>
      have := h a List.mem_cons_self hp
      simp only [this, if_true, List.length_cons]; omega
    | false =>
      simp only [Bool.false_eq_true, if_false]
      split
      · simp only [List.length_cons]; omega
      · exact iht

/-- **no starvation, failures as exception classes.**  Handler table `cl` with `ProgressOnFailure cl`; `y` queued and
    eligible.  As long as `y` is not attempted, every iteration attempts something, and the iterations whose sync work
    raised — any `Exception`, any entry, any number of times — together with the normal returns that are not pure
    requeues number at most `potential y P`. -/
theorem loop_no_starvation_failures (cl : List Clause) (hP : ProgressOnFailure cl)
    (c : Cfg) (hc : c.Sane) (y : Entry) (evs : List (Ev × Rat)) (L : Loop)
    (hy : y ∈ L.P) (hel : eligible y L.now c.age = true) (hd : ∀ x ∈ evs, 0 ≤ x.2)
    (hexc : ∀ x ∈ evs, ∀ e, x.1 = .exc e → isSub e .exception_ = true)
    (hnot : ∀ r ∈ (run c L (toSteps cl evs)).2, ∀ e, r.ent = some e → e.id ≠ y.id) :
    (∀ r ∈ (run c L (toSteps cl evs)).2, r.ent ≠ none) ∧
    (evs.filter (fun x => x.1.counts)).length ≤ potential y L.P := by
  have hd' : ∀ w ∈ toSteps cl evs, 0 ≤ w.dur := by
    intro w hw
    obtain ⟨x, hx, rfl⟩ := List.mem_map.1 hw
    exact hd x hx
  obtain ⟨h1, h2⟩ := loop_no_starvation c hc y (toSteps cl evs) L hy hel hd' hnot
  refine ⟨h1, le_trans ?_ h2⟩
  apply filter_length_le_map
  intro x hx hcnt
  cases hev : x.1 with
  | ok w => simp only [hev, Ev.counts] at hcnt; simpa [Ev.toWork, hev] using hcnt
  | exc e => simpa [Ev.toWork, hev] using hP e (hexc x hx e hev)

/-- for HEAD's table -/
theorem loop_no_starvation_head (c : Cfg) (hc : c.Sane) (y : Entry) (evs : List (Ev × Rat)) (L : Loop)
    (hy : y ∈ L.P) (hel : eligible y L.now c.age = true) (hd : ∀ x ∈ evs, 0 ≤ x.2)
    (hexc : ∀ x ∈ evs, ∀ e, x.1 = .exc e → isSub e .exception_ = true)
    (hnot : ∀ r ∈ (run c L (toSteps auditedSyncOneEntry evs)).2, ∀ e, r.ent = some e → e.id ≠ y.id) :
    (evs.filter (fun x => x.1.counts)).length ≤ potential y L.P :=
  (loop_no_starvation_failures _ audited_progress c hc y evs L hy hel hd hexc hnot).2

/-- the hypothesis is needed: a table whose out-of-space clause forgets the punt (the shape of a seeded regression)
    does not satisfy it, and then the same entry is attempted for ever -/
theorem progress_needed :
    let bad : List Clause := ⟨[.outOfSpace], false, false, true, false⟩ :: auditedSyncOneEntry
    ¬ ProgressOnFailure bad ∧
    (let c : Cfg := { age := 1, sleep := 1/8, punt := (1/4, 1/4), bp := ⟨1/4, 8, 2⟩ }
     let x : Entry := { id := 0, l := { changed := some 1000, oid := some "a" } }
     let y : Entry := { id := 1, l := { changed := some 1001, oid := some "b" } }
     ((run c { P := [x, y], now := 1010, backoff := 0 }
        (toSteps bad [(.exc .outOfSpace, 0), (.exc .outOfSpace, 0), (.exc .outOfSpace, 0), (.exc .outOfSpace, 0)])).2.map
          (fun r => r.ent.map (·.id))) = [some 0, some 0, some 0, some 0]) := by
  refine ⟨fun h => absurd (h .outOfSpace (by decide)) (by decide), by decide +kernel⟩

end CS.SchedSites
