import Csverif.Props.C12
import Csverif.Gen.WriteSites
/-
C12 — the generated write-site table equals the audited list.

`Gen/WriteSites.lean` is regenerated from the repo under test on every run of the C12 check
(tools/gen_write_sites.py).  This module is deliberately NOT imported by `Csverif.lean`: a changed table must
break C12's obligation, not the build of the other properties; the C12 harness builds it explicitly.
-/
namespace CS.Spec

/-- every call of a mutating provider-method name in manager.py / smartsync.py / state.py / cs.py, and the value
    flow of the path-valued targets, is exactly the audited list of Props/C12.lean (whose rows are all classified:
    `audited_rows_classified`) -/
theorem write_sites_are_known : CS.Gen.writeSites = auditedSites.map (·.1) := by decide

end CS.Spec
