import Csverif.Model.SchedLoop
import Csverif.Props.C17
import Mathlib.Data.Rat.Floor
/-
C17, the loop — "an entry that was deferred becomes eligible again after a bounded delay, so a
persistently failing entry cannot starve the others", for the whole sync loop.
Model: Model/SchedLoop.lean (`Runnable.run` around `SyncManager.do` over an abstract work queue).
All statements are for scripts (what `_sync_one_entry` does, how long it takes) of ANY length.

* `loop_attempt_eligible`   every attempt, first or repeated, is on an entry that is eligible at that
                            iteration's clock: a deferred entry is re-attempted only after its (shifted) change
                            stamp has aged again — or at once if its priority is negative.
* `iter_raised_gap`         after an attempt that raised, the next iteration starts at least
                            `min(max_backoff, min_backoff)` later (the backoff of C18, driven by the sync loop).
* `loop_no_starvation`      if `y` is in the queue and eligible, then — whatever the other entries do, fail
                            persistently, raise, get punted — every iteration attempts something, and as long as
                            `y` itself has not been attempted the number of iterations that are not pure
                            requeues is at most `potential y P`: the number of punts/completions it takes for
                            the entries that are at least as urgent as `y` to get out of its way.  The bound is
                            fixed when `y` becomes eligible; it does not grow with the failures of any other entry.
* `loop_attempts_within`    contrapositive: a script with more non-requeue iterations than that attempts `y`.
* `potential_le_length`, `weight_le_one_of_eq`   among equal priorities every other entry is attempted at most
                            once before `y`.
-/
namespace CS.SchedLoop
open CS.Sched

/-! ## time only moves forward -/

structure Cfg.Sane (c : Cfg) : Prop where
  age : 0 ≤ c.age
  sleep : 0 ≤ c.sleep

theorem sleepFor_nonneg (sleep b : Rat) (h : 0 ≤ sleep) : 0 ≤ Runnable.sleepFor sleep b := by
  unfold Runnable.sleepFor
  split
  · rename_i hb; exact le_of_lt hb
  · exact h

theorem iter_now_mono (c : Cfg) (hc : c.Sane) (L : Loop) (w : Step) (hd : 0 ≤ w.dur) :
    L.now ≤ (iter c L w).1.now := by
  unfold iter
  split
  · have := sleepFor_nonneg c.sleep (Runnable.after c.bp L.backoff .noop) hc.sleep
    have := hc.age
    simp only; linarith
  · have := sleepFor_nonneg c.sleep (Runnable.after c.bp L.backoff w.work.outcome) hc.sleep
    simp only; linarith

/-! ## every attempt is on an eligible entry -/

theorem iter_attempt (c : Cfg) (L : Loop) (w : Step) (e : Entry) (h : (iter c L w).2 = some e) :
    change L.P L.now c.age = some e := by
  unfold iter at h
  split at h
  · simp at h
  · rename_i e' he'
    simp only [Option.some.injEq] at h
    rw [he', h]

theorem iter_none (c : Cfg) (L : Loop) (w : Step) (h : (iter c L w).2 = none) :
    change L.P L.now c.age = none := by
  unfold iter at h
  split at h
  · assumption
  · simp at h

/-- every attempt — first or repeated — is on a pending entry that is eligible at the clock of that
    iteration: some side's (possibly punt-shifted) stamp is at least `age` old, or the priority is negative -/
theorem loop_attempt_eligible (c : Cfg) (ws : List Step) (L : Loop) :
    ∀ r ∈ (run c L ws).2, ∀ e, r.ent = some e → eligible e r.at_ c.age = true := by
  induction ws generalizing L with
  | nil => simp [run]
  | cons w ws ih =>
    intro r hr e he
    simp only [run] at hr
    rcases List.mem_cons.1 hr with rfl | hr
    · exact (change_returns_eligible _ _ _ e (iter_attempt c L w e he)).2
    · exact ih _ r hr e he

/-- an attempt that raised: the entry is punted, the backoff incremented, and the next iteration
    starts after that backoff -/
theorem iter_raised (c : Cfg) (L : Loop) (w : Step) (e : Entry) (h : (iter c L w).2 = some e)
    (hw : w.work = .raised) :
    (iter c L w).1.P = puntIn c.punt L.P e.id ∧
    (iter c L w).1.backoff = Runnable.incr c.bp L.backoff ∧
    (iter c L w).1.now = L.now + w.dur + Runnable.sleepFor c.sleep (Runnable.incr c.bp L.backoff) := by
  have hc := iter_attempt c L w e h
  unfold iter
  simp only [hc, hw, Work.apply, Work.outcome, Runnable.after, and_self]

theorem iter_raised_gap (c : Cfg) (L : Loop) (w : Step) (e : Entry) (h : (iter c L w).2 = some e)
    (hw : w.work = .raised) (hd : 0 ≤ w.dur) (hmn : 0 < c.bp.mn) (hmx : 0 < c.bp.mx) :
    L.now + min c.bp.mx c.bp.mn ≤ (iter c L w).1.now := by
  rw [(iter_raised c L w e h hw).2.2]
  have hpos : 0 < Runnable.incr c.bp L.backoff := by
    unfold Runnable.incr
    exact lt_min hmx (lt_of_lt_of_le hmn (le_max_right _ _))
  have hge : min c.bp.mx c.bp.mn ≤ Runnable.incr c.bp L.backoff := by
    unfold Runnable.incr
    exact min_le_min (le_refl _) (le_max_right _ _)
  have : Runnable.sleepFor c.sleep (Runnable.incr c.bp L.backoff) = Runnable.incr c.bp L.backoff := by
    unfold Runnable.sleepFor; simp [hpos]
  rw [this]; linarith

/-! ## the potential -/

/-- the model's `Rat.floor` is Mathlib's floor -/
theorem ratFloor_eq (q : ℚ) : Rat.floor q = ⌊q⌋ := rfl

theorem weight_pos (y z : Entry) (hid : z.id ≠ y.id) (hle : z.priority ≤ y.priority) : 0 < weight y z := by
  simp only [weight, hid, if_false, hle, if_true, ratFloor_eq]; omega

theorem weight_punt (p : Rat × Rat) (y z : Entry) (hid : z.id ≠ y.id) (hle : z.priority ≤ y.priority) :
    weight y (puntE p z) + 1 = weight y z := by
  have hid' : (puntE p z).id ≠ y.id := by rw [puntE_id]; exact hid
  simp only [weight, hid, hid', if_false, hle, if_true, puntE_priority, ratFloor_eq]
  have hnn : 0 ≤ y.priority - z.priority := by linarith
  have hfl : 0 ≤ ⌊y.priority - z.priority⌋ := Int.floor_nonneg.2 hnn
  split
  · rename_i h1
    have : ⌊y.priority - (z.priority + 1)⌋ = ⌊y.priority - z.priority⌋ - 1 := by
      rw [← Int.floor_sub_one]; congr 1; ring
    have h1' : 0 ≤ ⌊y.priority - (z.priority + 1)⌋ := Int.floor_nonneg.2 (by linarith)
    rw [this] at h1' ⊢
    omega
  · rename_i h1
    have : ⌊y.priority - z.priority⌋ = 0 := by
      rw [Int.floor_eq_zero_iff]; constructor <;> [exact hnn; skip]
      push_neg at h1; linarith
    rw [this]; rfl

theorem weight_punt_le (p : Rat × Rat) (y z : Entry) : weight y (puntE p z) ≤ weight y z := by
  by_cases hid : z.id = y.id
  · have : (puntE p z).id = y.id := by rw [puntE_id]; exact hid
    simp [weight, hid, this]
  · by_cases hle : z.priority ≤ y.priority
    · have := weight_punt p y z hid hle; omega
    · have hid' : (puntE p z).id ≠ y.id := by rw [puntE_id]; exact hid
      have hle' : ¬ (puntE p z).priority ≤ y.priority := by rw [puntE_priority]; push_neg at hle ⊢; linarith
      simp [weight, hid, hid', hle, hle']

theorem sum_map_le {α : Type} (g : α → Nat) (f : α → α) (P : List α) (h : ∀ x ∈ P, g (f x) ≤ g x) :
    ((P.map f).map g).sum ≤ (P.map g).sum := by
  induction P with
  | nil => simp
  | cons a l ih =>
    simp only [List.map_cons, List.sum_cons]
    have := h a List.mem_cons_self
    have := ih (fun x hx => h x (List.mem_cons_of_mem _ hx))
    omega

theorem sum_map_lt {α : Type} (g : α → Nat) (f : α → α) (P : List α) (h : ∀ x ∈ P, g (f x) ≤ g x)
    (hx : ∃ x ∈ P, g (f x) < g x) : ((P.map f).map g).sum < (P.map g).sum := by
  induction P with
  | nil => obtain ⟨x, hx, _⟩ := hx; simp at hx
  | cons a l ih =>
    simp only [List.map_cons, List.sum_cons]
    have ha := h a List.mem_cons_self
    have hl := sum_map_le g f l (fun x hx => h x (List.mem_cons_of_mem _ hx))
    obtain ⟨x, hxm, hxlt⟩ := hx
    rcases List.mem_cons.1 hxm with rfl | hxm
    · omega
    · have := ih (fun x hx => h x (List.mem_cons_of_mem _ hx)) ⟨x, hxm, hxlt⟩
      omega

theorem sum_filter_le {α : Type} (g : α → Nat) (q : α → Bool) (P : List α) :
    ((P.filter q).map g).sum ≤ (P.map g).sum := by
  induction P with
  | nil => simp
  | cons a l ih =>
    simp only [List.filter_cons]
    split <;> simp only [List.map_cons, List.sum_cons] <;> omega

theorem sum_filter_lt {α : Type} (g : α → Nat) (q : α → Bool) (P : List α)
    (hx : ∃ x ∈ P, q x = false ∧ 0 < g x) : ((P.filter q).map g).sum < (P.map g).sum := by
  induction P with
  | nil => obtain ⟨x, hx, _⟩ := hx; simp at hx
  | cons a l ih =>
    obtain ⟨x, hxm, hq, hpos⟩ := hx
    simp only [List.filter_cons]
    rcases List.mem_cons.1 hxm with rfl | hxm
    · have := sum_filter_le g q l
      simp only [hq, Bool.false_eq_true, if_false, List.map_cons, List.sum_cons]
      omega
    · have := ih ⟨x, hxm, hq, hpos⟩
      split <;> simp only [List.map_cons, List.sum_cons] <;> omega

/-! ## one iteration makes progress for `y` -/

/-- while `y` waits eligible, whatever is attempted instead is at least as urgent as `y`; `y` stays in
    the queue untouched; and unless the attempt was a pure requeue (or a failure that leaves the entry as it was) the potential drops -/
theorem iter_progress (c : Cfg) (L : Loop) (w : Step) (y e : Entry)
    (hy : y ∈ L.P) (hel : eligible y L.now c.age = true)
    (ha : (iter c L w).2 = some e) (hne : e.id ≠ y.id) :
    y ∈ (iter c L w).1.P ∧ potential y (iter c L w).1.P ≤ potential y L.P ∧
    (w.work.progress = true → potential y (iter c L w).1.P < potential y L.P) := by
  have hc := iter_attempt c L w e ha
  have heP := (change_returns_eligible _ _ _ e hc).1
  have hle : e.priority ≤ y.priority := by
    rcases (change_minimal _ _ _ e hc y hy hel).2 with h | ⟨h, _⟩ <;> linarith
  have hwpos := weight_pos y e hne hle
  have hP : (iter c L w).1.P = w.work.apply c.punt L.P e.id := by
    unfold iter; simp only [hc]
  have hyid : (y.id == e.id) = false := by simp [Ne.symm hne]
  -- the two kinds of rewriting
  have hdrop : y ∈ dropIn L.P e.id ∧ potential y (dropIn L.P e.id) < potential y L.P := by
    refine ⟨List.mem_filter.2 ⟨hy, by simp [Ne.symm hne]⟩, ?_⟩
    exact sum_filter_lt (weight y) _ L.P ⟨e, heP, by simp, hwpos⟩
  have hpunt : y ∈ puntIn c.punt L.P e.id ∧ potential y (puntIn c.punt L.P e.id) < potential y L.P := by
    refine ⟨List.mem_map.2 ⟨y, hy, by simp [hyid]⟩, ?_⟩
    apply sum_map_lt (weight y) _ L.P
    · intro x _
      split
      · exact weight_punt_le c.punt y x
      · exact le_refl _
    · refine ⟨e, heP, ?_⟩
      have := weight_punt c.punt y e hne hle
      simp only [beq_self_eq_true, if_true]; omega
  rw [hP]
  cases hw : w.work with
  | finished => exact ⟨hdrop.1, le_of_lt hdrop.2, fun _ => hdrop.2⟩
  | punted => exact ⟨hpunt.1, le_of_lt hpunt.2, fun _ => hpunt.2⟩
  | requeue => exact ⟨hy, le_refl _, fun h => absurd h (by simp [Work.progress])⟩
  | raised => exact ⟨hpunt.1, le_of_lt hpunt.2, fun _ => hpunt.2⟩
  | stuck => exact ⟨hy, le_refl _, fun h => absurd h (by simp [Work.progress])⟩

theorem iter_some_of_eligible (c : Cfg) (L : Loop) (w : Step) (y : Entry)
    (hy : y ∈ L.P) (hel : eligible y L.now c.age = true) : (iter c L w).2 ≠ none := by
  intro h
  have := (change_none_iff_no_eligible _ _ _).1 (iter_none c L w h) y hy
  rw [this] at hel; exact absurd hel (by simp)

/-! ## the loop -/

/-- **no starvation, for the whole loop and scripts of any length.**  `y` is in the queue and eligible.
    As long as `y` itself is not attempted: every iteration attempts some entry (the loop never idles past
    `y`), and the number of iterations that are not pure requeues is bounded by `potential y P` — a number
    fixed at the start, however often and in whatever way the other entries fail. -/
theorem loop_no_starvation (c : Cfg) (hc : c.Sane) (y : Entry) (ws : List Step) (L : Loop)
    (hy : y ∈ L.P) (hel : eligible y L.now c.age = true) (hd : ∀ w ∈ ws, 0 ≤ w.dur)
    (hnot : ∀ r ∈ (run c L ws).2, ∀ e, r.ent = some e → e.id ≠ y.id) :
    (∀ r ∈ (run c L ws).2, r.ent ≠ none) ∧
    (ws.filter (fun w => w.work.progress)).length ≤ potential y L.P := by
  induction ws generalizing L with
  | nil => simp [run]
  | cons w ws ih =>
    simp only [run] at hnot ⊢
    have hsome := iter_some_of_eligible c L w y hy hel
    obtain ⟨e, he⟩ := Option.ne_none_iff_exists'.1 hsome
    have hne : e.id ≠ y.id := hnot _ List.mem_cons_self e he
    obtain ⟨hy1, hle, hlt⟩ := iter_progress c L w y e hy hel he hne
    have hmono := iter_now_mono c hc L w (hd w List.mem_cons_self)
    have hel1 := eligible_mono y _ _ c.age hel hmono
    obtain ⟨ih1, ih2⟩ := ih (iter c L w).1 hy1 hel1 (fun w' hw' => hd w' (List.mem_cons_of_mem _ hw'))
      (fun r hr => hnot r (List.mem_cons_of_mem _ hr))
    refine ⟨?_, ?_⟩
    · intro r hr
      rcases List.mem_cons.1 hr with rfl | hr
      · exact hsome
      · exact ih1 r hr
    · simp only [List.filter_cons]
      cases hp : w.work.progress with
      | false => simp only [Bool.false_eq_true, if_false]; omega
      | true =>
        have := hlt hp
        simp only [if_true, List.length_cons]; omega

/-- contrapositive: once a script contains more non-requeue iterations than the potential, `y` has
    been attempted -/
theorem loop_attempts_within (c : Cfg) (hc : c.Sane) (y : Entry) (ws : List Step) (L : Loop)
    (hy : y ∈ L.P) (hel : eligible y L.now c.age = true) (hd : ∀ w ∈ ws, 0 ≤ w.dur)
    (hmany : potential y L.P < (ws.filter (fun w => w.work.progress)).length) :
    ∃ r ∈ (run c L ws).2, ∃ e, r.ent = some e ∧ e.id = y.id := by
  by_contra hcon
  push_neg at hcon
  have := (loop_no_starvation c hc y ws L hy hel hd (fun r hr e he => hcon r hr e he)).2
  omega

/-- among entries of the same priority each one counts once -/
theorem weight_le_one_of_eq (y z : Entry) (h : z.priority = y.priority) : weight y z ≤ 1 := by
  simp only [weight]
  split
  · omega
  · simp [h, ratFloor_eq]

theorem potential_le_length (y : Entry) (P : List Entry) (h : ∀ z ∈ P, z.priority = y.priority) :
    potential y P ≤ P.length := by
  induction P with
  | nil => simp [potential]
  | cons a l ih =>
    have ha := weight_le_one_of_eq y a (h a List.mem_cons_self)
    have := ih (fun z hz => h z (List.mem_cons_of_mem _ hz))
    simp only [potential, List.map_cons, List.sum_cons, List.length_cons] at *
    omega

/-- the hypotheses are satisfiable, and the bound is met: two entries of equal priority, the older one
    fails on every attempt; the other is attempted at the second iteration -/
example :
    let c : Cfg := { age := 1, sleep := 1/8, punt := (1/4, 1/4), bp := ⟨1/4, 8, 2⟩ }
    let x : Entry := { id := 0, l := { changed := some 1000, oid := some "a" } }
    let y : Entry := { id := 1, l := { changed := some 1001, oid := some "b" } }
    let L : Loop := { P := [x, y], now := 1010, backoff := 0 }
    c.Sane ∧ eligible y L.now c.age = true ∧ potential y L.P = 1 ∧
    ((run c L [⟨.raised, 0⟩, ⟨.raised, 0⟩, ⟨.raised, 0⟩]).2.map (fun r => r.ent.map (·.id))) = [some 0, some 1, some 0] := by
  refine ⟨⟨by decide +kernel, by decide +kernel⟩, by decide +kernel, by decide +kernel, by decide +kernel⟩

end CS.SchedLoop
