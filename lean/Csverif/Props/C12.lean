import Csverif.Proofs.Spec
/-
C12 — root confinement: `confined root target` (Model/Spec/Sync.lean) is the component-wise prefix
relation, not a string prefix: a sibling whose name merely starts with the root's name is outside.
The monitor (op `c12`) evaluates `confined` on every engine-issued mutating call of a run.
-/
namespace CS.Spec
set_option linter.unusedVariables false

/-- the meaning of the verdict: the target is the root followed by a relative path -/
theorem confined_iff (root target : RPath) : confined root target = true ↔ ∃ rel, target = root ++ rel :=
  isPrefixOf_iff root target

theorem confined_refl (root : RPath) : confined root root = true := isPrefixOf_refl root

/-- prefix transitivity: what is confined to a folder inside the root is confined to the root -/
theorem confined_trans (a b c : RPath) (h1 : confined a b = true) (h2 : confined b c = true) :
    confined a c = true := isPrefixOf_trans h1 h2

theorem confined_append (root rel : RPath) : confined root (root ++ rel) = true :=
  isPrefixOf_append root rel

/-- the root of everything confines everything -/
theorem confined_nil (target : RPath) : confined [] target = true := by simp [confined, isPrefixOf]

/-- a shorter target is never confined -/
theorem confined_length (root target : RPath) (h : confined root target = true) :
    root.length ≤ target.length := by
  obtain ⟨rel, rfl⟩ := (confined_iff _ _).1 h
  simp

/-- the prefix-sibling case: if the target leaves the root's path at the root's last component —
    by *any* different component, in particular one of which the root's is a strict string prefix
    (root `/local`, target `/localX/f`) — it is not confined -/
theorem prefix_sibling_not_confined (pre rest : RPath) (c c' : String) (hne : c ≠ c') :
    confined (pre ++ [c]) (pre ++ c' :: rest) = false := by
  cases h : confined (pre ++ [c]) (pre ++ c' :: rest) with
  | false => rfl
  | true =>
    obtain ⟨rel, hrel⟩ := (confined_iff _ _).1 h
    rw [List.append_assoc, List.append_cancel_left_eq] at hrel
    simp only [List.singleton_append, List.cons.injEq] at hrel
    exact absurd hrel.1.symm hne

/-- more generally: diverging anywhere inside the root -/
theorem diverging_not_confined (pre r1 rest : RPath) (c c' : String) (hne : c ≠ c') :
    confined (pre ++ c :: r1) (pre ++ c' :: rest) = false := by
  cases h : confined (pre ++ c :: r1) (pre ++ c' :: rest) with
  | false => rfl
  | true =>
    obtain ⟨rel, hrel⟩ := (confined_iff _ _).1 h
    rw [List.append_assoc, List.append_cancel_left_eq] at hrel
    simp only [List.cons_append, List.cons.injEq] at hrel
    exact absurd hrel.1.symm hne

/-- the verdict on a whole run -/
theorem allConfined_iff (root : RPath) (targets : List RPath) :
    allConfined root targets = true ↔ ∀ t ∈ targets, ∃ rel, t = root ++ rel := by
  simp only [allConfined, List.all_eq_true, confined_iff]

/-- the concrete instance named in the property: root `/local` does not confine `/localX/f`,
    although "/local" is a string prefix of "/localX/f" -/
theorem localX_not_confined : confined ["local"] ["localX", "f"] = false :=
  prefix_sibling_not_confined [] ["f"] "local" "localX" (by decide)

/-- non-vacuity: an accepted and a rejected run -/
example : allConfined ["r", "local"] [["r", "local", "a"], ["r", "local"], ["r", "local", "a", "b"]] = true ∧
    allConfined ["r", "local"] [["r", "local", "a"], ["r", "localX", "a"]] = false ∧
    allConfined ["r", "local"] [["r"]] = false := by
  decide

end CS.Spec
