import Csverif.Proofs.Spec
import Csverif.Props.C01
import Csverif.Props.C13
import Csverif.Model.Spec.Confine
/-
C12 — root confinement: `confined root target` (Model/Spec/Sync.lean) is the component-wise prefix
relation, not a string prefix: a sibling whose name merely starts with the root's name is outside.

Contents (definitions in Model/Spec/Sync.lean and Model/Spec/Confine.lean; executed by the driver layer
`monc12`, Driver/MonC12.lean, on every run of the real engine):
1. component-level lemmas about `confined` (reflexive, transitive, prefix sibling / diverging paths excluded);
2. the BRIDGE to the string-level path model of C13: `isSubpath_confinedStr`, `translate_confinedStr`,
   `translate_none_iff_outside`, `not_confined_translate_none`; the converse is refuted (`confinedStr_not_isSubpath`);
3. the exact meaning of the monitor's verdict on engine-issued calls (`checkCall_ok_spelled`, `checkCalls_none_iff`);
4. UNIVERSAL SAFETY of the Confine contract: `confined_ops_outside_untouched`;
5. the verdicts on snapshots (`stepsUntouched_sound`, `noAlien_sound`, `movedOutOk_sound`, `movedInOk_sound`);
6. the decision table of the head of `SyncManager.embrace_change` (manager.py 1420-1444): `move_out_is_peer_delete`,
   `declined_translate_left_alone`, `outside_never_copied`, `peer_delete_iff`, `proceed_iff`, `asks_iff`, ...;
7. the audited WRITE-SITE TABLE and what its classes guarantee: `audited_rows_classified`, `path_targeted_writes_confined`
   (the equality with the table generated from the repo is `write_sites_are_known` in Props/C12Sites.lean).
Not proved here (false of the pinned engine, see known_findings.txt): that an id-targeted write always hits an object that
is still inside the root — that is decided call by call by the trace monitor.
-/
namespace CS.Spec
set_option linter.unusedVariables false

/-- the meaning of the verdict: the target is the root followed by a relative path -/
theorem confined_iff (root target : RPath) : confined root target = true ↔ ∃ rel, target = root ++ rel :=
  isPrefixOf_iff root target

theorem confined_refl (root : RPath) : confined root root = true := isPrefixOf_refl root

/-- prefix transitivity: what is confined to a folder inside the root is confined to the root -/
theorem confined_trans (a b c : RPath) (h1 : confined a b = true) (h2 : confined b c = true) :
    confined a c = true := isPrefixOf_trans h1 h2

theorem confined_append (root rel : RPath) : confined root (root ++ rel) = true :=
  isPrefixOf_append root rel

/-- the root of everything confines everything -/
theorem confined_nil (target : RPath) : confined [] target = true := by simp [confined, isPrefixOf]

/-- a shorter target is never confined -/
theorem confined_length (root target : RPath) (h : confined root target = true) :
    root.length ≤ target.length := by
  obtain ⟨rel, rfl⟩ := (confined_iff _ _).1 h
  simp

/-- the prefix-sibling case: if the target leaves the root's path at the root's last component —
    by *any* different component, in particular one of which the root's is a strict string prefix
    (root `/local`, target `/localX/f`) — it is not confined -/
theorem prefix_sibling_not_confined (pre rest : RPath) (c c' : String) (hne : c ≠ c') :
    confined (pre ++ [c]) (pre ++ c' :: rest) = false := by
  cases h : confined (pre ++ [c]) (pre ++ c' :: rest) with
  | false => rfl
  | true =>
    obtain ⟨rel, hrel⟩ := (confined_iff _ _).1 h
    rw [List.append_assoc, List.append_cancel_left_eq] at hrel
    simp only [List.singleton_append, List.cons.injEq] at hrel
    exact absurd hrel.1.symm hne

/-- more generally: diverging anywhere inside the root -/
theorem diverging_not_confined (pre r1 rest : RPath) (c c' : String) (hne : c ≠ c') :
    confined (pre ++ c :: r1) (pre ++ c' :: rest) = false := by
  cases h : confined (pre ++ c :: r1) (pre ++ c' :: rest) with
  | false => rfl
  | true =>
    obtain ⟨rel, hrel⟩ := (confined_iff _ _).1 h
    rw [List.append_assoc, List.append_cancel_left_eq] at hrel
    simp only [List.cons_append, List.cons.injEq] at hrel
    exact absurd hrel.1.symm hne

/-- the verdict on a whole run -/
theorem allConfined_iff (root : RPath) (targets : List RPath) :
    allConfined root targets = true ↔ ∀ t ∈ targets, ∃ rel, t = root ++ rel := by
  simp only [allConfined, List.all_eq_true, confined_iff]

/-- the concrete instance named in the property: root `/local` does not confine `/localX/f`,
    although "/local" is a string prefix of "/localX/f" -/
theorem localX_not_confined : confined ["local"] ["localX", "f"] = false :=
  prefix_sibling_not_confined [] ["f"] "local" "localX" (by decide)

/-- non-vacuity: an accepted and a rejected run -/
example : allConfined ["r", "local"] [["r", "local", "a"], ["r", "local"], ["r", "local", "a", "b"]] = true ∧
    allConfined ["r", "local"] [["r", "local", "a"], ["r", "localX", "a"]] = false ∧
    allConfined ["r", "local"] [["r"]] = false := by
  decide


/-! ## Bridge: the string-level path model (Model/Path.lean, C13) and component-level `confined`

`pathComps c p` (Model/Spec/Confine.lean) = the components the provider itself compares: alternate
separators replaced, split at the separator, empty fields dropped, case-folded iff the provider is
case-insensitive.  What IS connected: `is_subpath` accepting a target implies component-level
confinement (`isSubpath_confinedStr`), hence every result of the default `translate` is confined to the
root it was joined to (`translate_confinedStr`), and the default `translate` declines exactly the paths
`is_subpath` rejects (`translate_none_iff_outside`).  What is NOT connected: the converse.  `is_subpath`
compares normalised *strings*, so a non-canonical spelling inside the root (a doubled separator) is
rejected by it although its components are confined — `confinedStr_not_isSubpath` (kernel-checked).
The monitor therefore uses `confinedStr` on the paths the provider reports (canonical), and the harness
compares both verdicts with the real `Provider.is_subpath` on every path it sees (op `sub`). -/

open CS.Path in
/-- `is_subpath(root, p)` truthy ⇒ the root's components are a prefix of `p`'s components -/
theorem isSubpath_confinedStr (c : Cfg) (h : c.WF) (f p : Str) (hs : isSubpath c f p false ≠ .no) :
    confinedStr c f p = true := by
  cases hr : isSubpath c f p false with
  | no => exact absurd hr hs
  | rel r =>
    obtain ⟨_, hC⟩ := isSubpath_rel_spec h.ok hr
    unfold confinedStr pathComps
    rw [← hC, List.map_append]
    exact confined_append _ _

open CS.Path in
/-- every path the default `translate` returns lies inside the root it was joined to, on a
    component boundary -/
theorem translate_confinedStr (cF cT : Cfg) (hF : cF.WF) (hT : cT.WF) (rF rT p q : Str)
    (hrT : Absolute cT rT) (h : translate cF cT rF rT p = some q) : confinedStr cT rT q = true :=
  isSubpath_confinedStr cT hT rT q (translate_lands_in_root cF cT hF hT rF rT p q hrT h)

open CS.Path in
/-- the default `translate` declines a path iff `is_subpath(root, path)` is false: with the default
    translate the "declined but still inside the root" branch of `embrace_change` is unreachable -/
theorem translate_none_iff_outside (cF cT : Cfg) (hF : cF.WF) (rF rT p : Str) :
    translate cF cT rF rT p = none ↔ isSubpath cF rF p false = .no := by
  constructor
  · intro h
    cases hr : isSubpath cF rF p false with
    | no => rfl
    | rel r =>
      have hne : isSubpath cF rF p false ≠ .no := by rw [hr]; exact fun e => by cases e
      obtain ⟨q, hq⟩ := translate_inside_some cF cT hF rF rT p hne
      rw [h] at hq; cases hq
  · exact translate_outside_none cF cT rF rT p

open CS.Path in
/-- a path outside the root — in particular a prefix sibling — is never translated -/
theorem not_confined_translate_none (cF cT : Cfg) (hF : cF.WF) (rF rT p : Str)
    (h : confinedStr cF rF p = false) : translate cF cT rF rT p = none := by
  rw [translate_none_iff_outside cF cT hF]
  cases hr : isSubpath cF rF p false with
  | no => rfl
  | rel r =>
    have hne : isSubpath cF rF p false ≠ .no := by rw [hr]; exact fun e => by cases e
    rw [isSubpath_confinedStr cF hF rF p hne] at h
    cases h

open CS.Path in
/-- LIMIT OF THE BRIDGE (kernel-checked): the converse of `isSubpath_confinedStr` fails on a
    non-canonical spelling — `//a/b` has the components of a path inside `/a`, but `is_subpath`
    compares strings and rejects it -/
theorem confinedStr_not_isSubpath :
    confinedStr (mkCfg true false) "/a".toList "//a/b".toList = true ∧
    isSubpath (mkCfg true false) "/a".toList "//a/b".toList false = .no := by
  decide

open CS.Path in
/-- the instances named in the property, at string level through the bridge: prefix siblings of the
    root, the account root, and a folder that differs from the root by letter case only (outside on a
    case-sensitive provider, the root itself on a case-insensitive one) -/
theorem string_siblings_not_confined :
    confinedStr (mkCfg true false) "/local".toList "/localX/f".toList = false ∧
    confinedStr (mkCfg true false) "/local".toList "/local2".toList = false ∧
    confinedStr (mkCfg true false) "/local".toList "/local-archive/f".toList = false ∧
    confinedStr (mkCfg true false) "/local".toList "/f".toList = false ∧
    confinedStr (mkCfg true false) "/local".toList "/".toList = false ∧
    confinedStr (mkCfg true false) "/local".toList "/LOCAL/f".toList = false ∧
    confinedStr (mkCfg false false) "/local".toList "/LOCAL/f".toList = true ∧
    confinedStr (mkCfg true false) "/sync/local".toList "/sync/local2/f".toList = false ∧
    confinedStr (mkCfg true false) "/sync/local".toList "/sync".toList = false ∧
    confinedStr (mkCfg true false) "/local".toList "/local/a\\b".toList = true := by
  decide

/-! ## The verdict on engine-issued calls (`checkCall`, executed by the monitor op `call`) -/

theorem checkTarget_ok_iff (root : RPath) (holes : List RPath) (strict : Bool) (t : RPath) :
    checkTarget root holes strict t = .ok ↔
      (∃ rel, t = root ++ rel ∧ (strict = true → rel ≠ [])) ∧ ∀ h ∈ holes, confined h t = false := by
  unfold checkTarget
  by_cases hc : confined root t = true
  · obtain ⟨rel, rfl⟩ := (confined_iff _ _).1 hc
    simp only [hc, Bool.not_true, Bool.false_eq_true, if_false]
    by_cases hs : (strict && (root ++ rel).length == root.length) = true
    · simp only [hs, if_true]
      simp only [Bool.and_eq_true, beq_iff_eq, List.length_append] at hs
      have hrel : rel = [] := List.eq_nil_of_length_eq_zero (by omega)
      constructor
      · intro h; cases h
      · rintro ⟨⟨rel', h1, h2⟩, _⟩
        have : rel' = rel := List.append_cancel_left h1.symm
        exact absurd (this ▸ hrel) (h2 hs.1)
    · simp only [hs, Bool.false_eq_true, if_false]
      by_cases hh : (holes.any fun h => confined h (root ++ rel)) = true
      · simp only [hh, if_true]
        constructor
        · intro h; cases h
        · rintro ⟨_, h2⟩
          obtain ⟨x, hx, hxc⟩ := List.any_eq_true.1 hh
          rw [h2 x hx] at hxc; cases hxc
      · simp only [hh, Bool.false_eq_true, if_false, true_iff]
        refine ⟨⟨rel, rfl, ?_⟩, ?_⟩
        · intro hst hrel
          apply hs
          simp [hst, hrel]
        · intro x hx
          cases hxc : confined x (root ++ rel) with
          | false => rfl
          | true => exact absurd (List.any_eq_true.2 ⟨x, hx, hxc⟩) hh
  · have hc' : confined root t = false := by cases h : confined root t <;> simp_all
    simp only [hc', Bool.not_false, if_true]
    constructor
    · intro h; cases h
    · rintro ⟨⟨rel, rfl, _⟩, _⟩
      rw [confined_append] at hc'; cases hc'

theorem checkCall_ok_iff (root : RPath) (holes : List RPath) (c : ECall) :
    checkCall root holes c = .ok ↔ ∀ t ∈ c.targets, checkTarget root holes c.meth.strict t = .ok := by
  unfold checkCall
  cases hf : (c.targets.map (checkTarget root holes c.meth.strict)).find? (· ≠ .ok) with
  | none =>
    simp only [true_iff]
    intro t ht
    have := List.find?_eq_none.1 hf (checkTarget root holes c.meth.strict t) (List.mem_map.2 ⟨t, ht, rfl⟩)
    simpa using this
  | some v =>
    have hv := List.find?_some hf
    have hm := List.mem_of_find?_eq_some hf
    obtain ⟨t, ht, rfl⟩ := List.mem_map.1 hm
    simp only [ne_eq, decide_not, Bool.not_eq_eq_eq_not, Bool.not_true, decide_eq_false_iff_not] at hv
    constructor
    · intro h; exact absurd h hv
    · intro h; exact absurd (h t ht) hv

/-- what an accepted call means: every path it names (for a rename: source and destination) is the
    root followed by a relative path — non-empty unless the call is `mkdir` — and none of them lies
    at or below a folder the application's translate declines -/
theorem checkCall_ok_spelled (root : RPath) (holes : List RPath) (c : ECall) :
    checkCall root holes c = .ok ↔
      ∀ t ∈ c.targets, (∃ rel, t = root ++ rel ∧ (c.meth.strict = true → rel ≠ [])) ∧
        ∀ h ∈ holes, confined h t = false := by
  rw [checkCall_ok_iff]
  exact forall_congr' fun t => forall_congr' fun _ => checkTarget_ok_iff root holes c.meth.strict t

theorem checkCalls_go_none_iff (root : RPath) (holes : List RPath) (cs : List ECall) (i : Nat) :
    checkCalls.go root holes i cs = none ↔ ∀ c ∈ cs, checkCall root holes c = .ok := by
  induction cs generalizing i with
  | nil => simp [checkCalls.go]
  | cons c rest ih =>
    unfold checkCalls.go
    cases hc : checkCall root holes c with
    | ok => simp [ih, hc]
    | outsideRoot => simp [hc]
    | rootItself => simp [hc]
    | declined => simp [hc]

/-- the verdict on a whole run: the monitor answers `ok` iff every call is accepted -/
theorem checkCalls_none_iff (root : RPath) (holes : List RPath) (cs : List ECall) :
    checkCalls root holes cs = none ↔ ∀ c ∈ cs, checkCall root holes c = .ok :=
  checkCalls_go_none_iff root holes cs 0

theorem callsOk_iff (root : RPath) (holes : List RPath) (cs : List ECall) :
    callsOk root holes cs = true ↔ checkCalls root holes cs = none := by
  rw [checkCalls_none_iff]
  simp [callsOk]

/-- a call on a prefix sibling of the root (any method, as target or as rename destination) is
    rejected as `outside-root` -/
theorem prefix_sibling_call_rejected (pre rest : RPath) (c c' : String) (hne : c ≠ c') (holes : List RPath)
    (strict : Bool) : checkTarget (pre ++ [c]) holes strict (pre ++ c' :: rest) = .outsideRoot := by
  simp [checkTarget, prefix_sibling_not_confined pre rest c c' hne]

/-! ## Universal safety of the Confine contract

The machine: the account tree of one side, acted on by the reference semantics `applyOp` of
Model/Spec/Sync.lean.  Contract: every path an action touches is confined to the root
(`opConfined`, the same test the monitor applies to every engine-issued call).  Theorem: an engine all
of whose actions respect the contract never changes anything outside the root — for every start
tree, every action sequence of any length, every outside path.  (The monitor additionally compares
the outside snapshots around every engine step, op `out`: that catches effects the call list does
not explain.) -/

theorem rebase_outside (s d q : RPath) (hs : isPrefixOf s q = false) (hd : isPrefixOf d q = false) (k : RPath) :
    rebase s d k = q ↔ k = q := by
  unfold rebase
  by_cases hk : isPrefixOf s k = true
  · rw [if_pos hk]
    constructor
    · intro h
      have : isPrefixOf d q = true := by rw [← h]; exact isPrefixOf_append d _
      rw [hd] at this; cases this
    · intro h; subst h; rw [hs] at hk; cases hk
  · rw [if_neg hk]

theorem confined_op_outside_untouched (root : RPath) (t : Tree) (a : UOp) (ha : opConfined root a = true)
    (q : RPath) (hq : confined root q = false) : (applyOp t a).get q = t.get q := by
  have hout : ∀ x, confined root x = true → isPrefixOf x q = false := by
    intro x hx
    cases h : isPrefixOf x q with
    | false => rfl
    | true => rw [confined_trans root x q hx h] at hq; cases hq
  by_cases hs : a.simple = true
  · rw [get_applyOp_simple t hs q]
    have hpt : confined root a.pt = true := by
      have := ha; unfold opConfined at this; rw [UOp.roots_simple hs] at this; simpa using this
    have : q ≠ a.pt := by
      intro e; subst e; rw [hpt] at hq; cases hq
    simp [this]
  · obtain ⟨s, d, rfl⟩ := UOp.not_simple hs
    have h2 : confined root s = true ∧ confined root d = true := by
      have := ha; unfold opConfined UOp.roots at this; simpa using this
    rw [applyOp_rename]
    exact Tree.get_map_key (rebase s d) t q (rebase_outside s d q (hout s h2.1) (hout d h2.2))

/-- UNIVERSAL SAFETY: for every tree, every sequence of contract-respecting actions and every path
    outside the root, the object at that path (or its absence) is what it was -/
theorem confined_ops_outside_untouched (root : RPath) (t : Tree) (as : List UOp)
    (h : ∀ a ∈ as, opConfined root a = true) (q : RPath) (hq : confined root q = false) :
    (applyOps t as).get q = t.get q := by
  induction as generalizing t with
  | nil => rfl
  | cons a rest ih =>
    rw [applyOps_cons, ih (applyOp t a) (fun b hb => h b (List.mem_cons_of_mem _ hb)),
      confined_op_outside_untouched root t a (h a List.mem_cons_self) q hq]

/-- the contract is necessary as well: a single unconfined action can change the outside -/
theorem unconfined_op_can_touch_outside :
    opConfined ["local"] (.delete ["localX", "f"]) = false ∧
    (applyOp [(["localX", "f"], .file 1)] (.delete ["localX", "f"])).get ["localX", "f"] ≠
      Tree.get [(["localX", "f"], .file 1)] ["localX", "f"] := by
  decide

/-! ## The verdicts on snapshots -/

theorem stepsUntouched_iff (pairs : List (Tree × Tree)) :
    stepsUntouched pairs = true ↔ ∀ p ∈ pairs, p.1.sameAs p.2 = true := by
  simp [stepsUntouched, outsideUntouched]

/-- soundness of the `out` verdict: around every engine step every outside path looks up the same -/
theorem stepsUntouched_sound (pairs : List (Tree × Tree)) (h : stepsUntouched pairs = true) :
    ∀ p ∈ pairs, ∀ q, p.1.get q = p.2.get q := fun p hp =>
  sameAs_sound _ _ ((stepsUntouched_iff pairs).1 h p hp)

theorem firstTouched_none_iff (pairs : List (Tree × Tree)) :
    firstTouched pairs = none ↔ stepsUntouched pairs = true := by
  simp [firstTouched, stepsUntouched, List.findIdx?_eq_none_iff]

theorem noAlien_iff (names : List String) (tags : List Nat) (t : Tree) :
    noAlien names tags t = true ↔ ∀ e ∈ t, legitEntry names tags e = true := by
  simp [noAlien]

/-- what `alien` accepts: every file inside the roots carries content a user put inside a root, and
    every object that is not a parked `.conflicted` copy bears a name a user gave inside a root -/
theorem noAlien_sound (names : List String) (tags : List Nat) (t : Tree) (h : noAlien names tags t = true) :
    (∀ p tag, (p, Node.file tag) ∈ t → tag ∈ tags) ∧
    (∀ p n nd, (p ++ [n], nd) ∈ t → isConflicted (p ++ [n]) = false → n ∈ names) := by
  rw [noAlien_iff] at h
  constructor
  · intro p tag hm
    have := h _ hm
    simp only [legitEntry, Bool.and_eq_true] at this
    simpa using this.2
  · intro p n nd hm hc
    have := h _ hm
    simp only [legitEntry, Bool.and_eq_true, hc, Bool.false_or, List.getLast?_append, List.getLast?_singleton,
      Option.some_or] at this
    simpa using this.1

theorem movedOutOk_iff (other : Tree) (p : RPath) :
    movedOutOk other p = true ↔ ∀ e ∈ other, isPrefixOf p e.1 = false := by
  simp [movedOutOk, Tree.under, List.filter_eq_nil_iff]

/-- a move out of the root ended as a deletion: nothing is found at or below the path on the other side -/
theorem movedOutOk_sound (other : Tree) (p q : RPath) (h : movedOutOk other p = true)
    (hq : isPrefixOf p q = true) : other.get q = none := by
  rw [movedOutOk_iff] at h
  rw [Tree.get_eq_none_iff]
  intro e he heq
  have := h e he
  rw [heq, hq] at this; cases this

/-- a move into the root ended as a creation: the object is there and the other side has the same
    subtree at its path -/
theorem movedInOk_sound (mine other : Tree) (p : RPath) (h : movedInOk mine other p = true) :
    mine.has p = true ∧ ∀ q, isPrefixOf p q = true → mine.get q = other.get q := by
  simp only [movedInOk, Bool.and_eq_true] at h
  refine ⟨h.1, fun q hq => ?_⟩
  have := sameAs_sound _ _ h.2 q
  unfold Tree.under at this
  rw [Tree.get_filter_key (fun k => isPrefixOf p k) mine q, Tree.get_filter_key (fun k => isPrefixOf p k) other q] at this
  simpa [hq] using this

/-! ## The head of `embrace_change` (manager.py 1420-1444): decision-table theorems

`embraceHead` (Model/Spec/Confine.lean) is the branch structure of the Python; `HeadIn` is finite, every
statement below is checked over the whole table.  Tie: the harness runs the real
`SyncManager.embrace_change` on stub entries for every row and diffs effects and outcome (op `head`). -/

/-- the whole table: split the seven inputs, evaluate each of the 192 rows in the kernel -/
macro "head_table" : tactic =>
  `(tactic| (intro i; obtain ⟨a, b, c, d, e, f, g⟩ := i
             cases a <;> cases b <;> cases c <;> cases d <;> cases e <;> cases f <;> cases g <;> decide))

/-- moving a synchronised object out of the root is a deletion of its peer (reason IRRELEVANT), the
    entry is split afterwards iff the deletion finished, and nothing is propagated -/
theorem move_out_is_peer_delete (i : HeadIn) (h1 : (i.hasPath || i.exists_) = true) (h2 : i.tr = false)
    (h3 : i.hadSync = true) (h4 : i.inRoot = false) :
    (embraceHead i).1 = [.askTranslate, .notifyDiscarded, .askInRoot, .deletePeerIrrelevant] ++
      (if i.delRet = .finished then [.split] else []) ∧
    (embraceHead i).2 = .ret i.delRet := by
  obtain ⟨a, b, c, d, e, f, g⟩ := i
  simp only at h1 h2 h3 h4
  subst h2 h3 h4
  cases a <;> cases b <;> cases f <;> cases g <;> simp_all [embraceHead]

/-- translate declines a path that is still inside the root (a nested sync owns the sub-folder):
    nothing is deleted, nothing is propagated, the entry is parked as IRRELEVANT -/
theorem declined_translate_left_alone (i : HeadIn) (h1 : (i.hasPath || i.exists_) = true) (h2 : i.tr = false)
    (h4 : i.inRoot = true) :
    Eff.deletePeerIrrelevant ∉ (embraceHead i).1 ∧ Eff.split ∉ (embraceHead i).1 ∧
    Eff.ignoreIrrelevant ∈ (embraceHead i).1 ∧ (embraceHead i).2 = .ret .finished := by
  revert h1 h2 h4; revert i; head_table

/-- an object whose path does not translate is never propagated to the other side: the head never
    falls through to the code that creates, uploads, renames or makes folders -/
theorem outside_never_copied (i : HeadIn) (h1 : (i.hasPath || i.exists_) = true) (h2 : i.tr = false) :
    (embraceHead i).2 ≠ .proceed := by
  revert h1 h2; revert i; head_table

/-- the peer is deleted by the head exactly when a previously synchronised object now lies outside the
    root — never for an object that was never synchronised, never while the path is inside the root -/
theorem peer_delete_iff (i : HeadIn) :
    Eff.deletePeerIrrelevant ∈ (embraceHead i).1 ↔
      (i.hasPath || i.exists_) = true ∧ i.tr = false ∧ i.hadSync = true ∧ i.inRoot = false := by
  revert i; head_table

/-- the head falls through to propagation exactly for a live entry whose path translates (or that
    has neither a path nor existence: deletions without a path) -/
theorem proceed_iff (i : HeadIn) :
    (embraceHead i).2 = .proceed ↔ i.discarded = false ∧ ((i.hasPath || i.exists_) = true → i.tr = true) := by
  revert i; head_table

/-- the head has no effect on an entry it lets through (it only asked `translate`) -/
theorem proceed_no_effect (i : HeadIn) (h : (embraceHead i).2 = .proceed) :
    (embraceHead i).1 = [] ∨ (embraceHead i).1 = [.askTranslate] := by
  revert h; revert i; head_table

/-- the root test is asked of the CHANGED side's provider, and only for an entry that had a sync path and whose
    path did not translate; translate is asked exactly when the entry has a path or exists -/
theorem asks_iff (i : HeadIn) :
    (Eff.askInRoot ∈ (embraceHead i).1 ↔ (i.hasPath || i.exists_) = true ∧ i.tr = false ∧ i.hadSync = true) ∧
    (Eff.askTranslate ∈ (embraceHead i).1 ↔ (i.hasPath || i.exists_) = true) := by
  revert i; head_table

/-- `split` only ever follows a finished peer deletion -/
theorem split_only_after_finished_delete (i : HeadIn) (h : Eff.split ∈ (embraceHead i).1) :
    Eff.deletePeerIrrelevant ∈ (embraceHead i).1 ∧ i.delRet = .finished := by
  revert h; revert i; head_table


/-! ## The write-site table

`tools/gen_write_sites.py` regenerates `Gen/WriteSites.lean` from the repo under test on every run: every call
of a mutating provider-method name (`create upload rename delete mkdir mkdirs rmtree`) in manager.py,
smartsync.py, state.py, cs.py, with receiver class and the syntactic form of its target arguments, plus the
value flow of the path-valued targets (class V: assignments to / arguments passed for `translated_path`,
`conflict_path`).  `auditedSites` below is that table as audited by hand, every target classified;
`Props/C12Sites.lean` proves `CS.Gen.writeSites = auditedSites.map (·.1)` by `decide` (kept in its own module,
outside the default import closure, so that a changed table breaks C12's obligation only).  A new, removed or
changed write site — or a target fed from another source — breaks that theorem; the harness then searches
with the trace monitor. -/

inductive ArgClass where
  | local              -- receiver is the storage backend or os/shutil: not a provider write
  | translateResult    -- path: the parameter/variable `translated_path` (value flow below: always `self.translate(...)`)
  | conflictSibling    -- path: `conflict_path` = join(folder, base + ".conflicted" + ext), (folder, base) = split(path)
  | entryPath          -- path: `.path` of the side state of an entry under conflict resolution (read back from the
                       --       provider by `get_latest` for an object the engine is synchronising)
  | peerId             -- id: `sync[synced].oid`, the peer id of the entry being synchronised
  | conflictPeerId     -- id: `conflict[synced].oid`, peer id of the entry found at `translated_path` by `lookup_path`
  | entryId            -- id: `loser.oid`, id of a side of the entry under conflict resolution
  | providerReturnedId -- id just returned by the provider (`info_path(path).oid`)
  | apiArgument        -- supplied by the application through the public smartsync API (`smart_rename`)
  | translateCall      -- value flow: right-hand side is a call of `self.translate`
  | siblingJoin        -- value flow: right-hand side is `self.providers[side].join(folder, conflict_name)`
  | sameName           -- value flow: the argument passed for `translated_path` is the caller's `translated_path`
  deriving Repr, DecidableEq

def ArgClass.pathOk : ArgClass → Bool
  | .translateResult | .conflictSibling | .entryPath | .apiArgument => true
  | _ => false

def ArgClass.idOk : ArgClass → Bool
  | .peerId | .conflictPeerId | .entryId | .providerReturnedId | .apiArgument => true
  | _ => false

/-- the hand-audited table: site, and the class of each of its target arguments -/
def auditedSites : List (WriteSite × List ArgClass) := [
  (⟨"manager.py", "ResolveFile.download", "rename", "O", "os", ["self.__temp_file + '.tmp'", "self.__temp_file"]⟩, [.local, .local]),
  (⟨"manager.py", "SyncManager.done", "rmtree", "O", "shutil", ["self.tempdir"]⟩, [.local]),
  (⟨"manager.py", "SyncManager.change_count", "assign:translated_path", "V", "", ["self.translate(OTHER_SIDE[i], e[i].path)"]⟩, [.translateCall]),
  (⟨"manager.py", "SyncManager.path_conflict", "assign:translated_path", "V", "", ["self.translate(1, ent[0].path)"]⟩, [.translateCall]),
  (⟨"manager.py", "SyncManager.check_revivify", "assign:translated_path", "V", "", ["self.translate(synced, provider_path)"]⟩, [.translateCall]),
  (⟨"manager.py", "SyncManager._temp_file", "mkdir", "O", "os", ["self.tempdir"]⟩, [.local]),
  (⟨"manager.py", "SyncManager.download_changed", "rename", "O", "os", ["partial_temp", "sync[changed].temp_file"]⟩, [.local, .local]),
  (⟨"manager.py", "SyncManager.unsafe_mkdir_synced", "mkdirs", "P", "self.providers[synced]", ["translated_path"]⟩, [.translateResult]),
  (⟨"manager.py", "SyncManager.mkdir_synced", "pass:unsafe_mkdir_synced:translated_path", "V", "", ["translated_path"]⟩, [.sameName]),
  (⟨"manager.py", "SyncManager.upload_synced", "upload", "P", "self.providers[synced]", ["sync[synced].oid"]⟩, [.peerId]),
  (⟨"manager.py", "SyncManager._create_synced", "create", "P", "self.providers[synced]", ["translated_path"]⟩, [.translateResult]),
  (⟨"manager.py", "SyncManager.create_synced", "pass:_create_synced:translated_path", "V", "", ["translated_path"]⟩, [.sameName]),
  (⟨"manager.py", "SyncManager.__resolver_merge_upload", "create", "P", "self.providers[ent1.side]", ["ent1.path"]⟩, [.entryPath]),
  (⟨"manager.py", "SyncManager.__resolver_merge_upload", "create", "P", "self.providers[ent2.side]", ["ent2.path"]⟩, [.entryPath]),
  (⟨"manager.py", "SyncManager.resolve_conflict", "upload", "P", "self.providers[loser.side]", ["loser.oid"]⟩, [.entryId]),
  (⟨"manager.py", "SyncManager.delete_synced", "assign:translated_path", "V", "", ["self.translate(synced, sync[changed].path)"]⟩, [.translateCall]),
  (⟨"manager.py", "SyncManager.delete_synced", "delete", "P", "self.providers[synced]", ["sync[synced].oid"]⟩, [.peerId]),
  (⟨"manager.py", "SyncManager.handle_path_change_or_creation", "assign:translated_path", "V", "", ["self.translate(synced, sync[changed].path)"]⟩, [.translateCall]),
  (⟨"manager.py", "SyncManager.handle_path_change_or_creation", "pass:mkdir_synced:translated_path", "V", "", ["translated_path"]⟩, [.sameName]),
  (⟨"manager.py", "SyncManager.handle_path_change_or_creation", "pass:create_synced:translated_path", "V", "", ["translated_path"]⟩, [.sameName]),
  (⟨"manager.py", "SyncManager.handle_path_change_or_creation", "pass:handle_rename:translated_path", "V", "", ["translated_path"]⟩, [.sameName]),
  (⟨"manager.py", "SyncManager.handle_rename", "rename", "P", "self.providers[synced]", ["sync[synced].oid", "translated_path"]⟩, [.peerId, .translateResult]),
  (⟨"manager.py", "SyncManager.handle_rename", "delete", "P", "self.providers[synced]", ["conflict[synced].oid"]⟩, [.conflictPeerId]),
  (⟨"manager.py", "SyncManager.conflict_rename", "assign:conflict_path", "V", "", ["self.providers[side].join(folder, conflict_name)"]⟩, [.siblingJoin]),
  (⟨"manager.py", "SyncManager.conflict_rename", "rename", "P", "self.providers[side]", ["oinfo.oid", "conflict_path"]⟩, [.providerReturnedId, .conflictSibling]),
  (⟨"manager.py", "SyncManager.embrace_change", "assign:translated_path", "V", "", ["self.translate(synced, sync[changed].path)"]⟩, [.translateCall]),
  (⟨"smartsync.py", "SmartSyncState._smart_unsync_ent", "delete", "P", "self.providers[LOCAL]", ["ent_info.oid"]⟩, [.providerReturnedId]),
  (⟨"smartsync.py", "SmartCloudSync.smart_rename", "rename", "P", "self.providers[side]", ["oid", "new_path"]⟩, [.apiArgument, .apiArgument]),
  (⟨"state.py", "SyncEntry.store", "create", "S", "storage", ["tag"]⟩, [.local]),
  (⟨"state.py", "SyncState.__init__", "delete", "S", "self._storage", ["tag"]⟩, [.local]),
  (⟨"state.py", "SyncState.forget", "delete", "S", "self._storage", ["self._tag"]⟩, [.local]),
  (⟨"state.py", "SyncState.storage_delete_tag", "delete", "S", "self._storage", ["data_tag"]⟩, [.local]),
  (⟨"state.py", "SyncState.storage_update_data", "create", "S", "self._storage", ["data_tag"]⟩, [.local]),
  (⟨"state.py", "SyncState._storage_update", "delete", "S", "self._storage", ["tag"]⟩, [.local]),
  (⟨"state.py", "SyncState._storage_update", "create", "S", "self._storage", ["tag"]⟩, [.local])
]

/-- argument kinds per method: `p` path-valued, `i` id-valued -/
def methodShape (m : String) : Option (List Bool) :=   -- true = path, false = id
  if m == "create" || m == "mkdir" || m == "mkdirs" then some [true]
  else if m == "upload" || m == "delete" || m == "rmtree" then some [false]
  else if m == "rename" then some [false, true]
  else none

def providerRowOk (a : WriteSite × List ArgClass) : Bool :=
  match methodShape a.1.method with
  | none => false
  | some shape =>
    shape.length == a.2.length && shape.length == a.1.args.length &&
    (shape.zip a.2).all (fun x => if x.1 then x.2.pathOk else x.2.idOk)

/-- the right-hand sides `translated_path` is ever assigned from -/
def translateCalls : List String :=
  ["self.translate(OTHER_SIDE[i], e[i].path)", "self.translate(1, ent[0].path)", "self.translate(synced, provider_path)",
   "self.translate(synced, sync[changed].path)"]

def flowRowOk (a : WriteSite × List ArgClass) : Bool :=
  if a.1.method == "assign:translated_path" then a.2 == [.translateCall] && a.1.args.all translateCalls.contains
  else if a.1.method == "assign:conflict_path" then
    a.2 == [.siblingJoin] && a.1.args == ["self.providers[side].join(folder, conflict_name)"] && a.1.func == "SyncManager.conflict_rename"
  else a.2 == [.sameName] && a.1.args == ["translated_path"]

def rowOk (a : WriteSite × List ArgClass) : Bool :=
  if a.1.recvClass == "P" then providerRowOk a
  else if a.1.recvClass == "V" then flowRowOk a
  else (a.1.recvClass == "S" || a.1.recvClass == "O") && a.2.all (· == .local)

/-- every audited row is classified within the allowed classes: a provider write takes path-valued targets only
    from {a `translate` result, a `.conflicted` sibling in the same folder, the provider-reported path of an entry
    under conflict resolution, an application-supplied argument of the public API} and id-valued targets only from
    {the peer id of the entry being synchronised (or of the entry in its way), an id of the entry under conflict
    resolution, an id just returned by the provider, an application-supplied id}; `translated_path` is only ever
    assigned from `self.translate(...)` and passed on under its own name; `conflict_path` only from the sibling
    join; there is no receiver of unknown class and no indirect reference to a mutator -/
theorem audited_rows_classified : auditedSites.all rowOk = true := by decide

/-- the engine's own modules never write through anything but `self.providers[...]` -/
theorem audited_provider_receivers :
    (auditedSites.filter (·.1.recvClass == "P")).all
      (fun a => a.1.recv == "self.providers[synced]" || a.1.recv == "self.providers[side]" ||
        a.1.recv == "self.providers[ent1.side]" || a.1.recv == "self.providers[ent2.side]" ||
        a.1.recv == "self.providers[loser.side]" || a.1.recv == "self.providers[LOCAL]") = true := by decide

/-- cs.py and state.py contain no provider write at all; there are 12 provider write sites -/
theorem audited_provider_site_count :
    ((auditedSites.filter (·.1.recvClass == "P")).map (·.1.file)).eraseDups = ["manager.py", "smartsync.py"] ∧
    (auditedSites.filter (·.1.recvClass == "P")).length = 12 := by decide

/-! ### what the path classes guarantee (∀ states) -/

/-- a `.conflicted` sibling: same folder as a path strictly inside the root ⇒ confined -/
theorem sibling_confined (root folder : RPath) (n n' : String) (h : confined root (folder ++ [n]) = true)
    (hs : root.length < (folder ++ [n]).length) : confined root (folder ++ [n']) = true := by
  obtain ⟨rel, hrel⟩ := (confined_iff _ _).1 h
  have hne : rel ≠ [] := by
    intro e; subst e; simp at hrel; rw [hrel] at hs; simp at hs
  obtain ⟨init, last, rfl⟩ : ∃ init last, rel = init ++ [last] := by
    rcases List.eq_nil_or_concat rel with e | ⟨i, l, e⟩
    · exact absurd e hne
    · exact ⟨i, l, by rw [e, List.concat_eq_append]⟩
  rw [← List.append_assoc] at hrel
  have := List.append_inj' hrel (by simp)
  rw [this.1, List.append_assoc]
  exact confined_append _ _

open CS.Path in
/-- the semantic reading of the two path classes that are settled statically -/
def PathClassSem (cT : Cfg) (rT : Str) : ArgClass → Str → Prop
  | .translateResult, q => ∃ (cF : Cfg) (rF p : Str), cF.WF ∧ translate cF cT rF rT p = some q
  | .conflictSibling, q => ∃ (folder : RPath) (n n' : String), pathComps cT q = folder ++ [n'] ∧
      confined (pathComps cT rT) (folder ++ [n]) = true ∧ (pathComps cT rT).length < (folder ++ [n]).length
  | _, _ => False

open CS.Path in
/-- PATH-TARGETED WRITES ARE CONFINED, for all configurations, roots and paths: a target that is a result of the
    default `translate`, or the `.conflicted` sibling of a path strictly inside the root, lies inside the root on
    a component boundary.  (Targets of class `entryPath` / `apiArgument` and every id-valued target are confined
    iff the object currently lies in the root: that is what the trace monitor checks call by call.) -/
theorem path_targeted_writes_confined (cT : Cfg) (hT : cT.WF) (rT : Str) (hrT : Absolute cT rT)
    (k : ArgClass) (q : Str) (h : PathClassSem cT rT k q) : confinedStr cT rT q = true := by
  cases k with
  | translateResult =>
    obtain ⟨cF, rF, p, hF, htr⟩ := h
    exact translate_confinedStr cF cT hF hT rF rT p q hrT htr
  | conflictSibling =>
    obtain ⟨folder, n, n', hq, hc, hl⟩ := h
    unfold confinedStr
    rw [hq]
    exact sibling_confined _ folder n n' hc hl
  | _ => exact absurd h (by simp [PathClassSem])

/-! ## non-vacuity -/

open CS.Path in
example :
    -- an accepted and three rejected calls
    checkCall ["local"] [["local", "priv"]] ⟨.rename, ["local", "a"], some ["local", "d", "a"]⟩ = .ok ∧
    checkCall ["local"] [] ⟨.upload, ["localX", "f"], none⟩ = .outsideRoot ∧
    checkCall ["local"] [] ⟨.delete, ["local"], none⟩ = .rootItself ∧
    checkCall ["local"] [] ⟨.mkdir, ["local"], none⟩ = .ok ∧
    checkCall ["local"] [["local", "priv"]] ⟨.create, ["local", "priv", "s"], none⟩ = .declined ∧
    -- the hypotheses of the bridge and of `path_targeted_writes_confined` are satisfiable
    (mkCfg true false).WF ∧ Absolute (mkCfg true false) "/remote".toList ∧
    translate (mkCfg true false) (mkCfg true false) "/local".toList "/remote".toList "/local/a/b".toList
      = some "/remote/a/b".toList ∧
    translate (mkCfg true false) (mkCfg true false) "/local".toList "/remote".toList "/localX/b".toList = none ∧
    -- the three rows of the decision table the property names
    embraceHead ⟨true, true, false, true, false, .finished, false⟩ =
      ([.askTranslate, .notifyDiscarded, .askInRoot, .deletePeerIrrelevant, .split], .ret .finished) ∧
    embraceHead ⟨true, true, false, true, true, .finished, false⟩ =
      ([.askTranslate, .notifyDiscarded, .askInRoot, .ignoreIrrelevant], .ret .finished) ∧
    embraceHead ⟨true, true, true, false, true, .finished, false⟩ = ([.askTranslate], .proceed) :=
  ⟨by decide, by decide, by decide, by decide, by decide, mkCfg_WF true true, ⟨"remote".toList, by decide⟩,
   by decide, by decide, by decide, by decide, by decide⟩

end CS.Spec
