import Csverif.Gen.DirectWrites
/-
C08, generated fact table: every write to a private entry/side field in state.py, manager.py, smartsync.py, event.py,
cs.py that does not go through the normal path of the `__setattr__` hooks (tools/gen_direct_writes.py regenerates
Gen/DirectWrites.lean from the repo under test before every check).  `audited` is the hand-audited list; the theorem
re-checks, in the kernel, that the code still has exactly these sites.  This module is built on its own
(`lake build Csverif.Props.C08Writes`), not as part of the library root: a code change that adds a site must break
this theorem only, not the build of every other property.

Audit of the sites that are not constructor initialisations (status column explained in the generator):
  * SideState._set_mtime / _set_exists: write, then call `updated` (dirty).                            [modelled: mtimePost/existsPost]
  * SideState.__setattr__, `object.__setattr__(self, k, v)`: pass-through for underscore names (the hook's own escape hatch).
  * SideState.__setattr__, `_saved_exists`/`_exists` ×3: the two CORRUPT early returns (115-122): the side changes and
    `updated` is never called.  NOT dirty-marked; in the engine `handle_corrupt` follows with `mark_changed` on the
    same entry (manager.py:1272-1277) and `update_entry` with `mark_changed` (state.py:1015-1020).   [modelled: existsPre → ghost `silent`]
  * SideState.uncorrupt: after `_set_exists` (dirty).                                                  [modelled: Side.uncorrupt]
  * deserialize ×5: run only while the state is loading.
  * SyncEntry.__setitem__ `val._path`/`val._oid`: on a private copy; `updated(side, "oid"/"path"/"changed")` follows.  [not modelled]
  * get_latest / mark_dirty / update_entry `_last_gotten`: not a persisted field.
  * SyncState.updated `ent[LOCAL/REMOTE]._changed = False` (key `ignored`) and `ent[other_side(side)]._changed = 0`
    (key `changed`, commit ea02bff): the entry being updated, `_dirtyset.add(ent)` follows.             [modelled: updatedEnt, updatedChanged]
  * SyncState._storage_update `ent._storage_id = None` (after the row of a trash entry is deleted): the storage id is
    not a persisted field; a direct write on purpose (the hooked one would re-mark the entry dirty inside the
    commit loop).                                                                                       [modelled: storageUpdate]
  * SyncState._change_path `prior_ent[side]._path = None`: a *different* entry (the ousted one); nothing marks it
    dirty — the statements that follow dirty `ent`.  Reached only when the path index holds another entry under
    `ent`'s own id (never, while the indexes are consistent: C11).                                      [modelled: ghost `silent`]
  * SyncState._change_path `ent[side]._path`, _change_oid `ent[side]._oid`: the entry being updated.    [modelled]
-/
namespace CS.Gen.DirectWrites

def audited : List (String × String × String × String × String) := [
  ("cloudsync/sync/state.py", "SideState.__init__", "self._side", "assign", "init"),
  ("cloudsync/sync/state.py", "SideState.__init__", "self._otype", "assign", "init"),
  ("cloudsync/sync/state.py", "SideState.__init__", "self._hash", "assign", "init"),
  ("cloudsync/sync/state.py", "SideState.__init__", "self._changed", "assign", "init"),
  ("cloudsync/sync/state.py", "SideState.__init__", "self._last_gotten", "assign", "init"),
  ("cloudsync/sync/state.py", "SideState.__init__", "self._sync_hash", "assign", "init"),
  ("cloudsync/sync/state.py", "SideState.__init__", "self._sync_path", "assign", "init"),
  ("cloudsync/sync/state.py", "SideState.__init__", "self._path", "assign", "init"),
  ("cloudsync/sync/state.py", "SideState.__init__", "self._oid", "assign", "init"),
  ("cloudsync/sync/state.py", "SideState.__init__", "self._exists", "assign", "init"),
  ("cloudsync/sync/state.py", "SideState.__init__", "self._force_sync", "assign", "init"),
  ("cloudsync/sync/state.py", "SideState.__init__", "self._temp_file", "assign", "init"),
  ("cloudsync/sync/state.py", "SideState.__init__", "self._size", "assign", "init"),
  ("cloudsync/sync/state.py", "SideState.__init__", "self._mtime", "assign", "init"),
  ("cloudsync/sync/state.py", "SideState.__init__", "self._saved_exists", "assign", "init"),
  ("cloudsync/sync/state.py", "SideState._set_mtime", "self._mtime", "assign", "dirty-after"),
  ("cloudsync/sync/state.py", "SideState.__setattr__", "object.__setattr__(self, k, v)", "setattr-dynamic", "hook-early-return"),
  ("cloudsync/sync/state.py", "SideState.__setattr__", "self._saved_exists", "assign", "hook-early-return"),
  ("cloudsync/sync/state.py", "SideState.__setattr__", "self._exists", "assign", "hook-early-return"),
  ("cloudsync/sync/state.py", "SideState.__setattr__", "self._saved_exists", "assign", "hook-early-return"),
  ("cloudsync/sync/state.py", "SideState.__setattr__", "object.__setattr__(self, '_' + k, v)", "setattr-dynamic", "hook"),
  ("cloudsync/sync/state.py", "SideState._set_exists", "self._exists", "assign", "dirty-after"),
  ("cloudsync/sync/state.py", "SideState.uncorrupt", "self._saved_exists", "assign", "dirty-before"),
  ("cloudsync/sync/state.py", "SideState.deserialize", "self._saved_exists", "assign", "loading"),
  ("cloudsync/sync/state.py", "SideState.deserialize", "self._saved_exists", "assign", "loading"),
  ("cloudsync/sync/state.py", "SyncEntry.__init__", "self._ignored", "assign", "init"),
  ("cloudsync/sync/state.py", "SyncEntry.__init__", "self._storage_id", "assign", "init"),
  ("cloudsync/sync/state.py", "SyncEntry.__init__", "self._priority", "assign", "init"),
  ("cloudsync/sync/state.py", "SyncEntry.__init__", "self._storage_id", "assign", "init"),
  ("cloudsync/sync/state.py", "SyncEntry.__setattr__", "object.__setattr__(self, k, v)", "setattr-dynamic", "hook-early-return"),
  ("cloudsync/sync/state.py", "SyncEntry.__setattr__", "object.__setattr__(self, '_' + k, v)", "setattr-dynamic", "hook"),
  ("cloudsync/sync/state.py", "SyncEntry.deserialize", "self._ignored", "assign", "loading"),
  ("cloudsync/sync/state.py", "SyncEntry.deserialize", "self._ignored", "assign", "loading"),
  ("cloudsync/sync/state.py", "SyncEntry.deserialize", "self._ignored", "assign", "loading"),
  ("cloudsync/sync/state.py", "SyncEntry.__setitem__", "val._path", "assign", "dirty-after"),
  ("cloudsync/sync/state.py", "SyncEntry.__setitem__", "val._oid", "assign", "dirty-after"),
  ("cloudsync/sync/state.py", "SyncEntry.get_latest", "self[side]._last_gotten", "assign", "none"),
  ("cloudsync/sync/state.py", "SyncEntry.mark_dirty", "self[side]._last_gotten", "assign", "none"),
  ("cloudsync/sync/state.py", "SyncState.updated", "ent[LOCAL]._changed", "assign", "dirty-after"),
  ("cloudsync/sync/state.py", "SyncState.updated", "ent[REMOTE]._changed", "assign", "dirty-after"),
  ("cloudsync/sync/state.py", "SyncState.updated", "ent[other_side(side)]._changed", "assign", "dirty-after"),
  ("cloudsync/sync/state.py", "SyncState._change_path", "prior_ent[side]._path", "assign", "dirty-after"),
  ("cloudsync/sync/state.py", "SyncState._change_path", "ent[side]._path", "assign", "dirty-after"),
  ("cloudsync/sync/state.py", "SyncState._change_oid", "ent[side]._oid", "assign", "via-updated"),
  ("cloudsync/sync/state.py", "SyncState.update_entry", "ent[side]._last_gotten", "assign", "none"),
  ("cloudsync/sync/state.py", "SyncState._storage_update", "ent._storage_id", "assign", "none")
]

/-- the repo under test has exactly the audited private-field write sites -/
theorem direct_writes_audited : table = audited := by decide

/-- no site outside state.py: the engine (manager.py, smartsync.py, event.py, cs.py) writes entry fields only
    through the hooks -/
theorem no_direct_write_outside_state : table.all (fun r => r.1 == "cloudsync/sync/state.py") = true := by decide

/-- the sites that change a persisted field of an entry without a dirty mark for *that* entry are exactly the
    CORRUPT early returns and the ousting write -/
def silentSites : List (String × String) :=
  [("SideState.__setattr__", "self._saved_exists"), ("SideState.__setattr__", "self._exists"),
   ("SideState.__setattr__", "self._saved_exists"), ("SyncState._change_path", "prior_ent[side]._path")]

theorem silent_sites_known :
    (table.filter (fun r => r.2.2.2.2 == "hook-early-return" && r.2.2.2.1 == "assign" ||
        r.2.2.1 == "prior_ent[side]._path")).map (fun r => (r.2.1, r.2.2.1)) = silentSites := by decide

end CS.Gen.DirectWrites
