import Csverif.Gen.RunnableReach
import Mathlib.Tactic.Linarith
import Mathlib.Tactic.Positivity
import Mathlib.Tactic.Ring
import Mathlib.Algebra.Order.Field.Rat
/-
C18 — service loops: bounded geometric backoff, final stop, ordered notifications.
Model: Model/Runnable.lean.
-/
namespace CS.Runnable

/-! ## A. backoff arithmetic and the sequential loop -/

theorem pow_step (mn mult : Rat) (k : Nat) (h0 : 0 ≤ mn) (h1 : 1 ≤ mult) :
    mn * mult ^ k ≤ mn * mult ^ (k+1) := by
  have : 0 ≤ mn * mult ^ k := by positivity
  rw [pow_succ]; nlinarith

/-- after k+1 consecutive failures (backoff request, exception or BaseException) from a clear state
    the loop waits `min(max, min * mult^k)` — geometric, bounded -/
theorem backoff_after_k (p : Params) (h0 : 0 ≤ p.mn) (h1 : 1 ≤ p.mult) (k : Nat) :
    failK p (k+1) = min p.mx (p.mn * p.mult ^ k) := by
  induction k with
  | zero => simp [failK, incr, max_eq_right h0]
  | succ k ih =>
    have hstep := pow_step p.mn p.mult k h0 h1
    have hnn : 0 ≤ p.mn * p.mult ^ k := by positivity
    have hge : p.mn ≤ p.mn * p.mult ^ (k+1) := by
      have : (1:Rat) ≤ p.mult ^ (k+1) := one_le_pow₀ h1
      nlinarith
    rw [failK, ih, incr]
    rcases le_total (p.mn * p.mult ^ k) p.mx with hle | hle
    · rw [min_eq_right hle]
      have : p.mn * p.mult ^ k * p.mult = p.mn * p.mult ^ (k+1) := by rw [pow_succ]; ring
      rw [this, max_eq_left hge]
    · rw [min_eq_left hle]
      have hmx : p.mx ≤ p.mn * p.mult ^ (k+1) := le_trans hle hstep
      rw [min_eq_left hmx]
      have h0mx : 0 ≤ p.mx ∨ p.mx < 0 := le_or_gt 0 p.mx
      rcases h0mx with hp | hn
      · have : p.mx ≤ p.mx * p.mult := by nlinarith
        exact min_eq_left (le_trans this (le_max_left _ _))
      · exact min_eq_left (le_trans (le_of_lt (lt_of_lt_of_le hn h0)) (le_max_right _ _))

/-- the guard `1 ≤ mult` is needed: with a multiplier below one the code floors at `min`, which is
    not the geometric law -/
example : failK ⟨1, 10, 1/2⟩ 2 ≠ min 10 (1 * (1/2 : Rat) ^ 1) := by
  simp [failK, incr]; norm_num

/-- a successful call that did something returns the loop to no waiting -/
theorem success_clears (p : Params) (b : Rat) (hb : 0 ≤ b) : after p b .success = 0 := by
  simp only [after]
  split_ifs with h
  · rfl
  · exact le_antisymm (not_lt.mp h) hb

/-- a call that did nothing keeps the current waiting time -/
theorem noop_keeps (p : Params) (b : Rat) : after p b .noop = b := rfl

/-- every kind of failure escalates the same way -/
theorem failures_escalate (p : Params) (b : Rat) :
    after p b .backoffReq = incr p b ∧ after p b .exc = incr p b ∧ after p b .baseExc = incr p b ∧
      after p b .noopThenFail = incr p b :=
  ⟨rfl, rfl, rfl, rfl⟩

/-- a call that reported "nothing happened" and then failed is a failure like any other: the no-op flag
    does not outlive the call, so the next effective success clears the backoff -/
theorem noop_flag_does_not_leak (p : Params) (b : Rat) (hb : 0 ≤ incr p b) :
    after p (after p b .noopThenFail) .success = 0 := success_clears p _ hb

/-- the loop keeps running whatever `do()` raises: one sleep is requested after every outcome -/
theorem loop_survives_any_outcome (p : Params) (sleep b : Rat) (outs : List Outcome) :
    (runSeq p sleep b outs).2.length = outs.length := by
  induction outs generalizing b with
  | nil => rfl
  | cons o os ih => simp [runSeq, ih]

/-- the waits requested during k+1 consecutive failures from a clear state -/
theorem sleeps_during_failures (p : Params) (sleep : Rat) (hmn : 0 < p.mn) (hmx : 0 < p.mx) (h1 : 1 ≤ p.mult)
    (k : Nat) : (runSeq p sleep (failK p k) [.exc]).2 = [min p.mx (p.mn * p.mult ^ k)] := by
  have hk := backoff_after_k p (le_of_lt hmn) h1 k
  have hpos : 0 < min p.mx (p.mn * p.mult ^ k) := lt_min hmx (by positivity)
  have hrun : (runSeq p sleep (failK p k) [.exc]).2 = [sleepFor sleep (failK p (k+1))] := rfl
  rw [hrun, hk]
  simp only [sleepFor]
  rw [if_pos hpos]

/-! ## B. the stop / start / wake protocol, for every interleaving -/

theorem testBit_foldl_or (codes : List Nat) (m k : Nat)
    (h : (codes.foldl (fun m c => m ||| (1 <<< c)) m).testBit k = true) : m.testBit k = true ∨ k ∈ codes := by
  induction codes generalizing m with
  | nil => exact Or.inl h
  | cons c cs ih =>
    rcases ih _ h with h1 | h1
    · rw [Nat.testBit_or, Bool.or_eq_true] at h1
      rcases h1 with h2 | h2
      · exact Or.inl h2
      · right
        rw [Nat.one_shiftLeft, Nat.testBit_two_pow] at h2
        simp at h2
        simp [h2]
    · exact Or.inr (List.mem_cons_of_mem _ h1)

theorem testBit_maskOf (codes : List Nat) (k : Nat) (h : (maskOf codes).testBit k = true) : k ∈ codes := by
  rcases testBit_foldl_or codes 0 k h with h1 | h1
  · simp at h1
  · exact h1

/-- kernel-checked: the generated list is closed under every action of both threads -/
theorem reach_closed : closedCodes reachCodes = true := by decide +kernel

theorem reach_good : reachCodes.all (fun c => (decode c).bad == 0) = true := by decide +kernel

theorem reach_init : reachCodes.contains (encode init) = true ∧ decode (encode init) = init := by
  decide +kernel

/-- membership in the certificate -/
def InCert (s : St) : Prop := encode s ∈ reachCodes ∧ decode (encode s) = s

theorem enabled_mem_acts (s t : St) (a : Act) (h : step s a = some t) : a ∈ acts := by
  cases a with
  | loop b => cases b <;> simp [acts]
  | app => simp [acts]
  | call c =>
    simp only [step] at h
    split at h
    · rename_i hc
      simp only [Bool.and_eq_true] at hc
      cases c <;> simp [callable] at hc
      case stop1 f w => cases f <;> cases w <;> simp [acts]
      all_goals simp [acts]
    · cases h

theorem inCert_step (s t : St) (a : Act) (hs : InCert s) (h : step s a = some t) : InCert t := by
  have hc := reach_closed
  simp only [closedCodes, List.all_eq_true] at hc
  have h1 := hc (encode s) hs.1
  rw [hs.2] at h1
  have h2 := h1 a (enabled_mem_acts s t a h)
  rw [h] at h2
  simp only [Bool.and_eq_true, decide_eq_true_eq] at h2
  exact ⟨testBit_maskOf _ _ h2.1, h2.2⟩

theorem inCert_exec (sched : List Act) (s : St) (hs : InCert s) : InCert (exec s sched) := by
  induction sched generalizing s with
  | nil => exact hs
  | cons a as ih =>
    simp only [exec]
    cases h : step s a with
    | none => simpa using ih s hs
    | some t => simpa using ih t (inCert_step s t a hs h)

theorem inCert_init : InCert init := by
  have := reach_init
  exact ⟨by simpa using this.1, this.2⟩

/-- **Every interleaving, of any length**, of the loop thread's and the application thread's atomic
    steps keeps all four monitored properties:
    P1 `do()` is never called after a waiting `stop()`/`wait()` has returned (until `start()`);
    P2 cleanup runs at most once per started thread;
    P3 when a final stop issued to a live loop has returned after joining, cleanup has run exactly once;
    P4 `start()` never creates a thread while the last stop request was final. -/
theorem protocol_safe (sched : List Act) : (exec init sched).bad = 0 := by
  have h := inCert_exec sched init inCert_init
  have hg := reach_good
  simp only [List.all_eq_true, beq_iff_eq] at hg
  have := hg _ h.1
  rw [h.2] at this
  exact this

def atStop4 (s : St) : Bool := match s.cpc with | .stop4 _ _ => true | _ => false
def loopOnly (s : St) (n : Nat) : St := exec s (List.replicate n (.loop false))

theorem reach_terminates :
    reachCodes.all (fun c => !atStop4 (decode c) || !alive (loopOnly (decode c) 8)) = true := by
  decide +kernel

/-- no lost wake-up: once a stop request has been fully issued, the loop thread exits within eight of
    its own steps **even if no sleep ever times out** (the flag is re-read after every sleep and the
    wake-up event is level-triggered) -/
theorem loop_terminates_after_stop (sched : List Act) (h : atStop4 (exec init sched) = true) :
    alive (loopOnly (exec init sched) 8) = false := by
  have hc := inCert_exec sched init inCert_init
  have hg := reach_terminates
  simp only [List.all_eq_true] at hg
  have := hg _ hc.1
  rw [hc.2, h] at this
  simpa using this

/-- non-vacuity: a concrete schedule (start, run two iterations, final waiting stop) reaches the join -/
example : (exec init [.call .start1, .app, .app, .app, .app, .app, .loop true, .loop true, .loop true, .loop true,
    .loop true, .call (.stop1 true true), .app, .app, .app]).cpc = .stop4 true true := by decide

/-! ## C. notifications -/

variable {N : Type}

/-- handler invocations so far plus pending notifications = everything raised before the stop marker,
    in order: nothing is skipped, duplicated or reordered, whatever the handler raises -/
def pendingBeforeStop : List (Option N) → List N
  | [] => []
  | none :: _ => []
  | some n :: q => n :: pendingBeforeStop q

theorem nDo_preserves (raises : N → Bool) (s : NState N) (hs : s.stopReq = false) :
    (nDo raises s).delivered ++ (if (nDo raises s).stopReq then [] else pendingBeforeStop (nDo raises s).queue)
      = s.delivered ++ pendingBeforeStop s.queue := by
  unfold nDo
  cases hq : s.queue with
  | nil => simp [hq, hs]
  | cons x q =>
    cases x with
    | none => simp [pendingBeforeStop]
    | some n => simp [pendingBeforeStop, hs]

/-- delivered notifications are always a prefix of those raised (order, at-most-once, no skip) and a
    handler exception does not stop later deliveries: the run's deliveries do not depend on `raises` -/
theorem delivered_is_prefix_of_raised (raises : N → Bool) (k : Nat) (s : NState N) (hs : s.stopReq = false) :
    ∃ rest, (nRun raises k s).delivered ++ rest = s.delivered ++ pendingBeforeStop s.queue := by
  induction k generalizing s with
  | zero => exact ⟨_, rfl⟩
  | succ k ih =>
    simp only [nRun, hs, Bool.false_eq_true, if_false]
    have hp := nDo_preserves raises s hs
    cases hstop : (nDo raises s).stopReq with
    | true =>
      refine ⟨[], ?_⟩
      cases k with
      | zero => simp only [nRun]; simpa [hstop] using hp
      | succ k => simp only [nRun, hstop, if_true]; simpa [hstop] using hp
    | false =>
      obtain ⟨rest, hr⟩ := ih (nDo raises s) hstop
      refine ⟨rest, ?_⟩
      rw [hr]
      simpa [hstop] using hp

theorem handler_exception_does_not_matter (r1 r2 : N → Bool) (k : Nat) (s : NState N) :
    (nRun r1 k s).delivered = (nRun r2 k s).delivered := by
  induction k generalizing s with
  | zero => rfl
  | succ k ih =>
    simp only [nRun]
    split
    · rfl
    · have : nDo r1 s = nDo r2 s := by unfold nDo; cases s.queue with
        | nil => rfl
        | cons x q => cases x <;> rfl
      rw [this]; exact ih _

/-- every notification raised before the stop marker is delivered exactly once, given enough iterations -/
theorem all_delivered_if_not_stopped (raises : N → Bool) (ns : List N) :
    (nRun raises ns.length { queue := ns.map some, delivered := [], stopReq := false }).delivered = ns := by
  suffices h : ∀ (d : List N), (nRun raises ns.length { queue := ns.map some, delivered := d, stopReq := false }).delivered = d ++ ns by
    simpa using h []
  induction ns with
  | nil => intro d; simp [nRun]
  | cons n ns ih =>
    intro d
    simp only [List.length_cons, nRun, Bool.false_eq_true, if_false, List.map_cons, nDo]
    rw [ih]; simp

end CS.Runnable
