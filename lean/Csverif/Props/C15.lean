import Csverif.Proofs.Lock
import Csverif.Proofs.LockId
/-
C15 — thread safety: sync state only touched under its lock; threaded runs are equivalent to a sequential interleaving
of atomic steps.   Model: Model/Lock.lean (threads × one re-entrant lock × shared store).
Static tie: Gen/LockSites.lean (regenerated from the repo by tools/gen_lock_sites.py on every run) — Props/C15Table.lean.

Part A  the discipline ⇒ serializability theorem (∀ programs, ∀ stores, ∀ interleavings; Lipton-style reduction),
        mutual exclusion, atomicity of a critical section, and a kernel-checked witness that the discipline is needed.
Part B  (Props/C15Table.lean) the generated lock-site table equals the audited table; consequences read off it.
-/
namespace CS.Lock

/-! ## Part A -/

/-- **discipline_implies_serializable.**  If every access of every thread is made while that thread holds the lock, then
    every interleaving (every schedule the scheduler can actually run: `run … = some s'`) reaches a final state — the
    whole state: store, every thread's observations (the values it read), remaining code, lock — that is also reached by
    a SERIAL schedule, one in which no step is ever taken by a thread other than the current lock holder (every critical
    section, outermost acquire … matching release, runs without interruption).  The serial schedule is a permutation of
    the given one (every thread takes the same steps). -/
theorem discipline_implies_serializable (p : Prog) (σ : Loc → Val) (hd : Disciplined p)
    (sched : List Tid) (s' : State) (hr : run (init p σ) sched = some s') :
    ∃ sched', run (init p σ) sched' = some s' ∧ Serial (init p σ) sched' ∧ sched'.Perm sched := by
  have key := decomp_exists (s0 := init p σ) (inv_init hd) rfl sched.reverse s'
  rw [List.reverse_reverse] at key
  obtain ⟨d⟩ := key hr
  refine ⟨d.pre ++ d.sec, ?_, ?_, ?_⟩
  · rw [run_append, d.runPre]; exact d.runSec
  · refine serial_append d.serialPre d.runPre ?_
    cases ho : s'.owner with
    | none => rw [d.secNil ho]; trivial
    | some t => exact serial_same_thread d.sec d.sm (d.secOwner t ho) (Or.inl d.free)
  · exact d.perm

/-- the store and every thread's observations at the end of any interleaving are those of a serial one
    (the statement of the property's last sentence, projected) -/
theorem discipline_implies_serializable_obs (p : Prog) (σ : Loc → Val) (hd : Disciplined p)
    (sched : List Tid) (s' : State) (hr : run (init p σ) sched = some s') :
    ∃ sched' s'', run (init p σ) sched' = some s'' ∧ Serial (init p σ) sched' ∧
      s''.store = s'.store ∧ s''.obs = s'.obs := by
  obtain ⟨sched', h1, h2, _⟩ := discipline_implies_serializable p σ hd sched s' hr
  exact ⟨sched', s', h1, h2, rfl, rfl⟩

/-- in every reachable state of a disciplined program, a thread whose next action is an access holds the lock -/
theorem access_only_by_holder (p : Prog) (σ : Loc → Val) (hd : Disciplined p) (sched : List Tid) (s : State)
    (hr : run (init p σ) sched = some s) (u : Tid) (a : Act) (hn : next s u = some a) (ha : isAccess a = true) :
    s.owner = some u := by
  have hi := inv_run (inv_init hd) hr u
  unfold next at hn
  cases hc : s.code u with
  | nil => simp [hc] at hn
  | cons b rest =>
    simp [hc] at hn
    subst hn
    rw [hc] at hi
    by_cases ho : s.owner = some u
    · exact ho
    · exfalso
      cases b <;> simp [isAccess] at ha <;> simp [held, ho, okFrom] at hi

/-- mutual exclusion: two threads never hold the lock at once -/
theorem no_two_threads_in_section (s : State) (t u : Tid) (ht : 0 < held s t) (hu : 0 < held s u) : t = u := by
  unfold held at ht hu
  split at ht
  · split at hu
    · rename_i h1 h2
      rw [h1] at h2
      exact Option.some.inj h2
    · omega
  · omega

/-- atomicity of a critical section: while `t` holds the lock, a step of any other thread of a disciplined program
    changes neither the store, nor anybody's observations, nor the lock — the store seen inside a critical section changes
    only by the holder's own writes -/
theorem section_atomic (p : Prog) (σ : Loc → Val) (hd : Disciplined p) (sched : List Tid) (s s' : State)
    (hr : run (init p σ) sched = some s) (t u : Tid) (ho : s.owner = some t) (hut : u ≠ t)
    (hs : step s u = some s') : s'.store = s.store ∧ s'.obs = s.obs ∧ s'.owner = s.owner ∧ s'.depth = s.depth := by
  obtain ⟨h, _⟩ := step_nonholder (inv_run (inv_init hd) hr) ho hut hs
  subst h
  exact ⟨rfl, rfl, rfl, rfl⟩

/-- `Serial` is decided by `serialB` (the executable version used in the witness below) -/
theorem serial_iff (l : List Tid) : ∀ s : State, Serial s l ↔ serialB s l = true := by
  induction l with
  | nil => intro s; simp [Serial, serialB]
  | cons t rest ih =>
    intro s
    simp only [Serial, serialB, Bool.and_eq_true, Bool.or_eq_true, beq_iff_eq]
    cases hs : step s t with
    | none => simp
    | some s1 => simp [ih s1]

/-- `Disciplined` restricted to one thread is decided by `firstBad` (the executable version the trace monitor runs) -/
theorem okFrom_iff_firstBad (c : List Act) : ∀ d i : Nat, okFrom d c ↔ firstBad d i c = none := by
  induction c with
  | nil => intro d i; simp [okFrom, firstBad]
  | cons a rest ih =>
    intro d i
    cases a with
    | acquire => simp only [okFrom, firstBad]; exact ih _ _
    | release => simp only [okFrom, firstBad]; exact ih _ _
    | read l =>
      by_cases h : d = 0
      · simp [okFrom, firstBad, h]
      · simp [okFrom, firstBad, h, ih d (i + 1)]; omega
    | write l f =>
      by_cases h : d = 0
      · simp [okFrom, firstBad, h]
      · simp [okFrom, firstBad, h, ih d (i + 1)]; omega
    | other => simp only [okFrom, firstBad]; exact ih _ _

/-! ### the discipline is needed: a kernel-checked lost update

thread 0 (locked read-modify-write, like `SyncManager.do`):   acquire; read x; write x := seen + 1; release
thread 1 (a public method that forgets the lock):              write x := 5                                   -/

def racy : Prog := fun t =>
  if t = 0 then [.acquire, .read 0, .write 0 (fun obs => obs.headD 0 + 1), .release]
  else if t = 1 then [.write 0 (fun _ => 5)]
  else []

/-- all schedules over threads {0,1} of length exactly n (`racy` has 5 actions in all: a complete run has length 5;
    a step of any other thread is not enabled) -/
def scheds : Nat → List (List Tid)
  | 0 => [[]]
  | n + 1 => (scheds n).map (0 :: ·) ++ (scheds n).map (1 :: ·)

/-- `racy` is not disciplined, … -/
theorem racy_undisciplined : ¬ Disciplined racy := by
  intro h
  have := h 1
  simp [racy, okFrom] at this

/-- … the interleaving 0,0,1,0,0 loses thread 1's update (x = 1), and NO complete serial schedule (length 5 over the two
    threads) ends with x = 1 (the serial outcomes are 5 and 6) -/
theorem racy_not_serializable :
    (run (init racy (fun _ => 0)) [0, 0, 1, 0, 0]).map (fun s => s.store 0) = some 1 ∧
    (scheds 5).all (fun l => !(serialB (init racy (fun _ => 0)) l) ||
        (run (init racy (fun _ => 0)) l).map (fun s => s.store 0) != some 1) = true := by
  decide

/-- hypotheses are satisfiable: a disciplined two-thread program with nested (re-entrant) sections, and an interleaving
    of it that really runs -/
def demo : Prog := fun t =>
  if t = 0 then [.other, .acquire, .read 0, .acquire, .write 0 (fun obs => obs.headD 0 + 1), .release, .release, .other]
  else if t = 1 then [.acquire, .read 0, .write 0 (fun obs => obs.headD 0 + 10), .release]
  else []

example : Disciplined demo := by
  intro t
  unfold demo
  split
  · simp [okFrom]
  · split <;> simp [okFrom]

example : (run (init demo (fun _ => 0)) [0, 1, 1, 1, 1, 0, 0, 0, 0, 0, 0, 0]).map (fun s => s.store 0) = some 11 := by
  decide

end CS.Lock

/-! ## Part A' — lock identity

`discipline_implies_serializable` is about a model with ONE lock.  The code has an attribute `state.lock` that every
`with self.state.lock:` evaluates afresh; the theorem applies to it only if that attribute denotes the same lock object for
the whole life of the state.  Model/LockId.lean has lock OBJECTS and a `rebind` action; the theorem below is the serializability
theorem for that model, and it takes the stability of the lock identity as a named hypothesis, which is discharged from the
generated table of binding sites (Props/C15Table.lean: `lock_identity_stable`, `engine_serializable`). -/

namespace CS.LockId
open CS.Lock (Tid Loc Val Disciplined)

/-- serializability in the lock-object model, under LOCK-IDENTITY STABILITY (no thread re-binds `state.lock`) -/
theorem serializable_of_stable_identity (p : MProg) (σ : Loc → Val)
    (hstable : LockIdentityStable p) (hd : Disciplined (toProg p))
    (sched : List Tid) (s' : MState) (hr : mrun (minit p σ) sched = some s') :
    ∃ sched' s'', mrun (minit p σ) sched' = some s'' ∧ MSerial (minit p σ) sched' ∧
      s''.store = s'.store ∧ s''.obs = s'.obs := by
  have hi := minv_init (σ := σ) hstable
  obtain ⟨sched1, h1⟩ := run_fwd sched _ _ hi hr
  rw [proj_init] at h1
  obtain ⟨sched', h2, hser, _⟩ := CS.Lock.discipline_implies_serializable (toProg p) σ hd sched1 (proj s') h1
  rw [← proj_init] at h2 hser
  obtain ⟨s'', hm, hp, hms⟩ := run_bwd sched' _ _ hi h2 hser
  exact ⟨sched', s'', hm, hms, congrArg CS.Lock.State.store hp, congrArg CS.Lock.State.obs hp⟩

/-- **the property's theorem with its hidden assumption made explicit.**  `bs` are the binding sites of the lock attribute found
    in the source; `hsrc`: the only one is the constructor's (Props/C15Table.lean `lock_identity_stable`, by `decide` over the
    generated table); `habs`: the program abstracts that source (a `rebind` action stands for a binding site outside the
    constructor); `hd`: every access is made inside `acquire … release`.  Then every interleaving is equivalent to a serial one. -/
theorem discipline_implies_serializable_stable_lock (bs : List BindingSite) (p : MProg) (σ : Loc → Val)
    (hsrc : ConstructorOnly bs = true) (habs : RespectsBindings bs p) (hd : Disciplined (toProg p))
    (sched : List Tid) (s' : MState) (hr : mrun (minit p σ) sched = some s') :
    ∃ sched' s'', mrun (minit p σ) sched' = some s'' ∧ MSerial (minit p σ) sched' ∧
      s''.store = s'.store ∧ s''.obs = s'.obs :=
  serializable_of_stable_identity p σ (habs hsrc) hd sched s' hr

/-! ### the hypothesis is needed: `forget()` re-creating the lock while the event thread is queued on it -/

/-- every thread of `rebindDemo` makes its accesses inside `acquire … release` … -/
theorem rebindDemo_disciplined : Disciplined (toProg rebindDemo) := by
  intro t
  unfold toProg rebindDemo
  split
  · simp [toAct, CS.Lock.okFrom]
  · split
    · simp [toAct, CS.Lock.okFrom]
    · split <;> simp [toAct, CS.Lock.okFrom]

/-- … but its lock identity is not stable, … -/
theorem rebindDemo_unstable : ¬ LockIdentityStable rebindDemo := by
  intro h
  have := h 0 .rebind (by simp [rebindDemo])
  simp [isRebind] at this

/-- … and on the schedule "application takes the lock; event thread queues on it; application re-binds and releases; event
    thread enters; sync thread enters" the event thread owns only the ORPHANED object 0 while the sync thread owns the current
    object 1 — two threads are inside their critical sections at once — and the run ends with the sync thread's update LOST
    (x = 1; both serial orders give 11). -/
theorem rebind_breaks_exclusion :
    (mrun (minit rebindDemo (fun _ => 0)) rebindSchedPrefix).map (fun s => (s.cur, s.owner 0, s.owner 1)) =
        some (1, some 1, some 2) ∧
    (mrun (minit rebindDemo (fun _ => 0)) rebindSched).map (fun s => s.store 0) = some 1 := by
  decide

end CS.LockId
