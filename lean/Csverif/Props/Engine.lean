import Csverif.Proofs.Engine
import Csverif.Proofs.EngineXfer
import Csverif.Proofs.EngineMore
import Csverif.Proofs.EngineRefresh
/-
ENG — theorems about the decision tables of the sync engine (Model/Engine.lean; the model is tied to the real methods of
cloudsync/sync/manager.py by harness/eng_decide.py, driver layer `engine`).

Every theorem is universally quantified over ALL abstract entries (both sides, ignore reason, priority) and ALL oracles
(answers of translate / providers / other entries / transfer leaves).  They are proved by case analysis over the branch
structure of the model (no enumeration needed: `Entry × Oracle` is finite up to the two priorities, but has ~10^22 points).

 1. `delete_never_beats_pending_create_partial`  (+ counterexample `delete_beats_pending_create_when_moved_out`)
 2. `no_upload_over_trashed_peer`, `zeroed_peer_next_round_is_create`
 3. `tombstone_blocks_resurrection`, `sync_tombstone_not_resurrected`  (+ the folder corner `folder_tombstone_reidentified`)
 4. `corrupt_side_frozen`, `corrupt_gone_finishes_without_write`
 5. `discarded_never_writes`, `discarded_never_revived`, `irrelevant_revived_only_if`  (+ `discarded_embrace_can_delete`)
 6. `conflicted_name_not_propagated`
 7. `needs_sync_false_no_write`
 8. `hash_conflict_goes_to_resolver_first`
 9. `punt_or_finish_total`, `requeue_never_writes`, `sync_one_total`
10. further laws: `embrace_writes_towards_peer`, `upload_only_after_download`, `create_only_for_creation`,
    `missing_punts_until_priority_4`, `successful_create_is_in_sync`
11. shapes worth a look (kernel-checked witnesses): `mkdir_exists_error_is_finished`, `rename_fix_called_twice`
12. the feature space as explicit lists with coverage: `Side.mem_all`, `Side.all_length`
13. the TRANSFER LEAVES with the temp directory in the model (Model/EngineXfer.lean, namespace `CS.Engine.Xfer`):
    `uploaded_bytes_have_current_hash`, `temp_reuse_only_same_hash`, `recorded_sync_hash_matches_uploaded_bytes`,
    `recorded_sync_hash_after_create`, `failed_upload_keeps_entry_pending`, `failed_transfer_keeps_flag`,
    `retry_after_reedit_uploads_new_bytes`, `finished_cleans_temps`, `make_temp_file_stable`
14. part 3 (Model/EngineConflict.lean, Model/EngineMore.lean): `conflict_never_loses_a_side`, `conflict_restores_on_cloud_exception`,
    `same_hash_conflict_merges_without_resolver`, `hash_conflict_sync_total`; `conflict_name_fresh`, `conflict_rename_total`;
    `fnf_gives_up_after_bounded_punts`, `fnf_out`, `fnf_parent_becomes_creation`; `disjoint_create_never_overwrites`;
    `folder_file_conflict_is_live_file`, `mkdir_head_law`
15. part 4, REFRESH SCOPES (Model/EngineRefresh.lean, namespace `CS.Engine.Refresh`): `get_latest_scope_law`, `get_latest_one_side_law`,
    `full_refresh_marks_cover_stamps`, `restricted_scope_is_blind`, `full_scope_sees_other_stamp`, `refresh_sites_scopes`;
    `rename_over_delete_only_after_full_refresh`, `rename_over_spares_seen_edit_partial`
    (+ witnesses `rename_over_deletes_unseen_edit_when_unstamped`, `rename_over_deletes_edit_of_ignored_entry`,
    `restricted_conflict_refresh_is_blind`), `handle_rename_refines_table`, `split_defer_reads_defer_side_only`,
    `change_fill_needs_stamp`, `pre_sync_refresh_covers_stamps`
16. part 5, ROOT CONFINEMENT of `sync` (the new first step `_unlink_peer_that_left_sync`): `sync_of_unlinks`, `sync_of_not_unlinks`
    (section 0), `left_sync_peer_never_written`, `left_sync_peer_never_written_step`, `unlink_only_if_left_and_pending`
    (+ witness `pre_fix_sync_writes_peer_that_left`: the decision function before the fix, kept as `syncPre`, uploads by id to the
    object that left the root)
-/
namespace CS.Engine
open CS.Hints (Ex OT Ign)

/-! ## 10a. every write of `embrace_change` goes to the other side -/

/-- `embrace_change(sync, changed, synced)` addresses every provider write to the SYNCED side: the side whose change is
    propagated is only read (download) -/
theorem embrace_writes_towards_peer (o : Oracle) (e : Entry) (c : Sd) :
    (embrace o e c).effs.all (Eff.towards c.other) = true := by
  unfold embrace
  simp only []
  repeat' split
  · exact quietTo_towards _ _ (embraceMovedOut_effs o e c)
  · exact embraceBody_effs o _ c _ (by simp [Eff.towards, Eff.target])
  · exact embraceBody_effs o _ c _ (by simp)

/-! ## 3. tombstones -/

theorem embraceMain_tombstone (o : Oracle) (e : Entry) (c : Sd) (fx : List Eff) (h : (e.get c).ex = .trashed)
    (hfx : fx.all (fun f => !f.isTransfer) = true) :
    (embraceMain o e c fx).effs.all (fun f => !f.isTransfer) = true := by
  have hd := quietTo_noTransfer _ _ (deleteSynced_effs o e c .discarded)
  unfold embraceMain
  simp only [h]
  repeat' split
  all_goals (try rw [all_pre])
  all_goals simp_all

theorem embraceBody_tombstone (o : Oracle) (e : Entry) (c : Sd) (fx : List Eff) (h : (e.get c).ex = .trashed)
    (hfx : fx.all (fun f => !f.isTransfer) = true) :
    (embraceBody o e c fx).effs.all (fun f => !f.isTransfer) = true := by
  unfold embraceBody
  repeat' split
  all_goals first
    | exact hfx
    | exact embraceMain_tombstone o _ c fx (by simpa using h) hfx

/-- TOMBSTONE BLOCKS RESURRECTION (manager.py 1491-1496).  Embracing a side that is TRASHED never creates, uploads or makes a
    folder — on either side, whatever the other side looks like and whatever the outside world answers: the step ends in
    FINISHED without effect (pending creation on the other side, 1492-1494), in `delete_synced`, or earlier. -/
theorem tombstone_blocks_resurrection (o : Oracle) (e : Entry) (c : Sd) (h : (e.get c).ex = .trashed) :
    (embrace o e c).effs.all (fun f => !f.isTransfer) = true := by
  unfold embrace
  simp only []
  repeat' split
  · exact quietTo_noTransfer _ _ (embraceMovedOut_effs o e c)
  · exact embraceBody_tombstone o _ c _ (by simpa using h) (by simp [Eff.isTransfer])
  · exact embraceBody_tombstone o _ c _ h (by simp)

/-! ## 1. a delete never beats a pending create -/

theorem isCreation_congr (e e' : Entry) (c : Sd) (h : ∀ s, e'.get s = e.get s) : isCreation e' c = isCreation e c := by
  simp [isCreation, h]

/-- the head of `embrace_change` takes the "moved out of the root" exit (manager.py 1429-1435) -/
def movedOut (o : Oracle) (e : Entry) (c : Sd) : Bool :=
  ((e.get c).p.cur || (e.get c).ex == .present) && !(translate o e c.other).some && (e.get c).p.sync && !o.inRoot

theorem embraceMain_pending_create (o : Oracle) (e : Entry) (c : Sd) (fx : List Eff)
    (ht : (e.get c).ex = .trashed) (hc : isCreation e c.other = true) (hf : (e.get c.other).otype = .file)
    (hch : (e.get c.other).changed = true) :
    embraceMain o e c fx = ⟨.ret .finished, fx, e⟩ := by
  unfold embraceMain
  simp [ht, hc, hf, hch]

/- FULL STATEMENT (false of the code as it is — see the counterexample below):
     theorem delete_never_beats_pending_create (o e c)
       (ht : (e.get c).ex = .trashed) (hc : isCreation e c.other) (hf : (e.get c.other).otype = .file)
       (hch : (e.get c.other).changed) : Eff.delete c.other ∉ (embrace o e c).effs                                      -/

/-- DELETE NEVER BEATS A PENDING CREATE (manager.py 1491-1496), partial: unless the head takes the moved-out-of-the-root exit
    (hypothesis `hm`), embracing a TRASHED side whose other side is a changed pending FILE creation issues no provider write
    at all — the only leaf call possible is the SYNC_DISCARDED notification. -/
theorem delete_never_beats_pending_create_partial (o : Oracle) (e : Entry) (c : Sd)
    (ht : (e.get c).ex = .trashed) (hc : isCreation e c.other = true) (hf : (e.get c.other).otype = .file)
    (hch : (e.get c.other).changed = true) (hm : movedOut o e c = false) :
    (embrace o e c).effs.all (fun f => !f.isWrite) = true ∧ Eff.delete c.other ∉ (embrace o e c).effs := by
  have key : ∀ (e' : Entry) (fx : List Eff), (∀ s, e'.get s = e.get s) → fx.all (fun f => !f.isWrite) = true →
      (embraceBody o e' c fx).effs.all (fun f => !f.isWrite) = true := by
    intro e' fx he hfx
    have hm' : ∀ e'' : Entry, (∀ s, e''.get s = e.get s) → embraceMain o e'' c fx = ⟨.ret .finished, fx, e''⟩ := by
      intro e'' he''
      exact embraceMain_pending_create o e'' c fx (by rw [he'']; exact ht) (by rw [isCreation_congr _ _ _ he'']; exact hc)
        (by rw [he'']; exact hf) (by rw [he'']; exact hch)
    unfold embraceBody
    repeat' split
    all_goals first
      | exact hfx
      | (rw [hm' _ he]; exact hfx)
      | (rw [hm' _ (fun s => by rw [setIgn_get _ _ _ (by decide)]; exact he s)]; exact hfx)
  have hall : (embrace o e c).effs.all (fun f => !f.isWrite) = true := by
    unfold embrace
    simp only []
    unfold movedOut at hm
    repeat' split
    · simp_all
    · exact key _ _ (fun s => setIgn_get _ _ _ (by decide)) (by simp [Eff.isWrite])
    · exact key _ _ (fun _ => rfl) (by simp)
  refine ⟨hall, ?_⟩
  intro hmem
  have := List.all_eq_true.mp hall _ hmem
  simp [Eff.isWrite] at this

/-- an outside world in which nothing special happens: everything translates to the peer's path, calls succeed, no other
    entry interferes -/
def Oracle.quiet : Oracle :=
  { trL := .path, trR := .path, inRoot := true, nameConfl := false, parentConfl := false, pcPrio := 0, rdc := false,
    delCreate := false, delRename := false, del := .ok, kidsNeedSync := false, remaining := false, dl := .ok, up := .ok,
    childConfl := false, disjoint := false, mkd := .ok, cr := .ok, ren := .ok, rcEnt := false, rcNeedsSync := false,
    rcDelExists := false, fixFnf := false, hcTemp := false, revOtherL := false, revOtherR := false,
    revInfoL := .none, revInfoR := .none, revTrL := false, revTrR := false }

def Side.blank : Side :=
  { oid := false, p := .nn, h := .nn, ex := .unknown, saved := none, otype := .file, changed := false, force := false }

/-- a synced file that was moved (path differs from sync_path) and then deleted: TRASHED, flagged -/
def wTombMoved : Side := { Side.blank with oid := true, p := .ne, h := .eq, ex := .trashed, changed := true }

/-- a new file: id, path, hash, nothing synced yet, EXISTS, flagged -/
def wNewFile : Side := { Side.blank with oid := true, p := .cn, h := .cn, ex := .present, changed := true }

/-- a new folder -/
def wNewDir : Side := { Side.blank with oid := true, p := .cn, otype := .dir, ex := .present, changed := true }

/-- a file in sync: id, path = sync_path, hash = sync_hash, EXISTS -/
def wSynced : Side := { Side.blank with oid := true, p := .eq, h := .eq, ex := .present }

def wEntry1 : Entry := { l := wTombMoved, r := wNewFile, lLeR := true, ign := .no, prio := 0 }

/-- COUNTEREXAMPLE to the full `delete_never_beats_pending_create`: LOCAL is a tombstone whose last known path no longer
    translates and lies outside the root (it had been synced: sync_path set), REMOTE is a changed pending FILE creation of the
    same entry.  The head of `embrace_change` (manager.py 1429-1435) runs `delete_synced` BEFORE the pending-create guard of
    1492-1494 is reached: the provider delete toward REMOTE is issued. -/
theorem delete_beats_pending_create_when_moved_out :
    (wEntry1.get .loc).ex = .trashed ∧ isCreation wEntry1 .rem = true ∧ (wEntry1.get .rem).otype = .file ∧
    (wEntry1.get .rem).changed = true ∧
    Eff.delete .rem ∈ (embrace { Oracle.quiet with trR := .none, inRoot := false } wEntry1 .loc).effs := by
  decide

/-! ## 2. no upload over a trashed peer -/

/-- the side is "zeroed": no id, no path, no hash, nothing synced, flag down -/
def Side.zeroed (s : Side) : Bool := !s.oid && s.p == .nn && s.h == .nn && !s.changed

theorem zeroPeer_zeroed (e : Entry) (c : Sd) : ((zeroPeer e c).get c.other).zeroed = true := by
  simp [zeroPeer, Side.zeroed, setChanged_get_self, When.flag]

theorem zeroPeer_changed_side (e : Entry) (c : Sd) :
    ((zeroPeer e c).get c).p.sync = false ∧ ((zeroPeer e c).get c).h.sync = false := by
  simp [zeroPeer]

/-- NO UPLOAD OVER A TRASHED PEER (manager.py 1580-1594): when the peer is TRASHED, MISSING or has no id, `handle_hash_diff`
    makes no leaf call at all (no download, no upload); if the changed side has a path it returns PUNT and leaves the peer
    zeroed and both "synced" values of the changed side cleared. -/
theorem no_upload_over_trashed_peer (o : Oracle) (e : Entry) (c : Sd)
    (h : (e.get c.other).ex = .trashed ∨ (e.get c.other).ex = .missing ∨ (e.get c.other).oid = false) :
    (hashDiff o e c).effs = [] ∧
    ((e.get c).p.cur = true →
      (hashDiff o e c).out = .ret .punt ∧ (hashDiff o e c).ent = zeroPeer e c ∧
      ((hashDiff o e c).ent.get c.other).zeroed = true ∧
      ((hashDiff o e c).ent.get c).p.sync = false ∧ ((hashDiff o e c).ent.get c).h.sync = false) := by
  have hz := zeroPeer_zeroed e c
  have hc := zeroPeer_changed_side e c
  unfold hashDiff
  rcases h with h | h | h <;> simp [h] <;> (split <;> simp_all)

/-- … so that the next round is a CREATE: with a zeroed peer, a side that exists, has a path and an id, is flagged and has no
    sync_path is a creation (`is_creation`), whatever its hash. -/
theorem zeroed_peer_next_round_is_create (e : Entry) (c : Sd)
    (hp : (e.get c).p.cur = true) (hx : (e.get c).ex = .present) (hch : (e.get c).changed = true) (ho : (e.get c).oid = true)
    (hs : (e.get c).p.sync = false) (hz : (e.get c.other).oid = false) : isCreation e c = true := by
  have := Rel.not_same_of_cur_not_sync _ hp hs
  simp [isCreation, Side.needsSync, hp, hx, hch, ho, hz, this]

/-- reads before writes: whatever `handle_hash_diff` does starts with the download from the changed side -/
theorem upload_only_after_download (o : Oracle) (e : Entry) (c : Sd) :
    (hashDiff o e c).effs = [] ∨ (hashDiff o e c).effs.head? = some (.download c) := by
  unfold hashDiff download
  simp only []
  repeat' split
  all_goals simp_all [Res.pre, handleCorrupt]

/-! ## 4. corrupt sides -/

/-- CORRUPT SIDE FROZEN (manager.py 1261-1278): after `handle_corrupt` the side is CORRUPT, its synced values equal its
    current ones, so it does not need sync (unless `force_sync` is set) until its hash changes; the other side is flagged;
    FINISHED, one notification, no provider write. -/
theorem corrupt_side_frozen (e : Entry) (s : Sd) :
    (handleCorrupt e s).out = .ret .finished ∧ (handleCorrupt e s).effs = [.notifyCorrupt s] ∧
    ((handleCorrupt e s).ent.get s).isCorrupt = true ∧ ((handleCorrupt e s).ent.get s).h.same = true ∧
    ((handleCorrupt e s).ent.get s).p.same = true ∧
    (((handleCorrupt e s).ent.get s).force = false → ((handleCorrupt e s).ent.get s).needsSync = false) ∧
    ((handleCorrupt e s).ent.get s.other).changed = true := by
  have h1 : ∀ x : Side, (x.setEx .corrupt).isCorrupt = true := by
    intro x; unfold Side.setEx; split_ifs <;> simp_all [Side.isCorrupt]
  have h2 : ∀ x : Side, (x.setEx .corrupt).ex = .corrupt := by
    intro x; have := h1 x; simpa [Side.isCorrupt] using this
  have hget : (handleCorrupt e s).ent.get s =
      { ({ e.get s with h := (e.get s).h.setSync, p := (e.get s).p.setSync } : Side).setEx .corrupt with
        changed := (({ e.get s with h := (e.get s).h.setSync, p := (e.get s).p.setSync } : Side).setEx .corrupt).changed &&
          ((When.now.flag && (e.get s.other).oid) ||
            (({ e.get s with h := (e.get s).h.setSync, p := (e.get s).p.setSync } : Side).setEx .corrupt).oid) } := by
    have := setChanged_get_other (e.set s (({ e.get s with h := (e.get s).h.setSync, p := (e.get s).p.setSync } : Side).setEx .corrupt)) s.other .now
    simpa [handleCorrupt] using this
  refine ⟨rfl, rfl, ?_, ?_, ?_, ?_, ?_⟩
  · rw [hget]; simp [Side.isCorrupt, h2]
  · rw [hget]; simp
  · rw [hget]; simp
  · rw [hget]; intro hf
    simp [Side.needsSync, h2] at hf ⊢
    simp [hf]
  · simp [handleCorrupt, setChanged_get_self, When.flag]

/-- a `corrupt_gone` side (corrupt, and gone at the provider) is finished by `sync` with a notification and without any
    provider call (manager.py 440-444) -/
theorem corrupt_gone_finishes_without_write (o : Oracle) (e : Entry) (side : Sd) (fx : List Eff)
    (h : (e.get side).corruptGone = true) :
    dispatch o e side fx = .brk true (finished e side) (fx ++ [.notifyCorrupt side, .fin side]) := by
  simp [dispatch, h]

/-! ## 0. the first step of `sync`: a peer that left the sync root is unlinked (manager.py 372-402) -/

theorem sync_of_not_unlinks (o : Oracle) (e : Entry) (h : unlinks o e = false) : sync o e = syncPre o e := by
  unfold sync; simp [h]

/-- when the first step fires, `sync` does nothing but `state.split(sync)` and returns False -/
theorem sync_of_unlinks (o : Oracle) (e : Entry) (h : unlinks o e = true) :
    (sync o e).effs = [.split] ∧ (sync o e).done = .ok false ∧ splitEntry e = .ok (sync o e).ent := by
  have hl : e.l.oid = true := by
    unfold unlinks at h
    simp only [Bool.and_eq_true] at h
    exact h.1.1.1
  unfold sync
  simp only [h, if_true]
  unfold splitEntry
  simp [hl]

/-- the first step needs a side that needs sync -/
theorem unlinks_false_of_idle (o : Oracle) (e : Entry) (hn : ∀ x, (e.get x).needsSync = false) : unlinks o e = false := by
  have h1 := hn .loc
  have h2 := hn .rem
  simp only [Entry.get] at h1 h2
  unfold unlinks
  simp [h1, h2]

/-! ## 8. hash conflicts first -/

/-- HASH CONFLICT GOES TO THE RESOLVER FIRST (manager.py 404-407), unless a peer that left the sync root is unlinked first
    (`sync_of_unlinks`): nothing else is looked at, the entry is left as it is -/
theorem hash_conflict_goes_to_resolver_first (o : Oracle) (e : Entry) (h : hashConflict e = true) (hu : unlinks o e = false) :
    (sync o e).effs = [.hashConflict] ∧ (sync o e).ent = e := by
  rw [sync_of_not_unlinks o e hu]
  unfold syncPre
  simp [h]
  split <;> simp

/-! ## 6. conflicted names -/

/-- CONFLICTED NAME NOT PROPAGATED (manager.py 1446-1449): a conflicted entry whose changed path contains "conflicted" (and
    translates) is FINISHED without any leaf call and without touching the entry -/
theorem conflicted_name_not_propagated (o : Oracle) (e : Entry) (c : Sd) (h1 : e.ign = .conflict) (h2 : o.nameConfl = true)
    (h3 : (e.get c).p.cur = true) (h4 : (translate o e c.other).some = true) :
    embrace o e c = ⟨.ret .finished, [], e⟩ := by
  unfold embrace embraceBody
  simp [h1, h2, h3, h4, Ign.isDiscarded]

/-! ## 5. discarded entries -/

/-- a DISCARDED entry is never revived (`check_revivify` only revives IRRELEVANT ones, manager.py 340) -/
theorem discarded_never_revived (o : Oracle) (e : Entry) (h : e.ign = .discarded) : checkRevivify o e = e := by
  have hs : ∀ (e' : Entry) (i : Sd), e'.ign = .discarded → revivifySide o e' i = e' := by
    intro e' i h'
    unfold revivifySide
    simp only []
    repeat' split
    all_goals simp_all
  unfold checkRevivify
  simp [h, Ign.isDiscarded, hs]

/-- an IRRELEVANT entry is revived only when a provider reports a path for a flagged, never-synced side with an id and the
    application translates that path now -/
theorem irrelevant_revived_only_if (o : Oracle) (e : Entry) (h : checkRevivify o e ≠ e) :
    e.ign = .irrelevant ∧ ∃ i, o.revInfo i = .path ∧ o.revTr i = true ∧ o.revOther i = false := by
  have hs : ∀ (e' : Entry) (i : Sd), revivifySide o e' i ≠ e' →
      e'.ign = .irrelevant ∧ o.revInfo i = .path ∧ o.revTr i = true ∧ o.revOther i = false := by
    intro e' i
    unfold revivifySide
    simp only []
    repeat' split
    all_goals simp_all
  unfold checkRevivify at h
  split at h
  · by_cases h1 : revivifySide o e .loc = e
    · rw [h1] at h
      have := hs e .rem h
      exact ⟨this.1, .rem, this.2⟩
    · have := hs e .loc h1
      exact ⟨this.1, .loc, this.2⟩
  · exact absurd rfl h

/-- DISCARDED NEVER WRITES (manager.py 348-354): an entry that is still discarded/irrelevant after `check_revivify` is
    finished on both sides by `pre_sync`: `_sync_one_entry` makes no provider call, reports progress, and leaves both change
    flags (and `force_sync`) down -/
theorem discarded_never_writes (o : Oracle) (e : Entry) (h : (checkRevivify o e).ign.isDiscarded = true) :
    (syncOne o e).1 = .done true ∧ (syncOne o e).2.1 = [.fin .loc, .fin .rem] ∧
    ∀ x, ((syncOne o e).2.2.get x).changed = false ∧ ((syncOne o e).2.2.get x).force = false := by
  have hb := finished_both (checkRevivify o e)
  simp [syncOne, preSync, h, hb]

/-- in particular a DISCARDED entry never causes a provider write -/
theorem discarded_entry_never_writes (o : Oracle) (e : Entry) (h : e.ign = .discarded) :
    (syncOne o e).2.1.all (fun f => !f.isWrite) = true := by
  have := discarded_never_writes o e (by rw [discarded_never_revived o e h]; simp [h, Ign.isDiscarded])
  rw [this.2.1]; decide

/-- … but `embrace_change` itself looks at `is_discarded` only AFTER its head (manager.py 1420-1444): called on a discarded
    entry whose changed path does not translate and lies outside the root, it deletes the peer.  (`_sync_one_entry` never gets
    there: `pre_sync` finishes discarded entries first.) -/
theorem discarded_embrace_can_delete :
    Eff.delete .rem ∈ (embrace { Oracle.quiet with trR := .none, inRoot := false }
      { l := wTombMoved, r := wSynced, lLeR := true, ign := .discarded, prio := 0 } .loc).effs := by
  decide

/-! ## 7. nothing to do -/

theorem syncSide_idle (o : Oracle) (e : Entry) (s : Sd) (h1 : (e.get s).needsSync = false)
    (h2 : (e.get s.other).isCorrupt = false) :
    syncSide o e s = .cont (if (e.get s).changed then e.setChanged s .zero else e) [] := by
  simp [syncSide, h1, h2]

theorem needsSync_flag_down (s : Side) (b : Bool) (h : s.needsSync = false) :
    ({ s with changed := s.changed && b } : Side).needsSync = false := by
  rcases s with ⟨oid, p, hh, ex, saved, otype, changed, force⟩
  cases changed <;> cases b <;> simp_all [Side.needsSync]

/-- the two iterations of the loop of `sync` when no side has anything to do -/
theorem sync_idle (o : Oracle) (e : Entry) (hn : ∀ x, (e.get x).needsSync = false) (hk : ∀ x, (e.get x).isCorrupt = false)
    (hc : hashConflict e = false) :
    (sync o e).effs = [] ∧ (sync o e).done = .ok true ∧ ∀ x, ((sync o e).ent.get x).changed = false := by
  -- the second iteration, for any entry left by the first
  have key : ∀ (s1 : Sd) (e1 : Entry), (e1.get s1).changed = false → (e1.get s1.other).needsSync = false →
      (e1.get s1).isCorrupt = false →
      syncSide o e1 s1.other = .cont (if (e1.get s1.other).changed then e1.setChanged s1.other .zero else e1) [] ∧
      ∀ x, ((if (e1.get s1.other).changed then e1.setChanged s1.other .zero else e1).get x).changed = false := by
    intro s1 e1 h1 h2 h3
    refine ⟨syncSide_idle o e1 s1.other h2 (by simpa using h3), ?_⟩
    have a := setChanged_get_self e1 s1.other .zero
    have b := setChanged_get_other e1 s1.other .zero
    simp only [Sd.other_other] at b
    intro x
    split
    · cases x <;> cases s1 <;> simp_all [Sd.other, When.flag]
    · cases x <;> cases s1 <;> simp_all [Sd.other]
  rw [sync_of_not_unlinks o e (unlinks_false_of_idle o e hn)]
  unfold syncPre
  rw [if_neg (by simp [hc])]
  dsimp only
  generalize firstSide e = s1
  rw [syncSide_idle o e s1 (hn s1) (hk _)]
  dsimp only
  by_cases hch : (e.get s1).changed = true
  · rw [if_pos hch]
    have a := setChanged_get_self e s1 .zero
    have b := setChanged_get_other e s1 .zero
    have h1 : ((e.setChanged s1 .zero).get s1).changed = false := by rw [a]; rfl
    have h2 : ((e.setChanged s1 .zero).get s1.other).needsSync = false := by rw [b]; exact needsSync_flag_down _ _ (hn _)
    have h3 : ((e.setChanged s1 .zero).get s1).isCorrupt = false := by rw [a]; simpa [Side.isCorrupt] using hk s1
    obtain ⟨k1, k2⟩ := key s1 _ h1 h2 h3
    rw [k1]
    exact ⟨rfl, rfl, k2⟩
  · rw [if_neg hch]
    obtain ⟨k1, k2⟩ := key s1 e (by simpa using hch) (hn _) (hk _)
    rw [k1]
    exact ⟨rfl, rfl, k2⟩

/-- NEEDS-SYNC FALSE, NO WRITE (manager.py 386-397): if neither side needs sync, no side is corrupt and there is no hash
    conflict, `sync` makes no leaf call at all, reports progress and leaves both change flags down -/
theorem needs_sync_false_no_write (o : Oracle) (e : Entry) (hl : e.l.needsSync = false) (hr : e.r.needsSync = false)
    (cl : e.l.isCorrupt = false) (cr : e.r.isCorrupt = false) (hc : hashConflict e = false) :
    (sync o e).effs = [] ∧ (sync o e).done = .ok true ∧
    (sync o e).ent.l.changed = false ∧ (sync o e).ent.r.changed = false := by
  have h := sync_idle o e (by intro x; cases x <;> assumption) (by intro x; cases x <;> assumption) hc
  exact ⟨h.1, h.2.1, h.2.2 .loc, h.2.2 .rem⟩

/-! ## 9. totality -/

theorem embraceMain_code (o : Oracle) (e : Entry) (c : Sd) (fx : List Eff) :
    (embraceMain o e c fx).out.fp = true ∨
    ((embraceMain o e c fx).out = .ret .requeue ∧ (embraceMain o e c fx).effs = fx ++ [.reprioritise] ∧
      o.parentConfl = true ∧ (e.get c).ex = .present ∧ (e.get c).p.cur = true) := by
  have hd := deleteSynced_code o e c .discarded
  have hm := handleMissing_code e c
  have ht := embraceTail_code o e c
  unfold embraceMain
  simp only []
  repeat' split
  all_goals simp_all [Res.pre, Out.fp]

theorem embraceBody_code (o : Oracle) (e : Entry) (c : Sd) (fx : List Eff) :
    (embraceBody o e c fx).out.fp = true ∨
    ((embraceBody o e c fx).out = .ret .requeue ∧ (embraceBody o e c fx).effs = fx ++ [.reprioritise] ∧
      o.parentConfl = true ∧ (e.get c).ex = .present ∧ (e.get c).p.cur = true) := by
  have h1 := embraceMain_code o e c fx
  have h2 := embraceMain_code o (e.setIgn .no) c fx
  simp only [setIgn_get_ex, setIgn_get_p] at h2
  unfold embraceBody
  repeat' split
  all_goals first
    | (left; rfl)
    | exact h1
    | exact h2

/-- PUNT OR FINISH, TOTALITY (manager.py 1417-1517): `embrace_change` returns FINISHED, PUNT or REQUEUE or lets an exception
    escape — never Python `None` (the `None` of `mkdir_synced` after CloudFileExistsError is absorbed: see
    `mkdir_exists_error_is_finished`); and REQUEUE is returned only by the parent-conflict branch (1453-1484): a flagged,
    existing ancestor was found for a side that EXISTS and has a path. -/
theorem punt_or_finish_total (o : Oracle) (e : Entry) (c : Sd) :
    (embrace o e c).out ≠ .ret .none_ ∧
    ((embrace o e c).out = .ret .requeue →
      o.parentConfl = true ∧ (e.get c).ex = .present ∧ (e.get c).p.cur = true ∧ (embrace o e c).effs = [.reprioritise]) := by
  have hm := embraceMovedOut_code o e c
  have h1 := embraceBody_code o e c []
  have h2 := embraceBody_code o (e.setIgn .irrelevant) c [.notifyDiscarded c]
  have h2d : embraceBody o (e.setIgn .irrelevant) c [.notifyDiscarded c] = ⟨.ret .finished, [.notifyDiscarded c], e.setIgn .irrelevant⟩ := by
    simp [embraceBody, Ign.isDiscarded]
  unfold embrace
  simp only []
  repeat' split
  · generalize embraceMovedOut o e c = r at hm
    rcases r with ⟨out, fx, en⟩
    cases out with
    | ret r => cases r <;> simp_all [Out.fp]
    | raised x => simp
  · rw [h2d]; simp
  · rcases h1 with h1 | h1
    · generalize embraceBody o e c [] = r at h1
      rcases r with ⟨out, fx, en⟩
      cases out with
      | ret r => cases r <;> simp_all [Out.fp]
      | raised x => simp
    · simp [h1]

/-- a REQUEUE makes no provider call (only the priorities move) -/
theorem requeue_never_writes (o : Oracle) (e : Entry) (c : Sd) (h : (embrace o e c).out = .ret .requeue) :
    (embrace o e c).effs.all (fun f => !f.isWrite) = true := by
  rw [((punt_or_finish_total o e c).2 h).2.2.2]; decide

theorem dispatch_not_done (o : Oracle) (e : Entry) (side : Sd) (fx fx' : List Eff) (e' : Entry)
    (h : dispatch o e side fx = .brk false e' fx') : Eff.punt ∈ fx' ∨ o.parentConfl = true := by
  have ht := punt_or_finish_total o e side
  unfold dispatch at h
  by_cases hcg : (e.get side).corruptGone = true
  · simp [hcg] at h
  · simp only [hcg] at h
    generalize embrace o e side = r at h ht
    rcases r with ⟨out, efs, en⟩
    cases out with
    | raised x => cases x <;> simp at h
    | ret r =>
      cases r
      · simp at h
      · simp at h; left; rw [← h.2]; simp
      · right; exact (ht.2 rfl).1
      · exact absurd rfl ht.1

theorem syncSide_not_done (o : Oracle) (e : Entry) (side : Sd) (fx' : List Eff) (e' : Entry)
    (h : syncSide o e side = .brk false e' fx') : Eff.punt ∈ fx' ∨ o.parentConfl = true := by
  unfold syncSide at h
  simp only [] at h
  repeat' split at h
  all_goals first
    | (simp at h; done)
    | exact dispatch_not_done o _ side _ _ _ h

/-- TOTALITY OF ONE ENGINE STEP (manager.py 180-203, 372-464): `_sync_one_entry` either reports progress, or the entry was
    punted (`sync.punt()`), or the parent-conflict REQUEUE was taken, or the entry was split because a peer left the sync root, or an
    exception escaped — and then the entry was punted before backing off.  There is no silent "nothing happened" path. -/
theorem sync_one_total (o : Oracle) (e : Entry) :
    (syncOne o e).1 = .done true ∨ Eff.punt ∈ (syncOne o e).2.1 ∨
      ((syncOne o e).1 = .done false ∧ (o.parentConfl = true ∨ Eff.split ∈ (syncOne o e).2.1)) := by
  unfold syncOne
  rcases hp : preSync o e with ⟨b, fx, e1⟩
  cases b
  · simp only []
    rcases hs : sync o e1 with ⟨d, fx2, e2⟩
    cases d with
    | error x => simp
    | ok b =>
      cases b
      · simp only []
        -- something_got_done = False: find the break
        have : Eff.punt ∈ fx2 ∨ o.parentConfl = true ∨ Eff.split ∈ fx2 := by
          by_cases hu : unlinks o e1 = true
          · have := (sync_of_unlinks o e1 hu).1
            rw [hs] at this
            right; right; simp at this; simp [this]
          rw [sync_of_not_unlinks o e1 (by simpa using hu)] at hs
          refine (?_ : Eff.punt ∈ fx2 ∨ o.parentConfl = true).elim Or.inl (fun h => Or.inr (Or.inl h))
          unfold syncPre at hs
          split at hs
          · split at hs <;> simp at hs
          · simp only [] at hs
            split at hs
            · rename_i d' e' fxa hbrk
              simp at hs
              rcases hs with ⟨hd, hfx, _⟩
              subst hd hfx
              exact syncSide_not_done o _ _ _ _ hbrk
            · simp at hs
            · split at hs
              · rename_i d' e'' fxb hbrk
                simp at hs
                rcases hs with ⟨hd, hfx, _⟩
                subst hd hfx
                rcases syncSide_not_done o _ _ _ _ hbrk with h | h
                · left; simp [h]
                · right; exact h
              · simp at hs
              · simp at hs
        rcases this with h | h | h
        · right; left; simp [h]
        · right; right; simp [h]
        · right; right; simp [h]
      · left; rfl
  · left; rfl

/-! ## 10b. further laws -/

/-- a file is created / a folder made on the other side only for a side that `is_creation` — possibly after the trashed peer
    was cleared (manager.py 1219: "converting to create") -/
theorem create_only_for_creation (o : Oracle) (e : Entry) (c : Sd)
    (h : Eff.create c.other ∈ (hpccRest o e c).effs ∨ Eff.mkdir c.other ∈ (hpccRest o e c).effs) : isCreation e c = true := by
  have hr := handleRename_effs o e c
  by_cases hc : isCreation e c = true
  · exact hc
  · exfalso
    unfold hpccRest at h
    simp only [hc] at h
    simp at h
    split at h
    · have := List.all_eq_true.mp hr
      rcases h with h | h <;> (have := this _ h; cases c <;> simp [Eff.quietTo, Eff.isTransfer] at this)
    · simp at h

/-- `handle_changed_is_missing` (manager.py 1557-1574): while the other side EXISTS, a MISSING side is punted until the
    priority exceeds 4; only then is it cleared and the other side un-synced and forced -/
theorem missing_punts_until_priority_4 (e : Entry) (c : Sd) (h : (e.get c.other).ex = .present) :
    (e.prio ≤ 40 → handleMissing e c = ⟨.ret .punt, [], e⟩) ∧
    (e.prio > 40 → (handleMissing e c).out = .ret .finished ∧ ((handleMissing e c).ent.get c.other).force = true ∧
      ((handleMissing e c).ent.get c.other).changed = true ∧ ((handleMissing e c).ent.get c.other).p.sync = false ∧
      ((handleMissing e c).ent.get c).oid = false) := by
  constructor
  · intro hp; simp [handleMissing, h, hp]
  · intro hp
    have hp' : ¬ e.prio ≤ 40 := by omega
    have cs := clearSide_self e c
    have hex : ((e.clearSide c).get c.other).ex = .present := by rw [clearSide_other]; exact h
    have ho : ∀ (x : Entry) (w : When), ((x.setChanged c.other w).get c).oid = (x.get c).oid := by
      intro x w
      have := setChanged_get_other x c.other w
      simp only [Sd.other_other] at this
      rw [this]
    simp [handleMissing, h, hp', Entry.forceSync, setChanged_get_self, When.flag, ho, cs]

/-- after a successful create (no hash on the peer yet, translate answers the path the file is created at) both sides are in
    sync: neither needs sync unless `force_sync` is set -/
theorem successful_create_is_in_sync (e : Entry) (c : Sd) (t : TrAns) :
    ((createOk e c t).get c).h.same = true ∧ ((createOk e c t).get c).p.same = true ∧
    ((createOk e c t).get c.other).oid = true ∧ ((createOk e c t).get c.other).p = .eq ∧ ((createOk e c t).get c.other).h = .eq := by
  have hs : ∀ (x : Entry) (v : Int) (s : Sd), ((x.setPrio v).get s).oid = (x.get s).oid ∧ ((x.setPrio v).get s).p = (x.get s).p ∧
      ((x.setPrio v).get s).h = (x.get s).h := by
    intro x v s; have := (setPrio_get x v s).1; rw [this]; simp
  have hx : ∀ s : Side, s.existsTrue.oid = s.oid ∧ s.existsTrue.p = s.p ∧ s.existsTrue.h = s.h := by
    intro s; unfold Side.existsTrue; split_ifs <;> simp
  have hn : ∀ s : Side, s.newHashSynced.h = .eq := by
    intro s; unfold Side.newHashSynced; dsimp only
  unfold createOk Entry.pathMoved
  dsimp only
  split_ifs <;> simp [hs, hx, hn]

/-! ## 3b. tombstones, at the level of one `sync` call -/


/-- `e1` is `e` with some change flags / force flags taken down (what `continue` paths of `sync` do to the entry) -/
def Entry.below (e1 e : Entry) : Prop :=
  ∀ x, (e1.get x).oid = (e.get x).oid ∧ (e1.get x).p = (e.get x).p ∧ (e1.get x).h = (e.get x).h ∧ (e1.get x).ex = (e.get x).ex ∧
    (e1.get x).saved = (e.get x).saved ∧ (e1.get x).otype = (e.get x).otype ∧
    ((e1.get x).changed = true → (e.get x).changed = true) ∧ ((e1.get x).force = true → (e.get x).force = true)

theorem below_refl (e : Entry) : e.below e := fun _ => ⟨rfl, rfl, rfl, rfl, rfl, rfl, id, id⟩

theorem below_setChanged_zero (e : Entry) (s : Sd) : (e.setChanged s .zero).below e := by
  intro x
  have a := setChanged_get_self e s .zero
  have b := setChanged_get_other e s .zero
  by_cases hx : x = s
  · subst hx; rw [a]; simp [When.flag]
  · have : x = s.other := by cases x <;> cases s <;> simp_all [Sd.other]
    subst this; rw [b]; simp; intro h _; exact h

theorem below_finished (e : Entry) (s : Sd) : (finished e s).below e := by
  rcases e with ⟨⟨lo, lp, lh, lx, lsv, lt, lc, lf⟩, ⟨ro, rp, rh, rx, rsv, rt, rc, rf⟩, ord, ign, prio⟩
  intro x
  cases s <;> cases x <;> cases lo <;> cases lc <;> cases ro <;> cases rc <;> cases lf <;> cases rf <;>
    simp [finished, Entry.setChanged, Entry.get, Entry.set, Sd.other, When.flag]

theorem needsSync_below (e1 e : Entry) (h : e1.below e) (x : Sd) (hn : (e1.get x).needsSync = true) : (e.get x).needsSync = true := by
  obtain ⟨h1, h2, h3, h4, _, _, h7, h8⟩ := h x
  simp only [Side.needsSync, h1, h2, h3, h4] at hn ⊢
  simp only [Bool.or_eq_true, Bool.and_eq_true] at hn ⊢
  rcases hn with hn | ⟨⟨hc, ho⟩, hr⟩
  · left; exact h8 hn
  · right; exact ⟨⟨h7 hc, ho⟩, hr⟩

theorem isCreation_below' (e1 e : Entry) (h : e1.below e) (x : Sd) (hc : isCreation e1 x = true) : isCreation e x = true := by
  have hx := h x
  have ho := h x.other
  have hns := needsSync_below e1 e h x
  unfold isCreation at hc ⊢
  simp only [Side.corruptGone, Side.isCorrupt, hx.1, hx.2.1, hx.2.2.2.1, ho.1, ho.2.2.2.1, ho.2.2.2.2.1] at hc
  simp only [Side.corruptGone, Side.isCorrupt]
  split at hc
  · rename_i h1
    rw [if_pos h1]
    split at hc
    · rename_i h2
      rw [if_pos (hns h2)]
      exact hc
    · simp at hc
  · simp at hc

theorem isCreation_below (e1 e : Entry) (h : e1.below e) (x : Sd) (hn : isCreation e x = false) : isCreation e1 x = false := by
  cases hc : isCreation e1 x
  · rfl
  · rw [isCreation_below' e1 e h x hc] at hn; cases hn


theorem isCreation_clear_peer (e : Entry) (s : Sd) (ht : (e.get s.other).ex = .trashed) (hn : isCreation e s = false) :
    isCreation (e.clearSide s.other) s = false := by
  have hs := clearSide_other e s.other
  simp only [Sd.other_other] at hs
  have hcs := clearSide_self e s.other
  unfold isCreation at hn ⊢
  simp only [ht] at hn
  simp only [hs] at *
  rcases hm : e.get s with ⟨oid, p, hh, ex, saved, otype, changed, force⟩
  simp only [hm] at hn ⊢
  cases changed <;> simp_all [Side.needsSync]

theorem hpccRest_quiet_cleared (o : Oracle) (e : Entry) (s : Sd) (ho : (e.get s.other).oid = false) (hp : (e.get s.other).p = .nn)
    (hh : (e.get s.other).h = .nn) (hd : (e.get s.other).otype ≠ .dir) (hn : isCreation e s = false) :
    (hpccRest o e s).effs = [] ∧ ((hpccRest o e s).ent.get s.other).oid = false := by
  unfold hpccRest handleRename
  simp [hn, hp, hh, hd, TrAns.eqSync, Rel.sync]
  split <;> simp [ho]

theorem hpcc_quiet_on_tombstone (o : Oracle) (e : Entry) (s : Sd) (ht : (e.get s.other).ex = .trashed)
    (hn : isCreation e s = false) (hd : (e.get s.other).otype ≠ .dir) (hps : (e.get s).p.sync = true) :
    (hpcc o e s).effs = [] ∧
    (((hpcc o e s).ent.get s.other).ex = .trashed ∨ ((hpcc o e s).ent.get s.other).oid = false) := by
  have hc := clearSide_self e s.other
  have hq := hpccRest_quiet_cleared o (e.clearSide s.other) s hc.1 hc.2.1 hc.2.2.1 (by rw [hc.2.2.2.2.1]; exact hd)
    (isCreation_clear_peer e s ht hn)
  have hso : ((e.setChanged s .afterPeer).get s.other).ex = .trashed := by rw [setChanged_get_other]; exact ht
  unfold hpcc
  simp only [ht, hps]
  split
  · exact ⟨rfl, Or.inl ht⟩
  · simp only [Bool.true_and, beq_self_eq_true, if_true]
    split
    · exact ⟨rfl, Or.inl ht⟩
    · split
      · exact ⟨rfl, Or.inl hso⟩
      · exact ⟨hq.1, Or.inr hq.2⟩

theorem hashDiff_quiet (o : Oracle) (e : Entry) (c : Sd)
    (h : (e.get c.other).ex = .trashed ∨ (e.get c.other).oid = false) : (hashDiff o e c).effs = [] := by
  rcases h with h | h
  · exact (no_upload_over_trashed_peer o e c (Or.inl h)).1
  · exact (no_upload_over_trashed_peer o e c (Or.inr (Or.inr h))).1

theorem embraceHash_quiet (o : Oracle) (e : Entry) (c : Sd) (fx : List Eff)
    (h : (e.get c.other).ex = .trashed ∨ (e.get c.other).oid = false) : (embraceHash o e c fx).effs = fx := by
  have := hashDiff_quiet o e c h
  unfold embraceHash
  simp only []
  split <;> simp [Res.pre, this]

/-- embracing the side OPPOSITE to a tombstone that is not a folder makes no leaf call in the path/hash part, unless that side is
    a pending creation -/
theorem embraceTail_quiet_on_tombstone (o : Oracle) (e : Entry) (s : Sd) (ht : (e.get s.other).ex = .trashed)
    (hn : isCreation e s = false) (hd : (e.get s.other).otype ≠ .dir) : (embraceTail o e s).effs = [] := by
  unfold embraceTail
  simp only [hn, Bool.or_false]
  split
  · rename_i hpc
    have hps : (e.get s).p.sync = true := by simp [isPathChange] at hpc; exact hpc.1
    have hq := hpcc_quiet_on_tombstone o e s ht hn hd hps
    split
    · exact hq.1
    · exact hq.1
    · split
      · exact hq.1
      · rw [embraceHash_quiet o _ s _ hq.2]; exact hq.1
  · exact embraceHash_quiet o e s [] (Or.inl ht)


def noTransfer (f : Eff) : Bool := !f.isTransfer

/-- the hypotheses of the tombstone theorem about an entry: side `c` is TRASHED and not a folder, the other side is not a
    pending creation -/
structure Tomb (e : Entry) (c : Sd) : Prop where
  ex : (e.get c).ex = .trashed
  notDir : (e.get c).otype ≠ .dir
  notCreation : isCreation e c.other = false

theorem Tomb.below {e1 e : Entry} {c : Sd} (h : Tomb e c) (hb : e1.below e) : Tomb e1 c :=
  ⟨by rw [(hb c).2.2.2.1]; exact h.ex, by rw [(hb c).2.2.2.2.2.1]; exact h.notDir, isCreation_below e1 e hb _ h.notCreation⟩

theorem embraceMain_opposite (o : Oracle) (e : Entry) (c : Sd) (fx : List Eff) (h : Tomb e c) (hfx : fx.all noTransfer = true) :
    (embraceMain o e c.other fx).effs.all noTransfer = true := by
  have hd := quietTo_noTransfer _ _ (deleteSynced_effs o e c.other .discarded)
  have hm := handleMissing_effs e c.other
  have ht := embraceTail_quiet_on_tombstone o e c.other (by simpa using h.ex) h.notCreation (by simpa using h.notDir)
  unfold embraceMain
  simp only []
  repeat' split
  all_goals (try rw [all_pre])
  all_goals simp_all [noTransfer, Eff.isTransfer]

theorem embraceBody_opposite (o : Oracle) (e : Entry) (c : Sd) (fx : List Eff) (h : Tomb e c) (hfx : fx.all noTransfer = true) :
    (embraceBody o e c.other fx).effs.all noTransfer = true := by
  have h' : Tomb (e.setIgn .no) c :=
    ⟨by simpa using h.ex, by rw [setIgn_get _ _ _ (by decide)]; exact h.notDir,
     by rw [isCreation_congr e _ _ (fun s => setIgn_get _ _ _ (by decide))]; exact h.notCreation⟩
  unfold embraceBody
  repeat' split
  all_goals first
    | exact hfx
    | exact embraceMain_opposite o _ c fx h hfx
    | exact embraceMain_opposite o _ c fx h' hfx

theorem embrace_opposite (o : Oracle) (e : Entry) (c : Sd) (h : Tomb e c) :
    (embrace o e c.other).effs.all noTransfer = true := by
  unfold embrace
  simp only []
  repeat' split
  · exact quietTo_noTransfer _ _ (embraceMovedOut_effs o e c.other)
  · simp [embraceBody, Ign.isDiscarded, noTransfer, Eff.isTransfer]
  · exact embraceBody_opposite o e c [] h (by simp)

theorem embrace_tomb_any_side (o : Oracle) (e : Entry) (c side : Sd) (h : Tomb e c) :
    (embrace o e side).effs.all noTransfer = true := by
  by_cases hs : side = c
  · subst hs; exact tombstone_blocks_resurrection o e side h.ex
  · have : side = c.other := by cases side <;> cases c <;> simp_all [Sd.other]
    subst this; exact embrace_opposite o e c h

/-- what an iteration of the loop of `sync` leaves behind -/
def Step.good (e : Entry) : Step → Prop
  | .cont e' fx => fx.all noTransfer = true ∧ e'.below e
  | .brk _ _ fx => fx.all noTransfer = true
  | .raised _ _ fx => fx.all noTransfer = true

theorem dispatch_good (o : Oracle) (e : Entry) (c side : Sd) (h : Tomb e c) : (dispatch o e side []).good e := by
  have he := embrace_tomb_any_side o e c side h
  unfold dispatch
  by_cases hcg : (e.get side).corruptGone = true
  · simp [hcg, Step.good, noTransfer, Eff.isTransfer]
  · simp only [hcg]
    generalize embrace o e side = r at he
    rcases r with ⟨out, fx, en⟩
    cases out with
    | raised x => cases x <;> simp_all [Step.good, noTransfer, Eff.isTransfer]
    | ret r => cases r <;> simp_all [Step.good, noTransfer, Eff.isTransfer]

theorem pathConflict_tomb (o : Oracle) (e : Entry) (c : Sd) (h : Tomb e c) : pathConflict o e = false := by
  have := h.ex
  unfold pathConflict
  cases c <;> simp_all [Entry.get]

theorem syncSide_good (o : Oracle) (e : Entry) (c side : Sd) (h : Tomb e c) : (syncSide o e side).good e := by
  have hd := dispatch_good o e c side h
  have hp := pathConflict_tomb o e c h
  unfold syncSide
  simp only [hp, Bool.false_eq_true, ↓reduceIte]
  repeat' split
  all_goals first
    | exact hd
    | exact ⟨by simp, below_setChanged_zero e side⟩
    | exact ⟨by simp, below_refl e⟩
    | exact ⟨by simp [noTransfer, Eff.isTransfer], below_finished e side⟩
    | simp [Step.good, noTransfer, Eff.isTransfer]

/-- TOMBSTONE BLOCKS RESURRECTION, at the level of one `sync` call (manager.py 372-464): if one side of the entry is TRASHED
    (and is not a folder), the other side is not a pending creation, and there is no hash conflict, then `sync` — whichever
    side it picks, whatever the outside world answers — creates nothing, uploads nothing and makes no folder.
    (For a FOLDER tombstone see the witness `folder_tombstone_reidentified`.) -/
theorem sync_tombstone_not_resurrected (o : Oracle) (e : Entry) (c : Sd) (ht : (e.get c).ex = .trashed)
    (hd : (e.get c).otype ≠ .dir) (hn : isCreation e c.other = false) (hc : hashConflict e = false) :
    (sync o e).effs.all (fun f => !f.isTransfer) = true := by
  have h : Tomb e c := ⟨ht, hd, hn⟩
  by_cases hu : unlinks o e = true
  · rw [(sync_of_unlinks o e hu).1]; decide
  rw [sync_of_not_unlinks o e (by simpa using hu)]
  unfold syncPre
  rw [if_neg (by simp [hc])]
  dsimp only
  generalize firstSide e = s1
  have g1 := syncSide_good o e c s1 h
  cases h1 : syncSide o e s1 with
  | brk d e' fx => rw [h1] at g1; exact g1
  | raised x e' fx => rw [h1] at g1; exact g1
  | cont e' fx =>
    rw [h1] at g1
    have g2 := syncSide_good o e' c s1.other (h.below g1.2)
    have a1 : fx.all noTransfer = true := g1.1
    dsimp only
    cases h2 : syncSide o e' s1.other with
    | brk d e'' fx2 =>
      rw [h2] at g2
      have a2 : fx2.all noTransfer = true := g2
      show (fx ++ fx2).all noTransfer = true
      simp [List.all_append, a1, a2]
    | raised x e'' fx2 =>
      rw [h2] at g2
      have a2 : fx2.all noTransfer = true := g2
      show (fx ++ fx2).all noTransfer = true
      simp [List.all_append, a1, a2]
    | cont e'' fx2 =>
      rw [h2] at g2
      have a2 : fx2.all noTransfer = true := g2.1
      show (fx ++ fx2).all noTransfer = true
      simp [List.all_append, a1, a2]


/-- the FOLDER corner excluded from `sync_tombstone_not_resurrected` (model level; folders carry no hashes in practice): REMOTE is
    a TRASHED folder; LOCAL was renamed AND has a hash difference, and its `exists` is UNKNOWN (so it is not a "creation").  With
    priority > 0 the trashed peer is cleared (manager.py 1219), `handle_rename` re-identifies it by the id the provider's rename
    returns (1342-1345: for a FILE peer the assertion of 1287 fails instead), and the fall-through to `handle_hash_diff` (1513)
    uploads over it. -/
theorem folder_tombstone_reidentified :
    Eff.upload .rem ∈ (sync { Oracle.quiet with trR := .gt }
      { l := { wSynced with p := .ne, h := .ne, ex := .unknown, changed := true },
        r := { wSynced with otype := .dir, ex := .trashed }, lLeR := true, ign := .no, prio := 10 }).effs := by
  decide

/-! ## 11. shapes worth a look (kernel-checked on the model; the model is tied to the code by the harness) -/

/-- MKDIR AGAINST AN EXISTING OBJECT IS SILENTLY FINISHED.  `mkdir_synced` falls off its end after CloudFileExistsError
    (manager.py 632-633) and returns `None`; `handle_path_change_or_creation` passes it on; `embrace_change` only tests
    `ret == PUNT` (1504), falls through to "nothing changed" and returns FINISHED; `sync` clears the folder's change flag.
    The folder is not created on the other side and nothing is queued to retry. -/
theorem mkdir_exists_error_is_finished :
    (sync { Oracle.quiet with mkd := .none_ } { l := wNewDir, r := Side.blank, lLeR := true, ign := .no, prio := 0 }).done.toOption = some true ∧
    (sync { Oracle.quiet with mkd := .none_ } { l := wNewDir, r := Side.blank, lLeR := true, ign := .no, prio := 0 }).effs
      = [.checkDisjoint, .mkdir .rem, .fin .loc] ∧
    (sync { Oracle.quiet with mkd := .none_ } { l := wNewDir, r := Side.blank, lLeR := true, ign := .no, prio := 0 }).ent.l.changed = false ∧
    (sync { Oracle.quiet with mkd := .none_ } { l := wNewDir, r := Side.blank, lLeR := true, ign := .no, prio := 0 }).ent.r.oid = false ∧
    (sync { Oracle.quiet with mkd := .none_ } { l := wNewDir, r := Side.blank, lLeR := true, ign := .no, prio := 0 }).ent.needsSync = false := by
  decide

/-- `handle_rename` calls `rename_to_fix_conflict` twice (manager.py 1331-1338): after the try/except the call is repeated
    unconditionally -/
theorem rename_fix_called_twice :
    (handleRename { Oracle.quiet with trR := .gt, ren := .exists_ }
      { l := { wSynced with p := .ne, changed := true }, r := wSynced, lLeR := true, ign := .no, prio := 10 } .loc).effs =
      [.rename .rem, .conflictRename .rem, .conflictRename .rem] := by
  decide

/-! ## 12. the feature space as explicit lists, with coverage -/

def Rel.all : List Rel := [.nn, .cn, .ns, .eq, .ne]
def exAll : List Ex := [.unknown, .present, .trashed, .missing, .likely, .corrupt]
def savedAll : List (Option Ex) := none :: exAll.map some
def otAll : List OT := [.file, .dir, .notknown]
def boolAll : List Bool := [false, true]
def ignAll : List Ign := [.no, .discarded, .conflict, .tempRename, .irrelevant]

theorem Rel.mem_all (r : Rel) : r ∈ Rel.all := by cases r <;> decide
theorem mem_exAll (x : Ex) : x ∈ exAll := by cases x <;> decide
theorem mem_savedAll (x : Option Ex) : x ∈ savedAll := by
  cases x with
  | none => simp [savedAll]
  | some v => simp [savedAll, mem_exAll]
theorem mem_otAll (x : OT) : x ∈ otAll := by cases x <;> decide
theorem mem_boolAll (x : Bool) : x ∈ boolAll := by cases x <;> decide
theorem mem_ignAll (x : Ign) : x ∈ ignAll := by cases x <;> decide

/-- every abstract side, as an explicit list (the harness samples this space: each side exhaustively for the predicates) -/
def Side.all : List Side :=
  boolAll.flatMap fun oid => Rel.all.flatMap fun p => Rel.all.flatMap fun h => exAll.flatMap fun ex =>
  savedAll.flatMap fun saved => otAll.flatMap fun otype => boolAll.flatMap fun changed => boolAll.map fun force =>
    { oid := oid, p := p, h := h, ex := ex, saved := saved, otype := otype, changed := changed, force := force }

/-- coverage: the list is the whole type -/
theorem Side.mem_all (s : Side) : s ∈ Side.all := by
  rcases s with ⟨oid, p, h, ex, saved, otype, changed, force⟩
  simp only [Side.all, List.mem_flatMap, List.mem_map]
  exact ⟨oid, mem_boolAll _, p, Rel.mem_all _, h, Rel.mem_all _, ex, mem_exAll _, saved, mem_savedAll _, otype, mem_otAll _,
    changed, mem_boolAll _, force, mem_boolAll _, rfl⟩

theorem length_flatMap_const {α β : Type} (l : List α) (f : α → List β) (n : Nat) (h : ∀ a, (f a).length = n) :
    (l.flatMap f).length = l.length * n := by
  induction l with
  | nil => simp
  | cons a t ih => simp [List.flatMap_cons, ih, h, Nat.succ_mul, Nat.add_comm]

/-- 2 · 5 · 5 · 6 · 7 · 3 · 2 · 2 abstract sides (the harness samples the 6600 of them in which `_saved_exists` is only set on a
    CORRUPT side, once each for the predicates) -/
theorem Side.all_length : Side.all.length = 25200 := by
  unfold Side.all
  rw [length_flatMap_const _ _ 12600]
  · rfl
  intro _; rw [length_flatMap_const _ _ 2520]
  · rfl
  intro _; rw [length_flatMap_const _ _ 504]
  · rfl
  intro _; rw [length_flatMap_const _ _ 84]
  · rfl
  intro _; rw [length_flatMap_const _ _ 12]
  · rfl
  intro _; rw [length_flatMap_const _ _ 4]
  · rfl
  intro _; rw [length_flatMap_const _ _ 2]
  · rfl
  intro _; simp [boolAll]

/-- the entries with a given priority, as an explicit list with coverage (the priority ranges over ℤ; the code compares it
    with 0, 1, 2, 4, 5, 10 only) -/
def Entry.allAt (prio : Int) : List Entry :=
  Side.all.flatMap fun l => Side.all.flatMap fun r => boolAll.flatMap fun ord => ignAll.map fun ign =>
    { l := l, r := r, lLeR := ord, ign := ign, prio := prio }

theorem Entry.mem_allAt (e : Entry) : e ∈ Entry.allAt e.prio := by
  rcases e with ⟨l, r, ord, ign, prio⟩
  simp only [Entry.allAt, List.mem_flatMap, List.mem_map]
  exact ⟨l, Side.mem_all _, r, Side.mem_all _, ord, mem_boolAll _, ign, mem_ignAll _, rfl⟩

/-! ## satisfiability of the hypotheses -/

example : (wEntry1.get .loc).ex = .trashed ∧ isCreation wEntry1 .rem = true ∧ (wEntry1.get .rem).otype = .file ∧
    (wEntry1.get .rem).changed = true ∧ movedOut Oracle.quiet wEntry1 .loc = false := by decide

example : hashConflict { l := { wSynced with h := .ne }, r := { wSynced with h := .ne }, lLeR := true, ign := .no, prio := 0 } = true := by
  decide

example : (checkRevivify Oracle.quiet { l := wSynced, r := wSynced, lLeR := true, ign := .irrelevant, prio := 0 }).ign.isDiscarded = true := by
  decide

example : (embrace { Oracle.quiet with parentConfl := true } { l := wNewFile, r := Side.blank, lLeR := true, ign := .no, prio := 0 } .loc).out
    = .ret .requeue := by decide

/-! ## 13. the transfer leaves (make_temp_file, download_changed, upload_synced, create_synced, clean_temps)

Assumption of every theorem below that mentions `FS.wf`: the temp directories only contain files this engine wrote — a finished
file under an md5 name holds the bytes that were downloaded for that name's hash, and random names in use are older than the next
one drawn (Proofs/EngineXfer.lean).  `download_changed` re-establishes it (`downloadChanged_any`). -/
namespace Xfer

/-- UPLOADED BYTES HAVE THE CURRENT HASH (manager.py 1600-1605, 1238-1253 with 512-542, 646-653, 698-712).  On a temp directory
    that only contains files this engine wrote (`FS.wf`), whenever the transfer part of `handle_hash_diff` /
    `handle_path_change_or_creation` reaches the provider's `upload` / `create` (or hashes the temp file to adopt an existing
    object), the bytes handed over are bytes downloaded for the side's CURRENT hash — never a temp file left by an attempt made
    for an older hash. -/
theorem uploaded_bytes_have_current_hash (o : XOracle) (fs : FS) (e : XEntry) (hw : fs.wf) (hd : e.c.otype ≠ .dir) :
    (∀ t, XEff.sent t ∈ (transferUpload o fs e).effs → t = e.c.hash.getD 0) ∧
    (∀ t, XEff.created t ∈ (transferCreate o fs e).effs ∨ XEff.hashData t ∈ (transferCreate o fs e).effs → t = e.c.hash.getD 0) := by
  have hany := downloadChanged_any o fs e hw hd
  have htrue := downloadChanged_true o fs e hw hd
  have hnd : ∀ t, XEff.sent t ∉ (downloadChanged o fs e).effs ∧ XEff.created t ∉ (downloadChanged o fs e).effs ∧
      XEff.hashData t ∉ (downloadChanged o fs e).effs := by
    intro t; rcases hany.2.1 with h | h <;> simp [h]
  constructor
  · intro t
    unfold transferUpload
    simp only
    cases hout : (downloadChanged o fs e).out with
    | bool bb =>
      cases bb with
      | false => simp only; exact fun h => absurd h (hnd t).1
      | true =>
        obtain ⟨_, l, hent, hfind, _⟩ := htrue hout
        have hb := (uploadSynced_bytes o (downloadChanged o fs e).fs (downloadChanged o fs e).ent l _ (by rw [hent]) hfind).1 t
        simp only
        split <;> simp only [List.mem_append] <;> intro h <;> rcases h with h | h
        all_goals first
          | exact absurd h (hnd t).1
          | exact hb h
    | code r => simp only; exact fun h => absurd h (hnd t).1
    | unit => simp only; exact fun h => absurd h (hnd t).1
    | raised x => simp only; exact fun h => absurd h (hnd t).1
  · intro t
    unfold transferCreate
    simp only
    cases hout : (downloadChanged o fs e).out with
    | bool bb =>
      cases bb with
      | false => simp only; intro h; rcases h with h | h; exact absurd h (hnd t).2.1; exact absurd h (hnd t).2.2
      | true =>
        obtain ⟨_, l, hent, hfind, _⟩ := htrue hout
        have hb := (createSynced_bytes o (downloadChanged o fs e).fs (downloadChanged o fs e).ent l _ (by rw [hent]) hfind).1 t
        simp only [List.mem_append]
        intro h
        rcases h with (h | h) | (h | h)
        · exact absurd h (hnd t).2.1
        · exact hb (Or.inl h)
        · exact absurd h (hnd t).2.2
        · exact hb (Or.inr h)
    | code r => simp only; intro h; rcases h with h | h; exact absurd h (hnd t).2.1; exact absurd h (hnd t).2.2
    | unit => simp only; intro h; rcases h with h | h; exact absurd h (hnd t).2.1; exact absurd h (hnd t).2.2
    | raised x => simp only; intro h; rcases h with h | h; exact absurd h (hnd t).2.1; exact absurd h (hnd t).2.2

/-- TEMP REUSE ONLY FOR THE SAME HASH (manager.py 504-506, 520-522).  If `download_changed` of a non-folder returns True without
    calling the provider, the file it reuses is named by the md5 of the side's CURRENT path and hash (and, the directory being
    well-formed, holds the bytes of that hash). -/
theorem temp_reuse_only_same_hash (o : XOracle) (fs : FS) (e : XEntry) (hw : fs.wf) (hd : e.c.otype ≠ .dir)
    (h : (downloadChanged o fs e).out = .bool true) (hn : XEff.download ∉ (downloadChanged o fs e).effs) :
    ∃ l p hh, (downloadChanged o fs e).ent.c.temp = some l ∧ e.c.path = some p ∧ e.c.hash = some hh ∧ l.name = .keyed p hh ∧
      (downloadChanged o fs e).fs.find l false = some hh := by
  obtain ⟨_, l, hent, hfind, hfx⟩ := downloadChanged_true o fs e hw hd h
  rcases hfx with hfx | ⟨_, p, hh, hp, hhh, hname⟩
  · rw [hfx] at hn; simp at hn
  · exact ⟨l, p, hh, by rw [hent], hp, hhh, hname, by rw [hfind, hhh]; rfl⟩

/-- RECORDED SYNC HASH MATCHES THE UPLOADED BYTES (manager.py 656-661 after 1601-1604).  After a successful upload the changed side's
    `sync_hash` is its current hash, and the bytes the provider received were downloaded for exactly that hash. -/
theorem recorded_sync_hash_matches_uploaded_bytes (o : XOracle) (fs : FS) (e : XEntry) (hw : fs.wf) (hd : e.c.otype ≠ .dir)
    (hup : o.up = .ok) (hf : (transferUpload o fs e).out = .code .finished) :
    (transferUpload o fs e).ent.c.syncHash = e.c.hash ∧ (transferUpload o fs e).ent.c.syncPath = e.c.path ∧
    XEff.sent (e.c.hash.getD 0) ∈ (transferUpload o fs e).effs := by
  have htrue := downloadChanged_true o fs e hw hd
  unfold transferUpload at hf ⊢
  simp only at hf ⊢
  cases hout : (downloadChanged o fs e).out with
  | bool bb =>
    cases bb with
    | false => simp [hout] at hf
    | true =>
      obtain ⟨_, l, hent, hfind, _⟩ := htrue hout
      simp only [hout] at hf ⊢
      have hh : (downloadChanged o fs e).ent.c.hash = e.c.hash := by rw [hent]
      have hp : (downloadChanged o fs e).ent.c.path = e.c.path := by rw [hent]
      obtain ⟨hfx, hrec, hcode⟩ := uploadSynced_ok o (downloadChanged o fs e).fs (downloadChanged o fs e).ent l _ (by rw [hent]) hfind hup
      cases hu : (uploadSynced o (downloadChanged o fs e).fs (downloadChanged o fs e).ent).out with
      | bool ub =>
        cases ub with
        | false => simp [hu] at hf
        | true =>
          have := hrec hu
          simp only [hu, hfx, List.mem_append, List.mem_singleton, or_true, and_true]
          exact ⟨this.1.trans hh, this.2.trans hp⟩
      | code r => rw [hu] at hcode; simp at hcode
      | unit => simp [hu] at hf
      | raised x => simp [hu] at hf
  | code r => rcases downloadChanged_out o fs e with ⟨b, hb⟩ | ⟨x, hx⟩ <;> simp_all
  | unit => simp [hout] at hf
  | raised x => simp [hout] at hf

/-- FAILED UPLOAD KEEPS THE ENTRY PENDING (manager.py 666-693).  Whatever goes wrong in `upload_synced` — the temp file vanished,
    FileNotFoundError, CloudFileNotFoundError, CloudFileExistsError, CloudFileNameError, or an exception that escapes — the changed
    side is left exactly as it was (change flag, `sync_hash`, `sync_path`, `temp_file`), the temp directory is untouched, and the
    call returns False or raises (so `handle_hash_diff` punts / `_sync_one_entry` punts), except that a name error makes the entry
    IRRELEVANT and an upload onto a folder hands over to the split-conflict handling. -/
theorem failed_upload_keeps_entry_pending (o : XOracle) (fs : FS) (e : XEntry) (h : o.up ≠ .ok) :
    (uploadSynced o fs e).ent.c = e.c ∧ (uploadSynced o fs e).fs = fs ∧
    ((uploadSynced o fs e).out = .bool true →
      (o.up = .nameErr ∧ (uploadSynced o fs e).ent.ign = .irrelevant) ∨
      (o.up = .exists_ ∧ o.splitRet = true ∧ XEff.split ∈ (uploadSynced o fs e).effs)) := by
  unfold uploadSynced
  cases ht : e.c.temp with
  | none => simp
  | some l =>
    simp only
    cases hf : fs.find l false with
    | none => simp
    | some b =>
      simp only
      cases hu : o.up <;> simp only
      · exact absurd hu h
      all_goals (try split_ifs)
      all_goals simp

/-- … and at the level of the transfer: unless the upload succeeded, the step is not FINISHED with the change flag or `sync_hash`
    of the changed side touched -/
theorem failed_transfer_keeps_flag (o : XOracle) (fs : FS) (e : XEntry) (hw : fs.wf) (hd : e.c.otype ≠ .dir) (h : o.up ≠ .ok) :
    (transferUpload o fs e).ent.c.changed = e.c.changed ∧ (transferUpload o fs e).ent.c.syncHash = e.c.syncHash ∧
    (transferUpload o fs e).ent.c.hash = e.c.hash := by
  have hany := downloadChanged_any o fs e hw hd
  have hup := failed_upload_keeps_entry_pending o (downloadChanged o fs e).fs (downloadChanged o fs e).ent h
  unfold transferUpload
  simp only
  cases hout : (downloadChanged o fs e).out with
  | bool bb =>
    cases bb with
    | false => simp only; exact ⟨hany.2.2.2.2.2.1, hany.2.2.2.2.1, hany.2.2.2.1⟩
    | true =>
      simp only
      split <;> simp only [hup.1] <;> exact ⟨hany.2.2.2.2.2.1, hany.2.2.2.2.1, hany.2.2.2.1⟩
  | code r => simp only; exact ⟨hany.2.2.2.2.2.1, hany.2.2.2.2.1, hany.2.2.2.1⟩
  | unit => simp only; exact ⟨hany.2.2.2.2.2.1, hany.2.2.2.2.1, hany.2.2.2.1⟩
  | raised x => simp only; exact ⟨hany.2.2.2.2.2.1, hany.2.2.2.2.1, hany.2.2.2.1⟩

/-- RETRY AFTER A RE-EDIT UPLOADS THE NEW BYTES (sequence level).  First attempt for hash h1 — whatever happens to it (downloaded and
    the upload failed, or punted earlier) — then the user edits the file again (the side's hash becomes h2) and the engine retries:
    every byte string the retry hands to the provider was downloaded for h2.  The temp file left by the first attempt is never sent
    (its md5 name no longer matches, `make_temp_file` unlinks it and picks the name for h2). -/
theorem retry_after_reedit_uploads_new_bytes (o1 o2 : XOracle) (fs : FS) (e : XEntry) (h2 : Tag) (hw : fs.wf)
    (hd : e.c.otype ≠ .dir) :
    ∀ t, XEff.sent t ∈ (retryAfterReedit o1 o2 fs e h2).2.effs → t = h2 := by
  obtain ⟨w1, ot1⟩ := transferUpload_wf o1 fs e hw hd
  intro t ht
  unfold retryAfterReedit at ht
  simp only at ht
  have := (uploaded_bytes_have_current_hash o2 (transferUpload o1 fs e).fs
    { (transferUpload o1 fs e).ent with c := { (transferUpload o1 fs e).ent.c.setHash (some h2) with changed := true } } w1
    (by simp only [XSide.setHash]; split_ifs <;> simpa [ot1] using hd)).1 t ht
  simpa [XSide.setHash] using this

/-- after a successful `_create_synced` — a create, or the adoption of an existing object whose hash equals the hash of our bytes
    (manager.py 706-715) — the changed side's `sync_hash`/`sync_path` are its current hash/path, it HAS a hash, and the synced side
    has an id and equal `hash`/`sync_hash` -/
theorem recorded_sync_hash_after_create (o : XOracle) (fs : FS) (e e' : XEntry) (fx : List XEff)
    (h : createInner o fs e = .done fx e') :
    e'.c.syncHash = e.c.hash ∧ e'.c.syncPath = e.c.path ∧ e.c.hash.isSome = true ∧ e'.s.oid = true := by
  have key : ∀ (ih ip : Option Tag) (fx0 : List XEff), recordCreate o e ih ip fx0 = .done fx e' →
      e'.c.syncHash = e.c.hash ∧ e'.c.syncPath = e.c.path ∧ e.c.hash.isSome = true ∧ e'.s.oid = true := by
    intro ih ip fx0 hr
    unfold recordCreate at hr
    cases ih with
    | none => cases hr
    | some hv =>
      simp only at hr
      split_ifs at hr with hn
      generalize hu : updateSynced _ _ _ _ = u at hr
      cases u with
      | error x => cases hr
      | ok e2 =>
        simp only [Inner.ofUpdate] at hr
        injection hr with _ he
        subst he
        have hc := updateSynced_c _ _ _ _ _ hu
        refine ⟨by rw [hc], by rw [hc], by cases hq : e.c.hash <;> simp_all, ?_⟩
        unfold updateSynced at hu
        simp only at hu
        split_ifs at hu
        all_goals (injection hu with hu; subst hu; simp [XSide.existsTrue, XSide.setEx, XSide.setHash]; repeat' split)
        all_goals simp
  unfold createInner at h
  cases ht : e.c.temp with
  | none => simp [ht] at h
  | some l =>
    simp only [ht] at h
    cases hf : fs.find l false with
    | none => simp [hf] at h
    | some b =>
      simp only [hf] at h
      cases hcr : o.cr <;> simp only [hcr] at h
      · exact key _ _ _ h
      · cases hap : o.atPath with
        | none => simp [hap] at h
        | some hv =>
          simp only [hap] at h
          split_ifs at h
          exact key _ _ _ h
      all_goals cases h

/-- `finished` → `clean_temps` (manager.py 478-491): afterwards neither side's temp file exists; the directory stays well-formed -/
theorem finished_cleans_temps (fs : FS) (e : XEntry) (hw : fs.wf) :
    (cleanTemps fs e).wf ∧ (∀ l, e.c.temp = some l ∨ e.s.temp = some l → (cleanTemps fs e).find l false = none) := by
  refine ⟨wf_cleanTemp _ _ (wf_cleanTemp _ _ hw), ?_⟩
  intro l hl
  have gone : ∀ (g : FS) (l : Loc), (g.unlink l false).find l false = none := by
    intro g l
    unfold FS.find
    split
    · simp only [FS.unlink, File.is, Option.map_eq_none_iff, List.find?_eq_none]
      intro f hf
      have := (List.mem_filter.mp hf).2
      cases hq : (f.loc == l && f.part == false) <;> simp_all
    · rfl
  have stays : ∀ (g : FS) (l l' : Loc), g.find l false = none → (g.unlink l' false).find l false = none := by
    intro g l l' hg
    unfold FS.find at hg ⊢
    rw [unlink_dirExists]
    split at hg
    · simp only [Option.map_eq_none_iff, List.find?_eq_none] at hg ⊢
      rename_i hdx
      simp only [hdx, if_true, Option.map_eq_none_iff, List.find?_eq_none]
      intro f hf
      exact hg f (List.mem_filter.mp hf).1
    · rename_i hdx; simp [hdx]
  unfold cleanTemps cleanTemp
  rcases hl with hl | hl
  · rw [hl]
    cases e.s.temp with
    | none => exact gone fs l
    | some l' => exact stays _ _ _ (gone fs l)
  · rw [hl]
    cases e.c.temp with
    | none => exact gone fs l
    | some l' => exact gone _ l

/-- `make_temp_file` is stable for a side WITH a hash: called again on its own result it keeps the name (manager.py 505-506).
    (Without a hash every call unlinks the previous temp file and draws a new random name.) -/
theorem make_temp_file_stable (fs fs' : FS) (c c' : XSide) (hw : fs.wf) (hd : c.otype ≠ .dir) (hh : c.hash.isSome = true)
    (h : makeTempFile fs c = .ok (fs', c')) : makeTempFile fs' c' = .ok (fs', c') := by
  obtain ⟨_, l, hc, hde, hname⟩ := makeTempFile_spec fs fs' c c' hw hd h
  rcases hname with ⟨p, hv, hp, hhh, hn⟩ | ⟨hnone, _⟩
  · subst hc
    unfold makeTempFile
    have hd' : (c.otype == OT.dir) = false := by simpa using hd
    simp [hd', hp, hhh, hn, hde]
  · rw [hnone] at hh; cases hh

/-! satisfiability: a well-formed directory with a stale temp of an older hash, a file side with a newer hash -/
example : (⟨true, true, [⟨⟨.cur, .keyed 1 1⟩, false, 1⟩], 0⟩ : FS).wf := by
  intro f hf
  simp at hf
  subst hf
  intro _
  rfl

end Xfer
end CS.Engine

/-! ## 14. part 3: the conflict path, conflict names, the file-not-found handler, disjoint creates, folder/file conflicts -/

namespace CS.Engine.More
open CS.Hints (Ex OT Ign)
open CS.Engine
open CS.Path (Str Cfg)

/-- CONFLICT NAME FRESH, and the loop of `conflict_rename` (manager.py 1403-1413) TERMINATES: against any finite set of taken
    names, one of the first `taken.length + 1` candidates `stem.conflicted[N]ext` is free; the name produced is not taken, starts
    with the stem, contains ".conflicted", keeps the extension (everything from the FIRST dot of the base name), and every
    candidate tried before it was taken. -/
theorem conflict_name_fresh (stem ext : Str) (taken : List Str) :
    ∃ n k, conflictName stem ext taken = some (n, k) ∧ n ∉ taken ∧ 1 ≤ k ∧ k ≤ taken.length + 1 ∧
      n = conflictBase stem ext k ∧ stem <+: n ∧ conflictedTag <:+: n ∧ ext <:+ n ∧
      ∀ j, 1 ≤ j → j < k → conflictBase stem ext j ∈ taken := by
  -- pigeonhole: not all candidates can be taken
  have hex : ∃ k ∈ List.range (taken.length + 1), (!taken.contains (conflictBase stem ext (k + 1))) = true := by
    apply Classical.byContradiction
    intro hno
    have hsub : candidates stem ext (taken.length + 1) ⊆ taken := by
      intro x hx
      simp only [candidates, List.mem_map] at hx
      obtain ⟨k, hk, rfl⟩ := hx
      apply Classical.byContradiction
      intro hnot
      exact hno ⟨k, hk, by simpa using hnot⟩
    have := (candidates_nodup stem ext (taken.length + 1)).length_le_of_subset hsub
    simp [candidates] at this
    omega
  cases hf : (List.range (taken.length + 1)).find? (fun k => !taken.contains (conflictBase stem ext (k + 1))) with
  | none =>
    rw [List.find?_eq_none] at hf
    obtain ⟨k, hk, hp⟩ := hex
    exact absurd hp (hf k hk)
  | some k =>
    obtain ⟨hp, hm, hbefore⟩ := List.find?_range_eq_some.mp hf
    have hname : conflictName stem ext taken = some (conflictBase stem ext (k + 1), k + 1) := by
      unfold conflictName; rw [hf]; rfl
    have hnot : conflictBase stem ext (k + 1) ∉ taken := by simpa using hp
    have hle : k + 1 ≤ taken.length + 1 := by have := List.mem_range.mp hm; omega
    refine ⟨conflictBase stem ext (k + 1), k + 1, hname, hnot, by omega, hle, rfl, ?_, ?_, ?_, ?_⟩
    · exact ⟨conflictedTag ++ (if k + 1 ≤ 1 then [] else numStr (k + 1)) ++ ext, by simp [conflictBase]⟩
    · exact ⟨stem, (if k + 1 ≤ 1 then [] else numStr (k + 1)) ++ ext, by simp [conflictBase]⟩
    · exact ⟨stem ++ conflictedTag ++ (if k + 1 ≤ 1 then [] else numStr (k + 1)), by simp [conflictBase]⟩
    · intro j hj1 hjk
      have := hbefore (j - 1) (by omega)
      have hj : j - 1 + 1 = j := by omega
      rw [hj] at this
      simpa using this

/-- `conflict_rename` never gets stuck: a path with a base name whose object exists is renamed, to a path whose name is fresh -/
theorem conflict_rename_total (c : Cfg) (path : Str) (present : Bool) (taken : List Str) :
    conflictRename c path present taken ≠ .stuck := by
  unfold conflictRename
  simp only
  split_ifs
  · simp
  · simp
  · obtain ⟨n, k, h, _⟩ := conflict_name_fresh (splitExt (CS.Path.split c path).2).1 (splitExt (CS.Path.split c path).2).2 taken
    simp [h]

end CS.Engine.More

namespace CS.Engine.More
open CS.Hints (Ex OT Ign)
open CS.Engine
open CS.Path (Str Cfg)

/-- `handle_cloud_file_not_found_error` only ever punts, or gives up (priority > 5), or trips its own assertion -/
theorem fnf_out (e : Entry) (c : Sd) (parent : Option Entry) (pt ps : Bool) :
    (fnfHandler e c parent pt ps).out = .ret .punt ∨ (fnfHandler e c parent pt ps).out = .raised .tooMany ∨
    (fnfHandler e c parent pt ps).out = .raised .assertion := by
  unfold fnfHandler
  simp only
  repeat' split
  all_goals simp

/-- FNF GIVES UP AFTER BOUNDED PUNTS (manager.py 785-786, 447-455).  (1) once the priority exceeds 5 the handler raises
    CloudTooManyRetriesError whatever the parent looks like; (2) six punts take any non-negative priority above 5; (3) `sync`
    turns that exception into FINISHED: the side is finished and progress is reported. -/
theorem fnf_gives_up_after_bounded_punts :
    (∀ (e : Entry) (c : Sd) (parent : Option Entry) (pt ps : Bool), e.prio > 50 →
        (fnfHandler e c parent pt ps).out = .raised .tooMany ∧ (fnfHandler e c parent pt ps).parent = parent) ∧
    (∀ e : Entry, 0 ≤ e.prio → e.punt.punt.punt.punt.punt.punt.prio > 50) ∧
    (∀ (o : Oracle) (e : Entry) (side : Sd) (fx : List Eff), (e.get side).corruptGone = false →
        (embrace o e side).out = .raised .tooMany →
        dispatch o e side fx = .brk true (finished (embrace o e side).ent side) (fx ++ (embrace o e side).effs ++ [.fin side])) := by
  refine ⟨?_, ?_, ?_⟩
  · intro e c parent pt ps h
    simp [fnfHandler, h]
  · intro e h
    simp only [punt_prio]
    omega
  · intro o e side fx hcg hout
    simp [dispatch, hcg, hout]

/-- when the handler re-flags the parent ("updated entry as missing", 825-830) and returns, the parent IS a pending creation that
    needs sync, its peer is MISSING (or CORRUPT), and its own sync_path is cleared -/
theorem fnf_parent_becomes_creation (e : Entry) (c : Sd) (pe pe' : Entry) (pt : Bool)
    (hch : ((pe.get c).changed && isCreation pe c) = false) (hp : 20 < e.prio) (hp5 : e.prio ≤ 50)
    (hex : (pe.get c).ex = .present) (hr : fnfHandler e c (some pe) pt false = ⟨.ret .punt, [.infoParentOid], some pe'⟩) :
    isCreation pe' c = true ∧ (pe'.get c).needsSync = true ∧ (pe'.get c).p.sync = false := by
  unfold fnfHandler at hr
  have h1 : ¬ e.prio > 50 := by omega
  have h2 : ¬ e.prio ≤ 20 := by omega
  have hch' : (!(pe.get c).changed || !isCreation pe c) = true := by
    cases h3 : (pe.get c).changed <;> cases h4 : isCreation pe c <;> simp_all
  simp only [h1, h2, hch', hex, if_false, if_true, beq_self_eq_true, Bool.false_eq_true] at hr
  split_ifs at hr with ha
  · simp at hr
  · injection hr with _ _ hpar
    injection hpar with hpar
    subst hpar
    simp only [Bool.or_eq_true, Bool.not_eq_true', not_or, Bool.not_eq_false] at ha
    refine ⟨ha.1, ha.2, ?_⟩
    simp [setChanged_get_self]

/-- DISJOINT CREATE NEVER OVERWRITES (manager.py 1140-1180 with 1226-1231).
    (1) `check_disjoint_create` answers False — "go on and create" — only when no other entry at the translated path exists on the
        synced side (or the changed side is not a file), or the provider has nothing at that path; whenever a live peer entry and an
        object at the path exist it answers True and `handle_path_change_or_creation` punts without any provider write (3).
    (2) the synced side of another entry is adopted (`sync[synced] = e[synced]`) only if that entry exists, holds exactly the object at
        the path, its hash is synced and it has no pending change: an unsynced peer object is never taken over (and so never uploaded
        over) — it goes to the conflict resolution instead, or is "not understood" (True, punt). -/
theorem disjoint_create_never_overwrites (cO sO : OT) (peers : List Peer) (info : Bool) :
    ((checkDisjoint cO sO peers info).1 = false →
        info = false ∨ cO ≠ .file ∨ ∀ p ∈ peers, p.ex ≠ .present) ∧
    (∀ i, DjEff.merge i ∈ (checkDisjoint cO sO peers info).2 →
        ∃ p, peers[i]? = some p ∧ p.ex = .present ∧ p.oidMatch = true ∧ p.hashSynced = true ∧ p.changed = false) ∧
    (∀ (o : Oracle) (e : Entry) (c : Sd), isCreation e c = true →
        (hpccRest { o with disjoint := true } e c).out = .ret .punt ∧
        (hpccRest { o with disjoint := true } e c).effs.all (fun f => !f.isWrite) = true) := by
  refine ⟨?_, ?_, ?_⟩
  · intro h
    rcases untrashed_cases cO peers with ⟨_, hwhy, _⟩ | ⟨live, hu, hne, _⟩
    · rcases hwhy with hwhy | hwhy
      · exact Or.inr (Or.inl hwhy)
      · exact Or.inr (Or.inr hwhy)
    · unfold checkDisjoint at h
      rw [hu] at h
      have hemp : live.isEmpty = false := by cases live <;> simp_all
      simp only [hemp, Bool.false_eq_true, if_false] at h
      by_cases hi : info = true
      · exfalso
        simp only [hi, Bool.not_true, Bool.false_eq_true, if_false] at h
        generalize djLoop _ _ _ _ = r at h
        obtain ⟨f, st, fx⟩ := r
        cases f with
        | none => simp at h
        | some g => cases g <;> simp at h
      · left; simpa using hi
  · intro i hm
    rcases untrashed_cases cO peers with ⟨hnone, _, hnm⟩ | ⟨live, hu, hne, hlive⟩
    · exfalso
      unfold checkDisjoint at hm
      rcases hu : untrashedPeers cO peers with ⟨lv, fx⟩
      rw [hu] at hnone hnm hm
      simp only at hnone
      subst hnone
      exact hnm i hm
    · unfold checkDisjoint at hm
      rw [hu] at hm
      have hemp : live.isEmpty = false := by cases live <;> simp_all
      simp only [hemp, Bool.false_eq_true, if_false] at hm
      by_cases hi : info = true
      · simp only [hi, Bool.not_true, Bool.false_eq_true, if_false] at hm
        have key : DjEff.merge i ∈ (djLoop live none sO ([] ++ [.infoPath])).2.2 := by
          generalize hr : djLoop live none sO ([] ++ [DjEff.infoPath]) = r at hm
          obtain ⟨f, st, fx2⟩ := r
          cases f with
          | none => simpa using hm
          | some g =>
            cases g with
            | none => simpa using hm
            | some j =>
              simp only [List.mem_append, List.mem_singleton] at hm
              rcases hm with hm | hm
              · exact hm
              · cases hm
        rcases djLoop_merge live none sO _ i key with h' | ⟨p, hp, h1, h2, h3⟩
        · simp at h'
        · obtain ⟨hen, hex⟩ := hlive (i, p) hp
          exact ⟨p, mem_enum peers i p hen, hex, h1, h2, h3⟩
      · have : (!info) = true := by simpa using hi
        simp [this] at hm
  · intro o e c hcr
    unfold hpccRest
    simp only [hcr, Bool.true_and]
    split_ifs <;> simp [Eff.isWrite]

end CS.Engine.More

namespace CS.Engine.More
open CS.Hints (Ex OT Ign)
open CS.Engine

/-- `get_folder_file_conflict` returns only a LIVE NON-FOLDER the provider still knows, and marks MISSING only entries whose object
    the provider no longer knows -/
theorem folder_file_conflict_is_live_file (peers : List FfPeer) :
    (∀ i, (folderFileConflict peers).1 = some i →
        ∃ p, peers[i]? = some p ∧ p.ex = .present ∧ p.otype ≠ .dir ∧ p.infoThere = true) ∧
    (∀ i ∈ (folderFileConflict peers).2, ∃ p, peers[i]? = some p ∧ p.ex = .present ∧ p.otype ≠ .dir ∧ p.infoThere = false) := by
  unfold folderFileConflict
  simp only
  constructor
  · intro i h
    rw [Option.map_eq_some_iff] at h
    obtain ⟨ip, hip, rfl⟩ := h
    have hm := List.mem_of_mem_head? hip
    obtain ⟨h1, h2⟩ := List.mem_filter.mp hm
    obtain ⟨h3, h4⟩ := List.mem_filter.mp h1
    refine ⟨ip.2, mem_enum peers ip.1 ip.2 h3, ?_, ?_, h2⟩
    · simp only [Bool.and_eq_true, beq_iff_eq] at h4; exact h4.1
    · simp only [Bool.and_eq_true, bne_iff_ne] at h4; exact h4.2
  · intro i h
    rw [List.mem_map] at h
    obtain ⟨ip, hip, rfl⟩ := h
    obtain ⟨h1, h2⟩ := List.mem_filter.mp hip
    obtain ⟨h3, h4⟩ := List.mem_filter.mp h1
    refine ⟨ip.2, mem_enum peers ip.1 ip.2 h3, ?_, ?_, by simpa using h2⟩
    · simp only [Bool.and_eq_true, beq_iff_eq] at h4; exact h4.1
    · simp only [Bool.and_eq_true, bne_iff_ne] at h4; exact h4.2

/-- `mkdir_synced` punts exactly when a live other entry sits at the path and the entry was not punted before (priority ≤ 0);
    it discards only entries whose side is a FOLDER, and no entry twice -/
theorem mkdir_head_law (others : List MkOther) (prio : Int) :
    ((mkdirHead others prio).2.1 = .punt ↔
      (others.any (fun o => !(o.cEx == .trashed || o.cEx == .missing) && !(o.sEx == .trashed || o.sEx == .missing)) = true ∧ prio ≤ 0)) ∧
    (∀ i ∈ (mkdirHead others prio).1, ∃ o, others[i]? = some o ∧ o.cOtype = .dir) ∧
    (∀ i ∈ (mkdirHead others prio).2.2, i ∉ (mkdirHead others prio).1 ∧ ∃ o, others[i]? = some o ∧ o.sOtype = .dir) := by
  unfold mkdirHead
  simp only
  have hd1 : ∀ i ∈ ((enum others).filter (fun io => io.2.cOtype == .dir)).map (·.1), ∃ o, others[i]? = some o ∧ o.cOtype = .dir := by
    intro i h
    rw [List.mem_map] at h
    obtain ⟨io, hio, rfl⟩ := h
    obtain ⟨h1, h2⟩ := List.mem_filter.mp hio
    exact ⟨io.2, mem_enum others io.1 io.2 h1, by simpa using h2⟩
  split_ifs with h
  · refine ⟨⟨fun _ => ?_, fun _ => rfl⟩, hd1, by simp⟩
    simpa using h
  · refine ⟨⟨fun hh => (by cases hh), fun hh => absurd (by simpa using hh) h⟩, hd1, ?_⟩
    intro i hi
    rw [List.mem_map] at hi
    obtain ⟨io, hio, rfl⟩ := hi
    obtain ⟨h1, h2⟩ := List.mem_filter.mp hio
    simp only [Bool.and_eq_true, beq_iff_eq, bne_iff_ne] at h2
    refine ⟨?_, io.2, mem_enum others io.1 io.2 h1, h2.1⟩
    intro hmem
    obtain ⟨o, ho, hod⟩ := hd1 _ hmem
    have := mem_enum others io.1 io.2 h1
    rw [this] at ho
    injection ho with ho
    subst ho
    exact h2.2 hod

end CS.Engine.More

namespace CS.Engine.Conflict
open CS.Hints (Ex OT Ign)
open CS.Engine

/-- CONFLICT RESTORES ON A CLOUD EXCEPTION (manager.py 1626-1632).  When a CloudException (temporary or not) escapes from the
    conflict handling of a hash-conflict entry whose REMOTE side has an id, the deferring entry gets its six saved fields back on
    both sides — id, path, sync_path, hash, sync_hash (as relations) and exists — and the replacement entry created by `split` is
    DISCARDED and no longer holds the LOCAL id.  (The change flag of LOCAL is NOT restored; REMOTE stays flagged, so the entry
    remains in the change set and the conflict is offered again.) -/
theorem conflict_restores_on_cloud_exception (o : COracle) (e : Entry) (x : Exc) (hc : hashConflict e = true)
    (hro : e.r.oid = true) (hout : (hashConflictHandler o e).out = .raised x) (hx : x ≠ .assertion) :
    (hashConflictHandler o e).ents.defer.l.oid = e.l.oid ∧ (hashConflictHandler o e).ents.defer.l.p = e.l.p ∧
    (hashConflictHandler o e).ents.defer.l.h = e.l.h ∧ (hashConflictHandler o e).ents.defer.l.ex = e.l.ex ∧
    (hashConflictHandler o e).ents.defer.r.oid = e.r.oid ∧ (hashConflictHandler o e).ents.defer.r.p = e.r.p ∧
    (hashConflictHandler o e).ents.defer.r.h = e.r.h ∧ (hashConflictHandler o e).ents.defer.r.ex = e.r.ex ∧
    (hashConflictHandler o e).ents.replace.ign = .discarded ∧ (hashConflictHandler o e).ents.replace.l.oid = false ∧
    (hashConflictHandler o e).ents.defer.r.changed = true := by
  have hlh : e.l.h.cur = true := by
    unfold hashConflict at hc; split_ifs at hc with h1; simp only [Bool.and_eq_true] at h1; exact h1.1.1.1
  unfold hashConflictHandler splitFull at hout ⊢
  cases hs : splitEntry e with
  | error y =>
    simp only [hs] at hout
    injection hout with hout
    have : y = .assertion := by
      unfold splitEntry at hs; split_ifs at hs; injection hs with hs; exact hs.symm
    exact absurd (hout ▸ this) hx
  | ok d =>
    obtain ⟨hlo, hdr, hdi⟩ := splitEntry_ok e d hs
    have hnc := splitEntry_local_not_corrupt e d hs hlh
    simp only [hs] at hout ⊢
    generalize ht : (TwoEntries.mk d (Entry.mk { e.l with changed := true, p := e.l.p.clearSync } (blankSide e.l.otype) true Ign.no 0)) = t at hout ⊢
    have htd : t.defer = d := by rw [← ht]
    cases hsc : (splitConflict o t).out with
    | ret b => simp [hsc] at hout
    | raised y =>
      have hents := splitConflict_raised o t y hsc
      simp only [hsc, hents] at hout ⊢
      have := exceptBranch_restores e t y (.split :: (splitConflict o t).effs) hro (by rw [htd]; exact hnc)
        (by rw [htd, hdr]) (by rw [htd, hdr])
      exact this.2

end CS.Engine.Conflict

namespace CS.Engine.Conflict
open CS.Hints (Ex OT Ign)
open CS.Engine CS.Resolver

/-- a content is PRESERVED by a visit: it is at the path on both sides, or parked under a '.conflicted' name on some side, or the
    conflict is still open and the content is still at the path of a side -/
def preserved {α : Type} (st : St α) (c : α) : Prop :=
  (st.pair.loc.main = some c ∧ st.pair.rem.main = some c) ∨ c ∈ st.pair.loc.conf ∨ c ∈ st.pair.rem.conf ∨
  (st.«open».isSome = true ∧ (st.pair.loc.main = some c ∨ st.pair.rem.main = some c))

/-- the application's answer, after validation, is an explicit "do not keep the other version" -/
def explicitDiscard {α : Type} (b : Behaviour α) : Prop := ∃ fh, (safeCall Side.rem OType.file OType.file b).1 = .pair fh false

/-- CONFLICT NEVER LOSES A SIDE (manager.py 377-380 → 1614-1658 → 958-1027, content level = Model/Resolver.lean).  One visit of a
    file/file hash conflict by `sync`: for EVERY behaviour of the application's resolver — a pick with keep, merged data with keep,
    None, garbage, an exception, a CloudTemporaryError — except an explicit answer with keep = False, both the LOCAL and the
    REMOTE content are preserved: at the path on both sides, under a '.conflicted' sibling, or (CloudTemporaryError / merged+keep:
    the conflict stays open) still where they were. -/
theorem conflict_never_loses_a_side {α : Type} [DecidableEq α] (b : Behaviour α) (cl cr : α) (h : ¬ explicitDiscard b) :
    preserved (visit b cl cr) cl ∧ preserved (visit b cl cr) cr := by
  unfold visit episode initSt
  simp only
  by_cases heq : cl = cr
  · subst heq
    simp [preserved]
  · simp only [heq, if_false, fileLikes, sideStates, if_true]
    cases hsc : (safeCall Side.rem OType.file OType.file b).1 with
    | reraised => simp [preserved]
    | pair fh keep =>
      cases keep with
      | false => exact absurd ⟨fh, hsc⟩ h
      | true =>
        cases fh with
        | handle i =>
          cases i <;>
            simp [preserved, resolveStep, replaceLoser, settle, Pair.get, Pair.set, Side.other, Chosen.bytes]
        | data d =>
          simp [preserved, resolveStep, replaceLoser, Pair.get, Pair.set, Side.other, Chosen.bytes]

/-- the same-hash shortcut (1644-1652): the deferring side's bytes hash to the replaced side's hash — the resolver is not called,
    the replacement entry is discarded and both sides of the surviving entry are recorded as synced (hash and path) -/
theorem same_hash_conflict_merges_without_resolver (t : TwoEntries) (rc : RcAns)
    (hf : t.defer.r.otype = .file) :
    let r := splitConflict ⟨.ok, false, true, rc⟩ t
    r.out = .ret true ∧ CEff.resolve ∉ r.effs ∧ r.ents.replace.ign = .discarded ∧
    r.ents.defer.l.h.same = true ∧ r.ents.defer.l.p.same = true ∧ r.ents.defer.r.h.same = true ∧ r.ents.defer.r.p.same = true := by
  have hp0 : ∀ x : Entry, (if t.replace.l.p.cur = true then x.setPrio 0 else x).l = x.l ∧ (if t.replace.l.p.cur = true then x.setPrio 0 else x).r = x.r := by
    intro x; split_ifs
    · exact ⟨(setPrio_zero_sides x).1, (setPrio_zero_sides x).2.1⟩
    · exact ⟨rfl, rfl⟩
  simp only [splitConflict, hf, beq_self_eq_true, if_true, Bool.false_eq_true, if_false, mergeSame]
  refine ⟨trivial, by simp, setIgn_ign _ _, ?_, ?_, ?_, ?_⟩
  all_goals simp [hp0]

/-- `sync` on a hash conflict: it reports progress (True) whatever `handle_hash_conflict` returns, or the exception leaves it -/
theorem hash_conflict_sync_total (o : COracle) (e : Entry) (h : hashConflict e = true) :
    ∃ r, syncClosed o e = some r ∧ (r.out = .ret true ∨ ∃ x, r.out = .raised x) ∧ CEff.split ∈ r.effs := by
  unfold syncClosed
  simp only [h, if_true]
  refine ⟨_, rfl, ?_, ?_⟩
  · cases hh : (hashConflictHandler o e).out with
    | ret b => left; rfl
    | raised x => right; exact ⟨x, by simp [hh]⟩
  · have hex : ∀ t x fx, CEff.split ∈ fx → CEff.split ∈ (exceptBranch e t x fx).effs := by
      intro t x fx hfx; unfold exceptBranch; simp only; split_ifs <;> exact hfx
    have : CEff.split ∈ (hashConflictHandler o e).effs := by
      unfold hashConflictHandler
      cases splitFull e with
      | error y => simp
      | ok t =>
        simp only
        cases (splitConflict o t).out with
        | ret b => simp
        | raised y => exact hex _ _ _ (by simp)
    cases hh : (hashConflictHandler o e).out <;> simpa [hh] using this

end CS.Engine.Conflict

/-! satisfiability: a hash conflict whose handling lets a CloudTemporaryError escape -/
example : CS.Engine.hashConflict { l := { CS.Engine.wSynced with h := .ne }, r := { CS.Engine.wSynced with h := .ne }, lLeR := true, ign := .no, prio := 0 } = true ∧
    (CS.Engine.Conflict.hashConflictHandler ⟨.temp, false, false, .ok⟩
      { l := { CS.Engine.wSynced with h := .ne }, r := { CS.Engine.wSynced with h := .ne }, lLeR := true, ign := .no, prio := 0 }).out = .raised .temp := by
  decide

/-! ## 15. part 4 — refresh scopes: which entry is re-read on which sides before the engine decides -/

namespace CS.Engine.Refresh
open CS.Engine CS.Hints

/-- SCOPE LAW of `SyncEntry.get_latest(force, sides=(a, b))`: a side is re-read exactly when `force` or the newest change stamp OF
    THE LISTED SIDES is newer than the side's `_last_gotten` mark -/
theorem get_latest_scope_law (w : World) (r : RE) (a b : Sd) (hab : a ≠ b) (force : Bool) (t : Sd) :
    t ∈ (getLatest w r [a, b] force).2 ↔ fires force (max (r.ch a) (r.ch b)) (r.lg t) := by
  have ht : t = a ∨ t = b := by cases t <;> cases a <;> cases b <;> simp_all
  have hba : ¬ b = a := fun h => hab h.symm
  rw [getLatest_two_reread w r a b hab]
  rcases ht with h | h
  · subst h
    by_cases h1 : fires force (max (r.ch t) (r.ch b)) (r.lg t) <;> by_cases h2 : fires force (max (r.ch t) (r.ch b)) (r.lg b) <;>
      simp [h1, h2, hab]
  · subst h
    by_cases h1 : fires force (max (r.ch a) (r.ch t)) (r.lg a) <;> by_cases h2 : fires force (max (r.ch a) (r.ch t)) (r.lg t) <;>
      simp [h1, h2, hba]

/-- the same for a one-sided call (`sides=(a,)`): only `a` can be re-read, and only ITS stamp counts -/
theorem get_latest_one_side_law (w : World) (r : RE) (a : Sd) (force : Bool) (t : Sd) :
    t ∈ (getLatest w r [a] force).2 ↔ t = a ∧ fires force (r.ch a) (r.lg a) := by
  rw [getLatest_one_reread]
  by_cases h : fires force (r.ch a) (r.lg a) <;> simp [h]

/-- after a two-sided `get_latest`, each side's mark is at least the newest stamp the entry carried: both sides were read at or after
    the latest recorded change -/
theorem full_refresh_marks_cover_stamps (w : World) (r : RE) (force : Bool) (t : Sd) :
    max r.chL r.chR ≤ (getLatest w r [.loc, .rem] force).1.lg t := by
  rw [getLatest_two_marks w r .loc .rem (by decide) force t]
  by_cases h : fires force (max (r.ch .loc) (r.ch .rem)) (r.lg t)
  · rw [if_pos h]; exact Nat.le_refl _
  · rw [if_neg h]
    unfold fires at h
    simp only [RE.ch] at h
    omega

/-- a call restricted to a side WITHOUT a change stamp re-reads nothing, whatever the other side's stamp says (state.py 639: the
    maximum runs over the listed sides only).  This is why restricting the refresh at a destructive decision loses edits. -/
theorem restricted_scope_is_blind (w : World) (r : RE) (s : Sd) (h : r.ch s = 0) : getLatest w r [s] false = (r, []) := by
  unfold getLatest
  simp [h]

/-- the full scope re-reads a side as soon as EITHER stamp is newer than its mark -/
theorem full_scope_sees_other_stamp (w : World) (r : RE) (s : Sd) (h : r.lg s < r.ch s.other) :
    s ∈ (getLatest w r [.loc, .rem] false).2 := by
  rw [get_latest_scope_law w r .loc .rem (by decide)]
  right
  cases s <;> simp only [RE.ch, Sd.other] at h ⊢ <;> omega

/-- the call sites: every refresh before a decision on the whole entry is two-sided; the one-sided ones are the defer side of a split
    conflict and the path fill-in of `change` -/
theorem refresh_sites_scopes (site : Site) :
    site.scope.1 = [.loc, .rem] ∨ (∃ d, site = .splitDefer d ∧ site.scope = ([d], false)) ∨ (∃ d, site = .changeFill d ∧ site.scope = ([d], false)) := by
  cases site <;> simp [Site.scope]

theorem rename_conflict_refresh_is_full : Site.renameConflict.scope = ([.loc, .rem], false) := rfl

/-- the oracle of the part-1 table (Model/Engine.lean `handleRename`) that the refreshed entry at the target stands for -/
def tableOracle (o : Oracle) (wc : World) (cf : Option RE) : Oracle :=
  { o with rcEnt := cf.isSome,
           rcNeedsSync := match cf with
             | some k => !quiet (atSite wc k .renameConflict).1
             | none => false }

/-- REFINEMENT: `handleRenameR` (the entry at the target is a real entry, refreshed, then asked) takes the decisions of the part-1
    table `handleRename` whose oracle bits say "there is such an entry" and "after the refresh a side of it needs sync" -/
theorem handle_rename_refines_table (o : Oracle) (w wc : World) (me : RE) (cf : Option RE) (c : Sd) :
    (handleRenameR o w wc me cf c).out = (handleRename (tableOracle o wc cf) me.e c).out ∧
    (handleRenameR o w wc me cf c).effs = (handleRename (tableOracle o wc cf) me.e c).effs := by
  have htr : (tableOracle o wc cf).tr c.other = o.tr c.other := by cases c <;> rfl
  have hren : (tableOracle o wc cf).ren = o.ren := rfl
  unfold handleRenameR handleRename
  dsimp only
  rw [htr, hren]
  by_cases h1 : (o.tr c.other).eqSync (me.e.get c.other).p = true
  · simp only [h1, ↓reduceIte, Bool.false_eq_true, and_self]
  simp only [h1, ↓reduceIte, Bool.false_eq_true]
  by_cases h2 : (!((me.e.get c.other).h.sync || (me.e.get c.other).otype == OT.dir)) = true
  · simp only [h2, ↓reduceIte, Bool.false_eq_true, and_self]
  simp only [h2, ↓reduceIte, Bool.false_eq_true]
  by_cases h3 : (o.tr c.other).matchSync (me.e.get c.other).p = true
  · simp only [h3, ↓reduceIte, Bool.false_eq_true, and_self]
  simp only [h3, ↓reduceIte, Bool.false_eq_true]
  cases hr : o.ren with
  | exists_ =>
    dsimp only
    by_cases h4 : me.e.prio ≤ 0
    · simp only [h4, ↓reduceIte, Bool.false_eq_true, and_self]
    · simp only [h4, ↓reduceIte, Bool.false_eq_true]
      cases cf with
      | none =>
        by_cases h5 : o.fixFnf = true <;> simp [tableOracle, renameFix, h5]
      | some k =>
        by_cases h5 : quiet (atSite wc k Site.renameConflict).1 = true
        · by_cases h6 : o.rcDelExists = true <;> by_cases h7 : o.fixFnf = true <;> simp [tableOracle, renameFix, h5, h6, h7]
        · by_cases h7 : o.fixFnf = true <;> simp [tableOracle, renameFix, h5, h7]
  | ok => exact ⟨rfl, rfl⟩
  | fnf => exact ⟨rfl, rfl⟩
  | nameErr => exact ⟨rfl, rfl⟩
  | temp => exact ⟨rfl, rfl⟩

/-- in the part-1 table the delete of another entry's object sits in one branch only -/
theorem handleRename_deleteOther (o : Oracle) (e : Entry) (c s : Sd) (h : Eff.deleteOther s ∈ (handleRename o e c).effs) :
    o.ren = .exists_ ∧ 0 < e.prio ∧ o.rcEnt = true ∧ o.rcNeedsSync = false := by
  unfold handleRename at h
  dsimp only at h
  by_cases h1 : (o.tr c.other).eqSync (e.get c.other).p = true
  · simp [h1] at h
  simp only [h1, ↓reduceIte, Bool.false_eq_true] at h
  by_cases h2 : (!((e.get c.other).h.sync || (e.get c.other).otype == OT.dir)) = true
  · simp [h2] at h
  simp only [h2, ↓reduceIte, Bool.false_eq_true] at h
  by_cases h3 : (o.tr c.other).matchSync (e.get c.other).p = true
  · simp [h3] at h
  simp only [h3, ↓reduceIte, Bool.false_eq_true] at h
  cases hr : o.ren with
  | exists_ =>
    simp only [hr] at h
    by_cases h4 : e.prio ≤ 0
    · simp [h4] at h
    · simp only [h4, ↓reduceIte] at h
      by_cases h5 : (o.rcEnt && !o.rcNeedsSync) = true
      · simp only [Bool.and_eq_true, Bool.not_eq_true'] at h5
        exact ⟨rfl, by omega, h5.1, h5.2⟩
      · simp only [h5, ↓reduceIte, Bool.false_eq_true] at h
        unfold renameFix at h
        split_ifs at h <;> simp at h
  | ok => simp only [hr] at h; split_ifs at h <;> simp at h
  | fnf => simp [hr] at h
  | nameErr => simp [hr] at h
  | temp => simp [hr] at h

/-- SAFETY of the CloudFileExistsError branch of `handle_rename`: the provider delete of ANOTHER entry's object (manager.py 1317) is
    chosen only when there is an entry at the target, it was refreshed on BOTH sides (each mark at or after the newest stamp it
    carried) and, after that refresh, neither side needs sync — and only on a retry (priority > 0) -/
theorem rename_over_delete_only_after_full_refresh (o : Oracle) (w wc : World) (me : RE) (cf : Option RE) (c s : Sd)
    (h : Eff.deleteOther s ∈ (handleRenameR o w wc me cf c).effs) :
    ∃ k, cf = some k ∧ quiet (atSite wc k .renameConflict).1 = true ∧
      (∀ t, max k.chL k.chR ≤ (atSite wc k .renameConflict).1.lg t) ∧ 0 < me.e.prio ∧ o.ren = .exists_ := by
  rw [(handle_rename_refines_table o w wc me cf c).2] at h
  obtain ⟨h1, h2, h3, h4⟩ := handleRename_deleteOther _ _ _ _ h
  cases cf with
  | none => simp [tableOracle] at h3
  | some k =>
    refine ⟨k, rfl, ?_, fun t => full_refresh_marks_cover_stamps wc k false t, h2, h1⟩
    simpa [tableOracle] using h4

/-- … and what that refresh is worth (PARTIAL: the full statement "an object whose content the entry does not record is never deleted"
    is false on HEAD, see the two witnesses below).  If the entry at the target is not ignored, its synced side is identified and
    flag and stamp agree, SOME stamp of the entry is newer than that side's mark (an event was taken in since the side was last
    read), and the object now has another hash than the entry records, then the object is NOT deleted: the refresh re-reads the
    side, finds the hash, and the side needs sync. -/
theorem rename_over_spares_seen_edit_partial (o : Oracle) (w wc : World) (me k : RE) (c : Sd) (pa : Ans) (ot : OT)
    (hpre : Pre k c.other) (hp : wc.probe c.other = .present .newOther pa ot) (hf : k.lg c.other < max k.chL k.chR) :
    Eff.deleteOther c.other ∉ (handleRenameR o w wc me (some k) c).effs := by
  intro h
  obtain ⟨k', hk, hq, -⟩ := rename_over_delete_only_after_full_refresh o w wc me (some k) c c.other h
  cases hk
  have hd : Dirty ((atSite wc k .renameConflict).1.e.get c.other) := by
    show Dirty ((getLatest wc k [.loc, .rem] false).1.e.get c.other)
    rw [getLatest_eq]
    have hm : maxStamp k [.loc, .rem] = max k.chL k.chR := maxStamp_full k
    rw [hm]
    simp only [List.foldl]
    cases c with
    | rem =>
      -- the synced side is LOCAL: read first, REMOTE afterwards
      simp only [Sd.other] at hpre hp hf ⊢
      have h1 : Dirty ((glStep wc false (max k.chL k.chR) (k, []) .loc).1.e.get .loc) := by
        unfold glStep
        have hf' : (false || decide (max k.chL k.chR > (k, ([] : List Sd)).1.lg .loc)) = true := by simpa [RE.lg] using hf
        rw [if_pos hf']
        exact uncond_edit_dirty wc k .loc pa ot hpre hp
      generalize glStep wc false (max k.chL k.chR) (k, []) .loc = a at h1
      unfold glStep
      split_ifs
      · exact uncond_other_dirty wc a.1 .loc h1
      · exact h1
    | loc =>
      -- the synced side is REMOTE: LOCAL is read (or not) first
      simp only [Sd.other] at hpre hp hf ⊢
      have h1 : Pre (glStep wc false (max k.chL k.chR) (k, []) .loc).1 .rem ∧
          (glStep wc false (max k.chL k.chR) (k, []) .loc).1.lg .rem = k.lg .rem := by
        refine ⟨?_, ?_⟩
        · unfold glStep
          split_ifs
          · have := uncond_other_pre wc k .rem hpre
            exact this
          · exact hpre
        · rw [glStep_lg]; simp
      generalize glStep wc false (max k.chL k.chR) (k, []) .loc = a at h1
      unfold glStep
      have hf' : (false || decide (max k.chL k.chR > a.1.lg .rem)) = true := by rw [h1.2]; simpa [RE.lg] using hf
      rw [if_pos hf']
      exact uncond_edit_dirty wc a.1 .rem pa ot h1.1 hp
  have := hd.needsSync
  unfold quiet at hq
  cases c <;> simp only [Sd.other, Entry.get] at this <;> simp [this] at hq

/-! witnesses (kernel-checked): where the full statement fails on HEAD, and what the restricted scope would do -/

/-- LOCAL renamed a -> b (retry, priority 1.0), REMOTE answers CloudFileExistsError -/
def wRenOracle : Oracle := { Oracle.quiet with trR := .gt, ren := .exists_ }

def wRenMe : RE :=
  { e := { l := { wSynced with p := .ne, changed := true }, r := wSynced, lLeR := false, ign := .no, prio := 10 },
    chL := 5, chR := 0, lgL := 5, lgR := 5, clock := 1000 }

/-- the REMOTE object of the entry at the target has been edited (another hash), LOCAL is as recorded -/
def wEdited : World := ⟨.present .same .same .file, .present .newOther .same .file, false, false⟩

/-- an entry in sync that carries NO change stamp: no event about the edit has been taken in -/
def wTargetUnstamped : RE :=
  { e := { l := wSynced, r := wSynced, lLeR := true, ign := .no, prio := 0 }, chL := 0, chR := 0, lgL := 0, lgR := 0, clock := 1000 }

/-- COUNTEREXAMPLE 1 to "an object whose content the entry does not record is never deleted": without any change stamp `get_latest`
    re-reads nothing (`max(changed) = 0 > _last_gotten` is false), the entry still looks in sync, and the edited object is deleted -/
theorem rename_over_deletes_unseen_edit_when_unstamped :
    (handleRenameR wRenOracle wEdited wEdited wRenMe (some wTargetUnstamped) .loc).effs = [.rename .rem, .deleteOther .rem] ∧
    (handleRenameR wRenOracle wEdited wEdited wRenMe (some wTargetUnstamped) .loc).calls = [⟨.conflict, .renameConflict, []⟩] := by
  decide

/-- an entry ignored as CONFLICT whose LOCAL side carries a stamp newer than both marks; REMOTE (in sync, unflagged) has been edited -/
def wTargetIgnored : RE :=
  { e := { l := { wSynced with changed := true }, r := wSynced, lLeR := false, ign := .conflict, prio := 0 },
    chL := 7, chR := 0, lgL := 3, lgR := 3, clock := 1000 }

/-- COUNTEREXAMPLE 2: both sides ARE re-read and the new hash is recorded, but `unconditionally_get_latest` stamps a side only when the
    entry is not ignored (state.py 1412): the unflagged side does not need sync, and the edited object is deleted -/
theorem rename_over_deletes_edit_of_ignored_entry :
    (handleRenameR wRenOracle wEdited wEdited wRenMe (some wTargetIgnored) .loc).effs = [.rename .rem, .deleteOther .rem] ∧
    (handleRenameR wRenOracle wEdited wEdited wRenMe (some wTargetIgnored) .loc).calls = [⟨.conflict, .renameConflict, [.loc, .rem]⟩] ∧
    ((handleRenameR wRenOracle wEdited wEdited wRenMe (some wTargetIgnored) .loc).conflict.map (fun k => k.e.r.h)) = some .ne := by
  decide

/-- the entry of the OLD b after `delete b; rename a -> b` on a path-id side: LOCAL is a flagged tombstone whose id went to the renamed
    file, REMOTE is in sync and unflagged; the marks are older than LOCAL's stamp -/
def wTargetRenamedOver : RE :=
  { e := { l := { Side.blank with ex := .trashed, changed := true }, r := wSynced, lLeR := false, ign := .no, prio := 0 },
    chL := 5, chR := 0, lgL := 3, lgR := 3, clock := 1000 }

/-- what `conflict.get_latest(sides=(synced,))` would do (the reviewer-seeded regression): restricted to the unstamped synced side the
    refresh is blind and the entry looks in sync, the two-sided refresh of HEAD re-reads REMOTE, finds the edit, and the entry needs sync -/
theorem restricted_conflict_refresh_is_blind :
    quiet (getLatest wEdited wTargetRenamedOver [.rem] false).1 = true ∧ (getLatest wEdited wTargetRenamedOver [.rem] false).2 = [] ∧
    quiet (getLatest wEdited wTargetRenamedOver [.loc, .rem] false).1 = false ∧
    (handleRenameR wRenOracle wEdited wEdited wRenMe (some wTargetRenamedOver) .loc).effs = [.rename .rem, .conflictRename .rem, .conflictRename .rem] := by
  decide

/-! the one-sided sites -/

/-- `handle_split_conflict` refreshes the defer side only, and only by ITS stamp -/
theorem split_defer_reads_defer_side_only (w : World) (r : RE) (d : Sd) :
    (atSite w r (.splitDefer d)).2 = if fires false (r.ch d) (r.lg d) then [d] else [] :=
  getLatest_one_reread w r d false

/-- the path fill-in of `SyncState.change` does nothing for a side without a change stamp (whatever the other side's stamp says) -/
theorem change_fill_needs_stamp (w : World) (r : RE) (s : Sd) (h : r.ch s = 0) : atSite w r (.changeFill s) = (r, []) :=
  restricted_scope_is_blind w r s h

/-- what `sync` gets to see after `pre_sync`: both marks at or after the newest stamp -/
theorem pre_sync_refresh_covers_stamps (w : World) (r : RE) (t : Sd) : max r.chL r.chR ≤ (preSyncR w r).1.lg t :=
  full_refresh_marks_cover_stamps w r false t

end CS.Engine.Refresh


/-! ## 16. part 5 — root confinement: a peer that left the sync root is never written by id -/

namespace CS.Engine
open CS.Hints (Ex OT Ign)

/-- CONFINEMENT DECISION (manager.py 372-402).  Side `s`'s object is live (id, path, EXISTS) and its path no longer translates to the
    other side; the other side has an id and needs sync; the entry is not discarded.  Then `sync` — whatever the providers, the
    other entries and the transfer leaves answer — chooses NO provider action at all (no upload, rename, delete, conflict-rename,
    create, mkdir of either side's object): it splits the entry and returns False.  The entry afterwards is what `state.split`
    leaves (`splitEntry`): two unrelated objects. -/
theorem left_sync_peer_never_written (o : Oracle) (e : Entry) (s : Sd) (hl : leftSync o e s = true)
    (hn : (e.get s.other).needsSync = true) (hid : (e.get s.other).oid = true) (hd : e.ign.isDiscarded = false) :
    (sync o e).effs = [.split] ∧ (sync o e).done = .ok false ∧ splitEntry e = .ok (sync o e).ent ∧
      (sync o e).effs.all (fun f => !f.isWrite) = true := by
  have hs : (e.get s).oid = true := by
    unfold leftSync at hl
    simp only [Bool.and_eq_true] at hl
    exact hl.1.1.1
  have hu : unlinks o e = true := by
    unfold unlinks
    cases s
    · simp only [Sd.other, Entry.get] at hn hid hs
      simp [hd, hs, hid, hl, hn]
    · simp only [Sd.other, Entry.get] at hn hid hs
      simp [hd, hs, hid, hl, hn]
  obtain ⟨h1, h2, h3⟩ := sync_of_unlinks o e hu
  refine ⟨h1, h2, h3, ?_⟩
  rw [h1]; decide

/-- the same for one engine step (`_sync_one_entry`): the refresh, the split, nothing else; the step reports "nothing done" so the
    two entries are picked up again -/
theorem left_sync_peer_never_written_step (o : Oracle) (e : Entry) (s : Sd) (hl : leftSync o e s = true)
    (hn : (e.get s.other).needsSync = true) (hid : (e.get s.other).oid = true) (hd : e.ign.isDiscarded = false) :
    (syncOne o e).2.1 = [.getLatest, .split] ∧ (syncOne o e).1 = .done false := by
  obtain ⟨h1, h2, -, -⟩ := left_sync_peer_never_written o e s hl hn hid hd
  have hp : preSync o e = (false, [.getLatest], e) := by
    unfold preSync checkRevivify
    simp [hd]
  unfold syncOne
  rw [hp]
  simp only [h2, h1, List.singleton_append]
  exact ⟨trivial, trivial⟩

/-- … and the first step fires ONLY then: a split without a side that left the root while the other one has a change pending does
    not come from it -/
theorem unlink_only_if_left_and_pending (o : Oracle) (e : Entry) (h : unlinks o e = true) :
    e.ign.isDiscarded = false ∧ ∃ s, leftSync o e s = true ∧ (e.get s.other).needsSync = true ∧ (e.get s.other).oid = true := by
  unfold unlinks at h
  simp only [Bool.and_eq_true, Bool.or_eq_true, Bool.not_eq_true'] at h
  obtain ⟨⟨⟨h1, h2⟩, h3⟩, h4⟩ := h
  refine ⟨h3, ?_⟩
  rcases h4 with ⟨a, b⟩ | ⟨a, b⟩
  · exact ⟨.rem, a, b, h1⟩
  · exact ⟨.loc, a, b, h2⟩

/-- the entry of the C12 defect: LOCAL was edited (hash differs, flagged); REMOTE is alive but was moved out of the root — its new
    path is known, does not translate (`trL = none`) -/
def wLeftEntry : Entry :=
  { l := { wSynced with h := .ne, changed := true }, r := { wSynced with p := .ne }, lLeR := true, ign := .no, prio := 0 }

def wLeftOracle : Oracle := { Oracle.quiet with trL := .none, trR := .path }

/-- WITNESS of the defect the fix is for: the decision function BEFORE the fix (`syncPre`) downloads LOCAL and UPLOADS it by id
    into the REMOTE object that left the sync root; the fixed `sync` splits instead -/
theorem pre_fix_sync_writes_peer_that_left :
    leftSync wLeftOracle wLeftEntry .rem = true ∧ wLeftEntry.l.needsSync = true ∧
    Eff.upload .rem ∈ (syncPre wLeftOracle wLeftEntry).effs ∧
    (sync wLeftOracle wLeftEntry).effs = [.split] := by
  decide

end CS.Engine
