import Csverif.Props.C01
/-
C03 — one-sided changes mirror exactly, the origin is untouched, nothing echoes.
`oneSidedOk` (Model/Spec/Sync.lean) is the verdict the monitor (op `c03`) computes from the
snapshots and counters of a real one-sided run; these theorems spell the verdict out.
-/
namespace CS.Spec
set_option linter.unusedVariables false

/-- the verdict is exactly the conjunction of the five clauses of the property -/
theorem oneSidedOk_iff (ob oa ma : Tree) (n1 n2 : Nat) :
    oneSidedOk ob oa ma n1 n2 = true ↔
      ob.sameAs oa = true ∧                                                         -- origin untouched
      ma.sameAs oa = true ∧                                                         -- mirror = origin
      ((∀ e ∈ ma, isConflicted e.1 = false) ∧ (∀ e ∈ oa, isConflicted e.1 = false)) ∧  -- no artefacts
      n1 = 0 ∧                                                                      -- no engine write on the origin
      n2 = 0 := by                                                                  -- no write after quiet
  simp only [oneSidedOk, Bool.and_eq_true, Bool.not_eq_true', List.any_eq_false, beq_iff_eq,
    Bool.not_eq_true, and_assoc]

/-- the same with the two tree clauses read as equalities of lookups (well-formed snapshots) -/
theorem oneSidedOk_iff_get (ob oa ma : Tree) (n1 n2 : Nat) (hob : ob.WF) (hoa : oa.WF) (hma : ma.WF) :
    oneSidedOk ob oa ma n1 n2 = true ↔
      (∀ p, ob.get p = oa.get p) ∧
      (∀ p, ma.get p = oa.get p) ∧
      ((∀ e ∈ ma, isConflicted e.1 = false) ∧ (∀ e ∈ oa, isConflicted e.1 = false)) ∧
      n1 = 0 ∧ n2 = 0 := by
  rw [oneSidedOk_iff, sameAs_iff _ _ hob hoa, sameAs_iff _ _ hma hoa]

/-- soundness of the verdict needs no well-formedness -/
theorem oneSidedOk_sound (ob oa ma : Tree) (n1 n2 : Nat) (h : oneSidedOk ob oa ma n1 n2 = true) :
    (∀ p, ob.get p = oa.get p) ∧ (∀ p, ma.get p = oa.get p) ∧ n1 = 0 ∧ n2 = 0 := by
  rw [oneSidedOk_iff] at h
  exact ⟨sameAs_sound _ _ h.1, sameAs_sound _ _ h.2.1, h.2.2.2.1, h.2.2.2.2⟩

/-- C03's verdict implies C01's (no side condition) -/
theorem oneSided_implies_converged (ob oa ma : Tree) (n1 n2 : Nat)
    (h : oneSidedOk ob oa ma n1 n2 = true) : converged oa ma = true := by
  rw [oneSidedOk_iff] at h
  rw [converged_symm]
  exact sameAs_implies_converged _ _ h.2.1

/-- … and the origin after the run is converged with the origin before it -/
theorem oneSided_origin_converged (ob oa ma : Tree) (n1 n2 : Nat)
    (h : oneSidedOk ob oa ma n1 n2 = true) : converged ob oa = true := by
  rw [oneSidedOk_iff] at h
  exact sameAs_implies_converged _ _ h.1

/-- with the verdict, convergence is exact: the cores are the trees themselves -/
theorem oneSided_core_eq (ob oa ma : Tree) (n1 n2 : Nat) (h : oneSidedOk ob oa ma n1 n2 = true) :
    ma.core = ma ∧ oa.core = oa := by
  rw [oneSidedOk_iff] at h
  exact ⟨Tree.core_eq_self h.2.2.1.1, Tree.core_eq_self h.2.2.1.2⟩

/-- non-vacuity: an accepted run, and one rejection per clause -/
example :
    let o : Tree := [(["a"], .dir), (["a", "f"], .file 1)]
    let m : Tree := [(["a", "f"], .file 1), (["a"], .dir)]
    oneSidedOk o o m 0 0 = true ∧
    oneSidedOk o ((["g"], .file 2) :: o) m 0 0 = false ∧
    oneSidedOk o o [(["a"], .dir)] 0 0 = false ∧
    oneSidedOk o o m 1 0 = false ∧
    oneSidedOk o o m 0 2 = false ∧
    oneSidedOk ((["x.conflicted"], .file 3) :: o) ((["x.conflicted"], .file 3) :: o)
      ((["x.conflicted"], .file 3) :: m) 0 0 = false := by
  decide

end CS.Spec
