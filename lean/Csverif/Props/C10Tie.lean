import Csverif.Gen.ExcTable
/-
C10 — the tie between the source and the audited tables of Model/Spec/Faults.lean.
`Gen/ExcTable.lean` is regenerated from the source tree by tools/gen_exc_table.py on every run of the check; this
module is rebuilt then (it is deliberately NOT imported by Csverif.lean: a change of the source must break only this
obligation, not the build of the library).  If the class hierarchy of exceptions.py, the isinstance chain of
`notify_from_exception`, an except clause (its classes, their order) or a handler body (notify / punt / commit /
backoff / cursor reset / need_walk / need_auth, in order) of `_sync_one_entry`, `_validate_provider_roots`,
`EventManager.do` or `Runnable.run` changes, `decide` fails here and the check searches for a failing input.
-/
namespace CS.Faults
open CS.Gen

/-- the generated tables are exactly the audited ones the model and the theorems of Props/C10.lean use -/
theorem gen_table_eq_audited :
    ExcTable.hierarchy = auditedHierarchy ∧
    ExcTable.notifyChain = auditedNotifyChain ∧ ExcTable.notifyElseNotifies = false ∧
    ExcTable.syncHandlers = auditedSyncHandlers ∧ ExcTable.syncSuccessCommits = true ∧
    ExcTable.rootsHandlers = auditedRootsHandlers ∧
    ExcTable.eventHandlers = auditedEventHandlers ∧
    ExcTable.loopHandlers = auditedLoopHandlers ∧
    ExcTable.changeGuarded = auditedChangeGuarded ∧
    ExcTable.unmapped = 0 := by decide

end CS.Faults
