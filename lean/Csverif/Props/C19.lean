import Csverif.Proofs.HCache.RefineAll
/-
C19 — the hierarchical path/id cache stays coherent under any operation sequence.
Model: Model/HCache.lean (heap of nodes + separate id map, branch by branch from
cloudsync/hierarchical_cache.py).  Helper lemmas: Proofs/HCache/*.lean.

`Coherent` (Proofs/HCache/Tree.lean) is the invariant: the part of the heap reachable from the root
is a tree (every child link carries the matching parent link; child key = child name = a normalised
path component; files have no children), the id map contains exactly the reachable nodes that have a
(truthy) id, each under its own id, hence no id is held by two nodes.

Status of the design's statements
* proved as stated: `coherent_initial`, `coherent_tree`, `coherent_acyclic`, `no_id_held_twice`,
  `id_map_exact`, `get_path_get_oid_inverse`, `get_oid_get_path_inverse`, `delete_preserves` (every
  `delete`, no guard), `delete_terminates`, `delete_forgets_descendants`, `replace_forgets_descendants`,
  `rename_moves_subtree`, `weak_refs_alive`, `no_budget_exhaustion`.
* `every operation preserves Coherent` is FALSE of the code as it is (witnesses at the end of the
  file); proved under the explicit guard `opSafe` (= `OpGuard`, `opSafe_iff`) as
  `coherent_step_partial`, `coherent_run_from`, `coherent_run_partial` (induction over the operation
  sequence, no bound on its length), for *all* public operations (mkdir, create, delete, rename,
  set_oid, update) and both case modes.  The guard only excludes caller misuse: the target path of an
  id-assigning operation / of a rename is not the root, and the id being assigned is not the root's
  own id.  Its complement is refuted by two kernel-checked witnesses (`…_witness`, `…_incoherent`),
  each replayed on the real code on every run (known findings).
* repaired (fix `evict before resolving the parent` in `__insert_node` / `_set_oid`): an id held by an
  ancestor of the target used to leave an unreachable node in the id map; the two former witnesses
  are now instances of the theorem (`insert_under_ancestor_repaired`, `set_oid_ancestor_repaired`)
  and their replays are `fixed:` entries re-checked on every run.
* refinement to the plain dictionary specification `path ↦ (type, id?)` (Model/HDict.lean), for *every*
  public operation: `hcache_refines_dict_step`, `hcache_refines_dict_from`, `hcache_refines_dict`,
  `lookups_agree_with_dictionary` (get_oid / get_type / get_path / listdir-as-a-set), under the guard
  plus `opOidOk` (ids given to mkdir/create/update are None or truthy).
-/
namespace CS.HCache
open CS.Path CS.HDict

/-! ### the invariant in the property's own words -/

/-- the initial cache is coherent -/
theorem coherent_initial (c : Cfg) (r : Oid) (hr : r ≠ 0) : Coherent c (init r) := coherent_init c r hr

/-- the reachable part is a tree: every reachable node is reached along exactly one key path … -/
theorem coherent_tree {c : Cfg} {s : HC} (hc : Coherent c s) {q1 q2 : List Str} {n : Nat}
    (h1 : res s q1 = some n) (h2 : res s q2 = some n) : q1 = q2 := hc.res_inj h1 h2

/-- … and there are no cycles: following the parent links from any reachable node ends at the root
    (`full_path()` succeeds, without running out of recursion budget, and is the canonical path of
    the node's keys); a resolving key path is shorter than the heap -/
theorem coherent_acyclic {c : Cfg} (g : CfgGood c) {s : HC} (hc : Coherent c s) {ks : List Str} {n : Nat}
    (h : res s ks = some n) : fullPath c s n = .ok (some (canon c.sep ks)) ∧ ks.length < s.heap.length :=
  ⟨hc.fullPath g h, hc.depth_lt h⟩

/-- no id is held by two nodes -/
theorem no_id_held_twice {c : Cfg} {s : HC} (hc : Coherent c s) {n m : Nat} {o : Oid} (hn : Reach s n) (hm : Reach s m)
    (h1 : (s.nd n).oid = some o) (h2 : (s.nd m).oid = some o) (ho : o ≠ 0) : n = m :=
  hc.oid_unique hn hm h1 h2 ho

/-- the id map contains exactly the reachable nodes that have an id -/
theorem id_map_exact {c : Cfg} {s : HC} (hc : Coherent c s) (o : Oid) (n : Nat) :
    dget s.idmap o = some n ↔ (Reach s n ∧ (s.nd n).oid = some o ∧ o ≠ 0) := hc.dget_idmap

/-- the strong-index model of the weak parent reference is exact in coherent caches: every node
    reachable from the root or the id map has a reachable parent (so its parent object is alive) -/
theorem weak_refs_alive {c : Cfg} {s : HC} (hc : Coherent c s) {n : Nat}
    (h : Reach s n ∨ ∃ o, dget s.idmap o = some n) :
    n = 0 ∨ ∃ p, (s.nd n).parent = some p ∧ Reach s p := by
  have hr : Reach s n := h.elim id (fun ⟨o, ho⟩ => (hc.dget_idmap.1 ho).1)
  obtain ⟨q, hq⟩ := hr
  rcases List.eq_nil_or_concat q with rfl | ⟨i, k, rfl⟩
  · left; simpa using hq.symm
  · rw [List.concat_eq_append] at hq
    obtain ⟨p, hp, hk⟩ := res_snoc_some hq
    exact Or.inr ⟨p, (hc.link ⟨i, hp⟩ (dget_mem hk)).2.1, ⟨i, hp⟩⟩

/-! ### `get_path` / `get_oid` are inverse on cached ids -/

/-- every cached id resolves to a path that resolves back to the same id -/
theorem get_path_get_oid_inverse {c : Cfg} (g : CfgGood c) {s : HC} (hc : Coherent c s) {o : Oid} {n : Nat}
    (h : dget s.idmap o = some n) :
    ∃ p, getPath c s o = .ok (some p) ∧ getOid c s p = .ok (some o) := by
  obtain ⟨⟨ks, hks⟩, ho, _⟩ := hc.dget_idmap.1 h
  refine ⟨canon c.sep ks, ?_, ?_⟩
  · simp only [getPath, h]; exact hc.fullPath g hks
  · simp only [getOid, getNode_canon g s (hc.ksOk hks), hks, ho]

/-- every path holding a (truthy) id is the path that id resolves to -/
theorem get_oid_get_path_inverse {c : Cfg} (g : CfgGood c) {s : HC} (hc : Coherent c s) {p : Str} {o : Oid}
    (h : getOid c s p = .ok (some o)) (h0 : o ≠ 0) : getPath c s o = .ok (some (normalizePath c p false)) := by
  simp only [getOid, getNode_path g] at h
  cases hr : res s (tcomps c p) with
  | none => rw [hr] at h; simp at h
  | some n =>
    rw [hr] at h
    simp only [Except.ok.injEq] at h
    have := hc.dget_idmap.2 ⟨⟨_, hr⟩, h, h0⟩
    simp only [getPath, this, normalizePath_tcomps g]
    exact hc.fullPath g hr

/-! ### every operation preserves the invariant, hence every operation sequence -/

/-- `delete` (by id or by path, any target, the root included) preserves coherence: no guard -/
theorem delete_preserves {c : Cfg} (g : CfgGood c) {s : HC} (hc : Coherent c s) (oid : Option Oid) (path : Option Str) :
    Coherent c (step c s (.delete oid path)).1 := delete_coherent g hc oid path

/- FULL STATEMENT (false of the code as it is, see the witnesses at the end of this file):
   theorem coherent_step (g : CfgGood c) (hc : Coherent c s) (op : Op) : Coherent c (step c s op).1 -/

/-- every public operation preserves coherence whenever the (executable) guard holds in the
    pre-state: target path ≠ root, id being assigned ≠ the root's id -/
theorem coherent_step_partial {c : Cfg} (g : CfgGood c) {s : HC} (hc : Coherent c s) (op : Op)
    (hg : opSafe c s op = true) : Coherent c (step c s op).1 :=
  step_coherent g hc op ((opSafe_iff g s op).1 hg)

/-- an operation sequence every operation of which satisfies the guard in the state it runs in -/
def Guarded (c : Cfg) : HC → List Op → Prop
  | _, [] => True
  | s, op :: ops => opSafe c s op = true ∧ Guarded c (step c s op).1 ops

def Guarded.dec (c : Cfg) : (s : HC) → (ops : List Op) → Decidable (Guarded c s ops)
  | _, [] => isTrue trivial
  | s, op :: ops => by
    unfold Guarded
    exact @instDecidableAnd _ _ _ (Guarded.dec c _ ops)

instance (c : Cfg) (s : HC) (ops : List Op) : Decidable (Guarded c s ops) := Guarded.dec c s ops

/-- coherence for every guarded operation sequence, from any coherent state (induction on the sequence) -/
theorem coherent_run_from {c : Cfg} (g : CfgGood c) : ∀ (ops : List Op) (s : HC), Coherent c s → Guarded c s ops →
    Coherent c (run c s ops) := by
  intro ops
  induction ops with
  | nil => intro s hc _; exact hc
  | cons op ops ih =>
    intro s hc hg
    exact ih _ (coherent_step_partial g hc op hg.1) hg.2

/-- **the cache is coherent after every guarded operation sequence of any length** -/
theorem coherent_run_partial {c : Cfg} (g : CfgGood c) (r : Oid) (hr : r ≠ 0) (ops : List Op)
    (hg : Guarded c (init r) ops) : Coherent c (run c (init r) ops) :=
  coherent_run_from g ops _ (coherent_initial c r hr) hg

/-! ### deleting a folder forgets all its descendants' ids -/

/-- After a successful `delete` whose target is the non-root node at `kx`: the cache is coherent, no
    path at or below `kx` resolves any more, every id that was held at or below `kx` is forgotten
    (`get_path` answers None, lookups by that id find nothing), and everything else is untouched. -/
theorem delete_forgets_descendants {c : Cfg} (g : CfgGood c) {s : HC} (hc : Coherent c s) {kx : List Str} {x : Nat}
    (hx : res s kx = some x) (hne : kx ≠ []) (oid : Option Oid) (path : Option Str)
    (hlook : getNode c s oid path = .ok (some x)) (hok : (delete c oid path s).2 = .ok ()) :
    Coherent c (delete c oid path s).1 ∧
    (∀ q, kx <+: q → res (delete c oid path s).1 q = none) ∧
    (∀ q, ¬ kx <+: q → res (delete c oid path s).1 q = res s q) ∧
    (∀ q m o, kx <+: q → res s q = some m → (s.nd m).oid = some o → o ≠ 0 →
      getPath c (delete c oid path s).1 o = .ok none ∧ getNode c (delete c oid path s).1 (some o) none = .ok none) := by
  obtain ⟨dp, e2, _, _⟩ := delete_spec g s oid path hc
  have hx0 : x ≠ 0 := by
    intro e; subst e; exact hne (hc.res_root hx)
  obtain ⟨hout, hgone, _⟩ := e2 x kx hlook hx
  have hgone' := hgone hok hx0
  refine ⟨dp.coh, hgone', hout, fun q m o hq hm ho h0 => ?_⟩
  have hnone : dget (delete c oid path s).1.idmap o = none := by
    cases hg : dget (delete c oid path s).1.idmap o with
    | none => rfl
    | some m' =>
      exfalso
      have h' := dp.coh.dget_idmap.1 hg
      have hm0 : Reach s m' := dp.reach h'.1
      have ho0 : (s.nd m').oid = some o := by rw [← (dp.fields m').2.1]; exact h'.2.1
      have := hc.oid_unique hm0 ⟨q, hm⟩ ho0 ho h0
      subst this
      obtain ⟨q', hq'⟩ := h'.1
      rcases dp.shrink q' with a | a
      · rw [a] at hq'; simp at hq'
      · rw [a] at hq'
        have := hc.res_inj hq' hm
        subst this
        rw [hgone' q' hq] at a
        rw [hm] at a; simp at a
  refine ⟨by simp only [getPath, hnone], ?_⟩
  have hroot : some o ≠ (delete c oid path s).1.rootOid := by
    intro e
    have hr0 : ((delete c oid path s).1.nd 0).oid = (s.nd 0).oid := (dp.fields 0).2.1
    simp only [HC.rootOid, hr0] at e
    have := hc.oid_unique (Reach.root s) ⟨q, hm⟩ e.symm ho h0
    subst this
    have hq0 := hc.res_root hm
    subst hq0
    exact hne (List.prefix_nil.1 hq)
  simp only [getNode, hroot, if_false, hnone]

/-- **replacing a folder forgets all its descendants' ids**: `set_oid(path, o, …)` on a node that
    already has another id replaces the node (hierarchical_cache.py:433); the replacement holds the
    new id, keeps the type, has no children, and every id that was held below `path` is forgotten
    (unless it is the new id itself, which now belongs to the replacement) -/
theorem replace_forgets_descendants {c : Cfg} (g : CfgGood c) {s : HC} (hc : Coherent c s) (p : Str) (o o1 : Oid)
    (t : OType) {n : Nat} (hn : res s (tcomps c p) = some n) (ho1 : (s.nd n).oid = some o1) (hne : o1 ≠ o) (h0 : o ≠ 0)
    (hg : opSafe c s (.setOid p (some o) t) = true) (hok : (setOid c p (some o) t s).2 = .ok ()) :
    Coherent c (setOid c p (some o) t s).1 ∧
    getOid c (setOid c p (some o) t s).1 p = .ok (some o) ∧
    (∀ r, r ≠ [] → res (setOid c p (some o) t s).1 (tcomps c p ++ r) = none) ∧
    (∀ r m om, r ≠ [] → res s (tcomps c p ++ r) = some m → (s.nd m).oid = some om → om ≠ 0 → om ≠ o →
      getPath c (setOid c p (some o) t s).1 om = .ok none) := by
  have hg' : InsGuard c s p (some o) := (opSafe_iff g s (.setOid p (some o) t)).1 hg
  obtain ⟨a1, ⟨i, a2, a3, _⟩, a4, a5⟩ := setOid_replace g hc p o o1 t hn ho1 hne h0 hg' _ rfl hok
  refine ⟨a1, ?_, a4, fun r m om hr hm hom hom0 homo => ?_⟩
  · simp only [getOid, getNode_path g, a2, a3]
  · simp only [getPath, a5 r m om hr hm hom hom0 homo]

/-- termination of the recursive `delete`: in a coherent cache it always returns normally (the model's
    recursion budget, heap size + 1, is never exhausted), for every target -/
theorem delete_terminates {c : Cfg} (g : CfgGood c) {s : HC} (hc : Coherent c s) (oid : Option Oid) (path : Option Str)
    (harg : oid.isSome ∨ path.isSome) : (delete c oid path s).2 = .ok () := delete_total g hc oid path harg

/-- the model's recursion budgets (an artefact of writing Python's recursion as total functions) are
    never exhausted by a guarded operation on a coherent cache: no operation ends in the model-only
    outcome `fuel`; together with `coherent_acyclic` (no `RecursionError` from `full_path`) the
    bounded recursions of the model coincide with Python's unbounded ones -/
theorem no_budget_exhaustion {c : Cfg} (g : CfgGood c) {s : HC} (hc : Coherent c s) (op : Op)
    (hg : opSafe c s op = true) : (step c s op).2 ≠ .error .fuel :=
  step_ne_fuel g hc op ((opSafe_iff g s op).1 hg)

/-! ### renaming moves the whole subtree -/

/-- After a successful `rename(old, new)` of the non-root node at `old` to a non-root `new`: the cache
    is coherent; whatever resolved at `old ++ r` now resolves at `new ++ r` (the node itself and every
    descendant); no moved node changed its id; and `get_path` of every moved id answers the new path. -/
theorem rename_moves_subtree {c : Cfg} (g : CfgGood c) {s : HC} (hc : Coherent c s) (old new : Str)
    (hg : tcomps c new ≠ []) {n : Nat} (hn : res s (tcomps c old) = some n) (hn0 : n ≠ 0)
    (hok : (rename c old new s).2 = .ok ()) :
    Coherent c (rename c old new s).1 ∧
    (∀ r, res (rename c old new s).1 (tcomps c new ++ r) = res s (tcomps c old ++ r)) ∧
    (∀ r m, res s (tcomps c old ++ r) = some m → ((rename c old new s).1.nd m).oid = (s.nd m).oid) ∧
    (∀ r m o, res s (tcomps c old ++ r) = some m → (s.nd m).oid = some o → o ≠ 0 →
      getPath c (rename c old new s).1 o = .ok (some (canon c.sep (tcomps c new ++ r)))) := by
  have hcoh := rename_coherent g hc old new hg
  have hroot : (s.nd n).isRoot = false := by
    obtain ⟨init, a, hk⟩ := snoc_of_ne_nil (l := tcomps c old) (by
      intro e; rw [e] at hn; simp at hn; exact hn0 hn.symm)
    rw [hk] at hn
    obtain ⟨p, hp, hkk⟩ := res_snoc_some hn
    exact (hc.link ⟨_, hp⟩ (dget_mem hkk)).2.2.2.1
  obtain ⟨a1, a2, a3⟩ := rename_moves g hc old new hg hn hroot _ rfl hok
  have hmove : ∀ r, res (rename c old new s).1 (tcomps c new ++ r) = res s (tcomps c old ++ r) := by
    intro r
    unfold res
    rw [resFrom_append, resFrom_append]
    have h1 : resFrom (rename c old new s).1 0 (tcomps c new) = some n := a1
    have h2 : resFrom s 0 (tcomps c old) = some n := hn
    rw [h1, h2]
    exact a2 r
  have hsubm : ∀ r m, res s (tcomps c old ++ r) = some m → InSub s n m := by
    intro r m hm
    obtain ⟨x, hx, hr⟩ := res_prefix hm
    rw [hn] at hx; cases hx
    exact ⟨r, hr⟩
  refine ⟨hcoh, hmove, fun r m hm => a3 m (hsubm r m hm), fun r m o hm ho h0 => ?_⟩
  have hm' : res (rename c old new s).1 (tcomps c new ++ r) = some m := by rw [hmove]; exact hm
  have ho' : ((rename c old new s).1.nd m).oid = some o := by rw [a3 m (hsubm r m hm)]; exact ho
  have := hcoh.dget_idmap.2 ⟨⟨_, hm'⟩, ho', h0⟩
  simp only [getPath, this]
  exact hcoh.fullPath g hm'

/-- both mock-provider configurations satisfy the configuration guard -/
theorem mock_cfg_good (cs : Bool) : CfgGood (mkCfg cs false) := mkCfg_good cs

/-! ### refinement to the plain dictionary specification (Model/HDict.lean)

`Abs s d` : the dictionary `d` answers every key path as the cache does (`dlook d = view s`, where
`view s q` is the `(type, id?)` of the node reachable from the root along the keys `q`).
The guard of the refinement is the guard of the coherence theorem plus: ids passed to
mkdir/create/update are None or truthy (`opOidOk`; `set_oid` asserts it, the empty-string id is the one
value the cache itself treats inconsistently). -/

/-- **one step**: a guarded operation on a coherent cache has the specified outcome (ok, or the
    ValueError / AssertionError of the argument checks) and re-establishes the abstraction relation -/
theorem hcache_refines_dict_step {c : Cfg} (g : CfgGood c) {s : HC} {d : D} (hc : Coherent c s) (habs : Abs s d)
    (hnf : NoFalsyV (view s)) (op : Op) (hg : opSafe c s op = true) (ho : opOidOk op = true) :
    ResAgree (step c s op).2 (specStep c d op).2 ∧ Abs (step c s op).1 (specStep c d op).1 ∧
      Coherent c (step c s op).1 ∧ NoFalsyV (view (step c s op).1) :=
  refine_step g hc habs hnf op ((opSafe_iff g s op).1 hg) ((opOidOk_iff op).1 ho)

/-- a sequence every operation of which satisfies both guards in the state it runs in -/
def GuardedR (c : Cfg) : HC → List Op → Prop
  | _, [] => True
  | s, op :: ops => opSafe c s op = true ∧ opOidOk op = true ∧ GuardedR c (step c s op).1 ops

def GuardedR.dec (c : Cfg) : (s : HC) → (ops : List Op) → Decidable (GuardedR c s ops)
  | _, [] => isTrue trivial
  | s, op :: ops => by
    unfold GuardedR
    exact @instDecidableAnd _ _ _ (@instDecidableAnd _ _ _ (GuardedR.dec c _ ops))

instance (c : Cfg) (s : HC) (ops : List Op) : Decidable (GuardedR c s ops) := GuardedR.dec c s ops

/-- the outcomes of the operations of a run, on the cache and on the dictionary -/
def runResults (c : Cfg) : HC → List Op → List (Except Err Unit)
  | _, [] => []
  | s, op :: ops => (step c s op).2 :: runResults c (step c s op).1 ops

def specResults (c : Cfg) : D → List Op → List SRes
  | _, [] => []
  | d, op :: ops => (specStep c d op).2 :: specResults c (specStep c d op).1 ops

/-- the two outcome lists agree position by position -/
def AllAgree : List (Except Err Unit) → List SRes → Prop
  | [], [] => True
  | r :: rs, x :: xs => ResAgree r x ∧ AllAgree rs xs
  | _, _ => False

theorem hcache_refines_dict_from {c : Cfg} (g : CfgGood c) : ∀ (ops : List Op) (s : HC) (d : D),
    Coherent c s → Abs s d → NoFalsyV (view s) → GuardedR c s ops →
    Coherent c (run c s ops) ∧ Abs (run c s ops) (specRun c d ops) ∧ NoFalsyV (view (run c s ops)) ∧
      AllAgree (runResults c s ops) (specResults c d ops) := by
  intro ops
  induction ops with
  | nil => intro s d hc ha hn _; exact ⟨hc, ha, hn, trivial⟩
  | cons op ops ih =>
    intro s d hc ha hn hg
    obtain ⟨r1, r2, r3, r4⟩ := hcache_refines_dict_step g hc ha hn op hg.1 hg.2.1
    obtain ⟨a1, a2, a3, a4⟩ := ih _ _ r3 r2 r4 hg.2.2
    exact ⟨a1, a2, a3, r1, a4⟩

/-- **`hcache_refines_dict`**: after every guarded operation sequence (any length) the cache is abstracted
    by the dictionary obtained by running the specification on the same sequence, and every operation
    had the specified outcome -/
theorem hcache_refines_dict {c : Cfg} (g : CfgGood c) (r : Oid) (hr : r ≠ 0) (ops : List Op)
    (hg : GuardedR c (init r) ops) :
    Abs (run c (init r) ops) (specRun c (HDict.init r) ops) ∧
      AllAgree (runResults c (init r) ops) (specResults c (HDict.init r) ops) := by
  obtain ⟨_, a2, _, a4⟩ := hcache_refines_dict_from g ops _ _ (coherent_initial c r hr) (abs_init r) (noFalsy_init r hr) hg
  exact ⟨a2, a4⟩

/-- **lookups agree with a plain dictionary model of what was inserted and not since invalidated** (the last
    clause of the property): `get_oid`, `get_type`, `get_path` and `listdir` (as a set) of the cache after a
    guarded sequence are those of the dictionary specification run on the same sequence -/
theorem lookups_agree_with_dictionary {c : Cfg} (g : CfgGood c) (r : Oid) (hr : r ≠ 0) (ops : List Op)
    (hg : GuardedR c (init r) ops) :
    (∀ p, getOid c (run c (init r) ops) p = .ok (getOidD c (specRun c (HDict.init r) ops) p)) ∧
    (∀ p, getType c (run c (init r) ops) none (some p) = .ok (getTypeD c (specRun c (HDict.init r) ops) p)) ∧
    (∀ o, getPath c (run c (init r) ops) o = .ok ((getPathD (specRun c (HDict.init r) ops) o).map (canon c.sep))) ∧
    (∀ p, ∃ l, listdir c (run c (init r) ops) none (some p) = .ok l ∧
      ∀ a, a ∈ l ↔ hasChildD (specRun c (HDict.init r) ops) (pcomps c p) a = true) := by
  obtain ⟨hc, ha, hn, _⟩ := hcache_refines_dict_from g ops _ _ (coherent_initial c r hr) (abs_init r) (noFalsy_init r hr) hg
  exact ⟨fun p => getOid_refines g ha p, fun p => getType_refines g ha p, fun o => getPath_refines g hc ha hn o,
    fun p => listdir_refines g hc ha p⟩

/-! ### the guard's complement: kernel-checked witnesses (replayed on the real code on every run)

Each witness runs the model on a concrete sequence from the initial cache (root id 9, case-sensitive
mock configuration), shows that the last operation violates the guard, and that the resulting cache
is not coherent because of an observable breach: a cached id whose `get_path` is None, resp. a cached
id whose path does not resolve back to it. -/

def c0 : Cfg := mkCfg true false

theorem c0_good : CfgGood c0 := mkCfg_good true

def isOkNone {α} : Except Err (Option α) → Bool
  | .ok none => true
  | _ => false

def isOkSome {α} : Except Err (Option α) → Bool
  | .ok (some _) => true
  | _ => false

/-- in a coherent cache `get_path` of a cached id is never None -/
theorem get_path_of_cached_id {c : Cfg} (g : CfgGood c) {s : HC} (hc : Coherent c s) (o : Oid)
    (h : isOkSome (getType c s (some o) none) = true) (hroot : some o ≠ s.rootOid) : isOkNone (getPath c s o) = false := by
  simp only [getType, getNode, hroot, if_false] at h
  cases hd : dget s.idmap o with
  | none => rw [hd] at h; simp [isOkSome] at h
  | some n =>
    obtain ⟨p, hp, _⟩ := get_path_get_oid_inverse g hc hd
    rw [hp]; rfl

def okEq (a : Except Err (Option Str)) (b : Str) : Bool :=
  match a with
  | .ok (some x) => x == b
  | _ => false

def okOid (a : Except Err (Option Oid)) (b : Oid) : Bool :=
  match a with
  | .ok (some x) => x == b
  | _ => false

def w_insert_under_ancestor : List Op :=
  [.mkdir "/a".toList (some 1), .mkdir "/a/b".toList (some 2), .create "/a/b/a".toList (some 1)]

/-- `mkdir('/a','1'); mkdir('/a/b','2'); create('/a/b/a','1')` (the id is held by the ancestor `/a`):
    before the repair the id map kept an unreachable node; now the sequence is inside the guard, the
    result is coherent, and id 1 resolves to the new file and back -/
theorem insert_under_ancestor_repaired :
    Coherent c0 (run c0 (init 9) w_insert_under_ancestor) ∧
    okEq (getPath c0 (run c0 (init 9) w_insert_under_ancestor) 1) "/a/b/a".toList = true ∧
    okOid (getOid c0 (run c0 (init 9) w_insert_under_ancestor) "/a/b/a".toList) 1 = true :=
  ⟨coherent_run_partial c0_good 9 (by decide) _ (by decide +kernel), by decide +kernel, by decide +kernel⟩

def w_set_oid_ancestor : List Op :=
  [.mkdir "/a".toList (some 1), .mkdir "/a/b".toList none, .setOid "/a/b".toList (some 1) .dir]

/-- `mkdir('/a','1'); mkdir('/a/b',None); set_oid('/a/b','1',DIRECTORY)`: repaired likewise -/
theorem set_oid_ancestor_repaired :
    Coherent c0 (run c0 (init 9) w_set_oid_ancestor) ∧
    okEq (getPath c0 (run c0 (init 9) w_set_oid_ancestor) 1) "/a/b".toList = true ∧
    okOid (getOid c0 (run c0 (init 9) w_set_oid_ancestor) "/a/b".toList) 1 = true :=
  ⟨coherent_run_partial c0_good 9 (by decide) _ (by decide +kernel), by decide +kernel, by decide +kernel⟩

def w_root_id : List Op :=
  [.mkdir "/a".toList (some 1), .create "/a/b".toList (some 9)]

theorem okOid_ok {a : Except Err (Option Oid)} {b : Oid} (h : okOid a b = true) : a = .ok (some b) := by
  cases a with
  | error e => simp [okOid] at h
  | ok v =>
    cases v with
    | none => simp [okOid] at h
    | some x => simp only [okOid, beq_iff_eq] at h; rw [h]

theorem okEq_ok {a : Except Err (Option Str)} {b : Str} (h : okEq a b = true) : a = .ok (some b) := by
  cases a with
  | error e => simp [okEq] at h
  | ok v =>
    cases v with
    | none => simp [okEq] at h
    | some x => simp only [okEq, beq_iff_eq] at h; rw [h]

/-- `mkdir('/a','1'); create('/a/b', <root id>)`: the operation is outside the guard; it empties the
    cache, re-creates `/a`, links the new node and then fails (the eviction of "the previous owner" of
    the root's id recurses through the root for ever: RecursionError), leaving two reachable nodes
    with the root's id: `get_oid('/a/b')` is the root's id, while `get_path(root id)` is '/' -/
theorem root_id_reused_witness :
    opSafe c0 (run c0 (init 9) (w_root_id.take 1)) (.create "/a/b".toList (some 9)) = false ∧
    okOid (getOid c0 (run c0 (init 9) w_root_id) "/a/b".toList) 9 = true ∧
    okEq (getPath c0 (run c0 (init 9) w_root_id) 9) "/".toList = true := by
  decide +kernel

theorem root_id_reused_incoherent : ¬ Coherent c0 (run c0 (init 9) w_root_id) := by
  intro hc
  have h1 := okOid_ok root_id_reused_witness.2.1
  have h2 := okEq_ok root_id_reused_witness.2.2
  have h3 := get_oid_get_path_inverse c0_good hc h1 (by decide)
  rw [h2] at h3
  have : ("/".toList : Str) = normalizePath c0 "/a/b".toList false := by
    simpa using h3
  exact absurd this (by decide +kernel)

def w_root_path : List Op :=
  [.mkdir "/a".toList (some 1), .create "/".toList (some 2)]

/-- `mkdir('/a','1'); create('/','2')`: the cache is emptied and a child named '' appears under the
    root: `get_path(2)` is '/', but `get_oid('/')` is the root's id -/
theorem root_path_target_witness :
    opSafe c0 (run c0 (init 9) (w_root_path.take 1)) (.create "/".toList (some 2)) = false ∧
    okEq (getPath c0 (run c0 (init 9) w_root_path) 2) "/".toList = true ∧
    okOid (getOid c0 (run c0 (init 9) w_root_path) "/".toList) 9 = true ∧
    isOkNone (getOid c0 (run c0 (init 9) w_root_path) "/a".toList) = true := by
  decide +kernel

theorem root_path_target_incoherent : ¬ Coherent c0 (run c0 (init 9) w_root_path) := by
  intro hc
  have h2 : isOkSome (getType c0 (run c0 (init 9) w_root_path) (some 2) none) = true := by decide +kernel
  have hroot : some 2 ≠ (run c0 (init 9) w_root_path).rootOid := by decide +kernel
  simp only [getType, getNode, hroot, if_false] at h2
  cases hd : dget (run c0 (init 9) w_root_path).idmap 2 with
  | none => rw [hd] at h2; simp [isOkSome] at h2
  | some n =>
    obtain ⟨p, hp, hback⟩ := get_path_get_oid_inverse c0_good hc hd
    have hw := root_path_target_witness
    rw [hp] at hw
    have hpe : p = "/".toList := by
      have := hw.2.1
      simp only [okEq, beq_iff_eq] at this
      exact this
    subst hpe
    rw [hback] at hw
    have := hw.2.2.1
    simp [okOid] at this

/-- non-vacuity: a guarded sequence (with auto-created parents, a type change, an id move and a
    rename of a folder with a child) whose guard holds at every step, on both mock configurations;
    the theorem then gives coherence of the result -/
def exampleOps : List Op :=
  [.mkdir "/a/b".toList (some 1), .create "/a/b/A".toList (some 2), .update "/a".toList .dir (some 3),
   .setOid "/b".toList (some 2) .file, .rename "/a/b".toList "/A/b".toList, .delete (some 3) none]

example : Guarded (mkCfg true false) (init 9) exampleOps ∧ Guarded (mkCfg false false) (init 9) exampleOps := by
  decide +kernel

example : Coherent (mkCfg false false) (run (mkCfg false false) (init 9) exampleOps) :=
  coherent_run_partial (mkCfg_good false) 9 (by decide) exampleOps (by decide +kernel)

example : GuardedR (mkCfg true false) (init 9) exampleOps ∧ GuardedR (mkCfg false false) (init 9) exampleOps := by
  decide +kernel

end CS.HCache
