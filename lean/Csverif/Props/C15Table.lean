import Csverif.Gen.LockSites
import Csverif.Props.C15
/-
C15, Part B — the generated lock-site table (Gen/LockSites.lean, regenerated from the repo under test by
tools/gen_lock_sites.py on every run of the check) equals the audited table, in which every (entry point, function that
mutates sync state) pair is marked "reached only under `with …state.lock`" or "reached on some path without it".
Kept apart from Props/C15.lean so that a change of the repo rebuilds only this file.
-/
namespace CS.Lock

/-! ## Part B — the lock-site table -/

open CS.Lock.Gen

def entryPoints : List String := lockTable.map (·.1)

/-- functions (containing a statement that mutates sync state) reached while applying one event -/
def eventFns : List String :=
  ["SideState._set_exists", "SideState._set_mtime", "SideState.uncorrupt", "SyncEntry.unignore",
   "SyncState._change_oid", "SyncState._change_path", "SyncState._storage_update", "SyncState._update_kids", "SyncState._update_kids_of",
   "SyncState.mark_changed", "SyncState.storage_commit", "SyncState.update", "SyncState.update_entry",
   "SyncState.updated"]

/-- … reached while picking and synchronising one entry (`SyncManager.do`, all inside `with self.state.lock`) -/
def syncFns : List String :=
  ["SideState._set_exists", "SideState._set_mtime", "SideState.clean_temp", "SideState.clear", "SideState.set_aged",
   "SideState.set_force_sync", "SideState.uncorrupt", "SmartSyncState._smart_sync_ent", "SyncEntry.get_latest",
   "SyncEntry.ignore", "SyncEntry.mark_dirty", "SyncEntry.punt", "SyncEntry.unignore",
   "SyncManager.__resolver_merge_upload", "SyncManager._create_synced", "SyncManager.check_rename_is_delete_create",
   "SyncManager.check_revivify", "SyncManager.create_synced", "SyncManager.delete_synced",
   "SyncManager.download_changed", "SyncManager.embrace_change", "SyncManager.finished",
   "SyncManager.get_folder_file_conflict", "SyncManager.handle_changed_is_missing",
   "SyncManager.handle_cloud_file_not_found_error", "SyncManager.handle_corrupt", "SyncManager.handle_hash_diff",
   "SyncManager.handle_path_change_or_creation", "SyncManager.handle_rename", "SyncManager.handle_split_conflict",
   "SyncManager.resolve_conflict", "SyncManager.sync", "SyncManager.unsafe_mkdir_synced",
   "SyncManager.upload_synced", "SyncState._change_oid", "SyncState._change_path", "SyncState._storage_update",
   "SyncState._update_kids", "SyncState._update_kids_of", "SyncState.finished", "SyncState.mark_changed", "SyncState.split",
   "SyncState.storage_commit", "SyncState.unconditionally_get_latest", "SyncState.unconditionally_get_no_info",
   "SyncState.update", "SyncState.update_entry", "SyncState.updated"]

/-- UNLOCKED: `SmartSyncState._smart_sync_ent` (smartsync.py:105-114) clears the local side and calls `update_entry`
    without the lock when the state object's `smart_sync_path/_oid` are called directly, and from the `_changeset` getter
    (auto-sync callbacks) through the public `busy` / `changes`.  (`SmartCloudSync.smart_sync_path/_oid` reached it unlocked
    too before fix F7; they now take `state.lock` around the whole request.) -/
def smartRequestFns : List String :=
  ["SideState._set_exists", "SideState._set_mtime", "SideState.clear", "SideState.uncorrupt",
   "SmartSyncState._smart_sync_ent", "SyncState._change_oid", "SyncState._change_path", "SyncState._update_kids", "SyncState._update_kids_of",
   "SyncState.mark_changed", "SyncState.update_entry", "SyncState.updated"]

/-- everything `smart_unsync_oid/_path` reaches: `SmartCloudSync._smart_unsync_ent` refreshes and synchronises one entry —
    the whole of `_sync_one_entry` — then `SmartSyncState._smart_unsync_ent` clears the local side.  Since fix F7 the public
    methods take `state.lock` around all of it (before F7: reached with no lock at all) -/
def smartUnsyncFns : List String :=
  ["SideState._set_exists", "SideState._set_mtime", "SideState.clean_temp", "SideState.clear", "SideState.set_aged",
   "SideState.set_force_sync", "SideState.uncorrupt", "SmartCloudSync._smart_unsync_ent",
   "SmartSyncState._smart_sync_ent", "SmartSyncState._smart_unsync_ent", "SyncEntry.get_latest", "SyncEntry.ignore",
   "SyncEntry.mark_dirty", "SyncEntry.punt", "SyncEntry.unignore", "SyncManager.__resolver_merge_upload",
   "SyncManager._create_synced", "SyncManager.check_rename_is_delete_create", "SyncManager.check_revivify",
   "SyncManager.create_synced", "SyncManager.delete_synced", "SyncManager.download_changed",
   "SyncManager.embrace_change", "SyncManager.finished", "SyncManager.get_folder_file_conflict",
   "SyncManager.handle_changed_is_missing", "SyncManager.handle_cloud_file_not_found_error",
   "SyncManager.handle_corrupt", "SyncManager.handle_hash_diff", "SyncManager.handle_path_change_or_creation",
   "SyncManager.handle_rename", "SyncManager.handle_split_conflict", "SyncManager.resolve_conflict",
   "SyncManager.sync", "SyncManager.unsafe_mkdir_synced", "SyncManager.upload_synced", "SyncState._change_oid",
   "SyncState._change_path", "SyncState._storage_update", "SyncState._update_kids", "SyncState._update_kids_of", "SyncState.finished",
   "SyncState.mark_changed", "SyncState.split", "SyncState.storage_commit", "SyncState.unconditionally_get_latest",
   "SyncState.unconditionally_get_no_info", "SyncState.update", "SyncState.update_entry", "SyncState.updated"]

/-- `smart_delete_path`: its `if remote_path:` block; under `state.lock` since fix F7 (before: unlocked) -/
def smartDeleteFns : List String :=
  ["SideState._set_exists", "SideState._set_mtime", "SideState.uncorrupt", "SmartCloudSync.smart_delete_path",
   "SyncState._change_oid", "SyncState._change_path", "SyncState._update_kids", "SyncState._update_kids_of", "SyncState.mark_changed",
   "SyncState.update_entry", "SyncState.updated"]

/-- UNLOCKED: `SmartSyncState._smart_unsync_ent` (smartsync.py:133-142) called directly on the state object -/
def stateUnsyncFns : List String :=
  ["SideState._set_exists", "SideState._set_mtime", "SideState.clear", "SideState.uncorrupt",
   "SmartSyncState._smart_unsync_ent", "SyncState._change_oid", "SyncState._change_path", "SyncState._update_kids", "SyncState._update_kids_of",
   "SyncState.updated"]

/-- THE AUDITED TABLE: entry point, functions reached only under the lock, functions reached on some path without it -/
def audited : List (String × List String × List String) := [
  ("EventManager.do", eventFns, []),
  ("SyncManager.do", syncFns, []),
  ("SmartSyncManager.do", syncFns, []),
  ("NotificationManager.do", [], []),
  ("CloudSync.forget", ["SyncState.forget"], []),
  ("CloudSync.set_need_walk", [], []),
  ("CloudSync.aging", [], []),
  ("CloudSync.storage_label", [], []),
  ("CloudSync.walk", [], []),
  ("CloudSync.authenticate", [], []),
  ("CloudSync.prioritize", [], []),
  ("CloudSync.translate", [], []),
  ("CloudSync.resolve_conflict", [], []),
  ("CloudSync.change_count", [], []),
  ("CloudSync.busy", [], smartRequestFns),
  ("CloudSync.start", [], []),
  ("CloudSync.stop", [], []),
  ("CloudSync.do", syncFns, []),
  ("CloudSync.done", [], []),
  ("CloudSync.wait", [], []),
  ("CloudSync.handle_notification", [], []),
  ("SmartCloudSync.register_auto_sync_callback", [], []),
  ("SmartCloudSync.smart_unsync_oid", smartUnsyncFns, []),
  ("SmartCloudSync.smart_unsync_path", smartUnsyncFns, []),
  ("SmartCloudSync.smart_sync_oid", syncFns, []),
  ("SmartCloudSync.smart_sync_path", syncFns, []),
  ("SmartCloudSync.smart_listdir_path", [], []),
  ("SmartCloudSync.smart_info_path", [], []),
  ("SmartCloudSync.smart_info_oid", [], []),
  ("SmartCloudSync.smart_delete_path", smartDeleteFns, []),
  ("SmartCloudSync.smart_rename", [], []),
  ("SmartSyncState.smart_sync_path", [], smartRequestFns),
  ("SmartSyncState.smart_sync_oid", [], smartRequestFns),
  ("SmartSyncState.smart_unsync_ent", [], stateUnsyncFns),
  ("SmartSyncState.smart_unsync_oid", [], stateUnsyncFns),
  ("SmartSyncState.smart_listdir_path", [], []),
  ("SmartSyncState.changes", [], smartRequestFns),
  ("SmartSyncState.register_auto_sync_callback", [], []),
  ("NotificationManager.notify", [], []),
  ("NotificationManager.notify_from_exception", [], [])
]

/-- **the generated table is the audited table** (breaks whenever the locking structure of the repo changes:
    a `with …lock` removed or narrowed, a mutation or a call moved out of it, a new unlocked public path) -/
theorem lock_sites_audited : lockTable = audited := rfl

/-- the engine's own threads (event thread per side, sync thread, notification thread; `CloudSync.do` is the
    test-only sequential composition) touch sync state only under the lock: no function is reached without it -/
theorem engine_threads_locked :
    (lockTable.filter (fun r => ["EventManager.do", "SyncManager.do", "SmartSyncManager.do", "NotificationManager.do",
                                 "CloudSync.do"].contains r.1)).map (fun r => (r.1, r.2.2)) =
      [("EventManager.do", []), ("SyncManager.do", []), ("SmartSyncManager.do", []), ("NotificationManager.do", []),
       ("CloudSync.do", [])] := by
  decide +kernel

/-- the entry points with an unlocked path are exactly these (each is an open known finding, confirmed dynamically by
    harness/c15_threads.py; a NEW unlocked entry point breaks this theorem) -/
theorem unlocked_entry_points :
    (lockTable.filter (fun r => !r.2.2.isEmpty)).map (·.1) =
      ["CloudSync.busy", "SmartSyncState.smart_sync_path", "SmartSyncState.smart_sync_oid",
       "SmartSyncState.smart_unsync_ent", "SmartSyncState.smart_unsync_oid", "SmartSyncState.changes"] := rfl

/-- fix F7: the six public methods repaired by taking `state.lock` reach no mutating function without it any more
    (a revert of any one of the six edits breaks this theorem and `lock_sites_audited`) -/
theorem f7_entry_points_locked :
    (lockTable.filter (fun r => ["CloudSync.forget", "SmartCloudSync.smart_unsync_oid", "SmartCloudSync.smart_unsync_path",
                                 "SmartCloudSync.smart_sync_oid", "SmartCloudSync.smart_sync_path",
                                 "SmartCloudSync.smart_delete_path"].contains r.1)).map (fun r => (r.1, r.2.2)) =
      [("CloudSync.forget", []), ("SmartCloudSync.smart_unsync_oid", []), ("SmartCloudSync.smart_unsync_path", []),
       ("SmartCloudSync.smart_sync_oid", []), ("SmartCloudSync.smart_sync_path", []),
       ("SmartCloudSync.smart_delete_path", [])] := by
  decide +kernel

/-! ## lock identity: where the source binds the lock attribute -/

/-- THE AUDITED BINDING SITES: the state lock is created once, in the constructor of the state; nothing re-binds, deletes,
    aliases or copies it (kinds bind / del / setattr / dict / alias / copy of tools/gen_lock_sites.py `lock_bindings`) -/
def auditedBindings : List CS.LockId.BindingSite := [("bind", "SyncState.__init__", "self.lock")]

/-- the generated list of binding sites is the audited one (breaks on ANY new assignment, deletion, setattr, `__dict__` write,
    alias or copy of the lock attribute anywhere in the analysed sources; such a difference is never tolerated by the harness) -/
theorem lock_bindings_audited : lockBindings = auditedBindings := rfl

/-- LOCK-IDENTITY STABILITY of the source: the only binding site is the constructor's -/
theorem lock_identity_stable : CS.LockId.ConstructorOnly lockBindings = true := by
  decide

/-- the serializability theorem instantiated with the source's binding table: for every program that abstracts the engine
    (`RespectsBindings`) and keeps the discipline, every interleaving is equivalent to a serial one.  The lock-identity
    hypothesis of `discipline_implies_serializable_stable_lock` is discharged HERE, by the table fact. -/
theorem engine_serializable (p : CS.LockId.MProg) (σ : Loc → Val)
    (habs : CS.LockId.RespectsBindings lockBindings p) (hd : Disciplined (CS.LockId.toProg p))
    (sched : List Tid) (s' : CS.LockId.MState) (hr : CS.LockId.mrun (CS.LockId.minit p σ) sched = some s') :
    ∃ sched' s'', CS.LockId.mrun (CS.LockId.minit p σ) sched' = some s'' ∧ CS.LockId.MSerial (CS.LockId.minit p σ) sched' ∧
      s''.store = s'.store ∧ s''.obs = s'.obs :=
  CS.LockId.discipline_implies_serializable_stable_lock lockBindings p σ lock_identity_stable habs hd sched s' hr

end CS.Lock
